"""C03 - batch bounds of the batch processors (sdk/src/trace/batch_span_processor.cc, sdk/src/logs/batch_log_record_processor.cc)."""
from ..core import Proof
from .. import refute as R
from . import common

prop_id = "C03"
tu_name = "tu_batch_span"
tu_text = '#include "%s/sdk/src/trace/batch_span_processor.cc"\n' % R.core.REPO
TU_LOGS = ("tu_batch_logs", '#include "%s/sdk/src/logs/batch_log_record_processor.cc"\n' % R.core.REPO)
spec_headers = ("xc_trace_boundary.h",)
pre_c = r"""
unsigned long g_exporter_shutdown_n; int g_joinable, g_exporter_shutdown_ret; long g_now;
static void xc_havoc_ghosts(void) { unsigned long a; int j, r; long t; g_exporter_shutdown_n = a; g_joinable = j; g_exporter_shutdown_ret = r; g_now = t; }
#define QSIZE(s) ((s)->buffer_.head_ - (s)->buffer_.tail_)
#define XC_EXCHANGE(lv, v) ({ __typeof__(lv) xc_old = (lv); (lv) = (v); xc_old; })
#define XC_FETCH_ADD(lv, v) ({ __typeof__(lv) xc_old = (lv); (lv) = xc_old + (v); xc_old; })
static int xc_thread_joinable(void) { return g_joinable; }
static void xc_thread_join(void) { }      /* the worker runs to its end: it is assumed not to issue flush tickets (see assumptions) */
static void xc_cv_notify(void) { }
static long xc_now(void) { return g_now; }
static void xc_GetWaitAdjustedTime(long *timeout, long *start_time) { long a, b; *timeout = a; *start_time = b; }
static bool xc_exporter_Shutdown(long timeout) { g_exporter_shutdown_n++; return g_exporter_shutdown_ret != 0; }
"""
post_struct_c = ""


def configure(cfg):
    common.sdk_trace_boundary(cfg)
    common.batch_boundary(cfg)
    common.chrono_boundary(cfg)
    for cls in ("BatchSpanProcessor", "BatchLogRecordProcessor"):
        cfg.ext_q[cls + "::GetWaitAdjustedTime"] = lambda em, node, recv, args: "xc_GetWaitAdjustedTime(%s, %s)" % (em.addr_of(args[0]), em.addr_of(args[1]))
    for exp in ("SpanExporter", "LogRecordExporter"):
        cfg.ext_q[exp + "::Shutdown"] = lambda em, node, recv, args: "xc_exporter_Shutdown(%s)" % em.expr(args[0])
    cfg.ext["now"] = lambda em, node, recv, args: "xc_now()"
    for k in ("std::unique_ptr::operator==", "std::unique_ptr::operator!="):
        cfg.ext_methods[k] = (lambda o: (lambda em, recv, args, n: "(%s.id %s 0)" % (recv, o)))(k[-2:])


def slice_contract(extra=""):
    # the number of records handed to the exporter in one Export call, as computed at the top of every round of Export():
    # never more than max_export_batch_size (and exactly min(queued, max)), whatever the ForceFlush history
    return {"pre":
        "__CPROVER_requires(__CPROVER_is_fresh(self, sizeof(*self)) && __CPROVER_is_fresh(self->synchronization_data_, sizeof(*self->synchronization_data_)))\n"
        "__CPROVER_requires(__CPROVER_is_fresh(num_records_to_export, sizeof(unsigned long)) && __CPROVER_is_fresh(xc_out_notify_force_flush, sizeof(unsigned long)))\n"
        "__CPROVER_requires(self->buffer_.tail_ <= self->buffer_.head_ && QSIZE(self) <= self->max_queue_size_ && "
        "1 <= self->max_export_batch_size_ && self->max_export_batch_size_ <= self->max_queue_size_)\n" + extra +
        "__CPROVER_assigns(*num_records_to_export, *xc_out_notify_force_flush)\n"
        "__CPROVER_ensures(*num_records_to_export <= self->max_export_batch_size_)\n"
        "__CPROVER_ensures(*num_records_to_export == (QSIZE(self) < self->max_export_batch_size_ ? QSIZE(self) : self->max_export_batch_size_))\n"
        "__CPROVER_ensures(*num_records_to_export <= QSIZE(self))\n"}


def shutdown_contract(T):
    # the batch bound relies on "no flush ticket": Shutdown must not issue one (only ForceFlush does). Frame: besides the shutdown flags nothing of
    # the synchronisation data is written; the exporter is shut down at most once, and only by the first Shutdown
    return {"pre":
        "__CPROVER_requires(__CPROVER_is_fresh(self, sizeof(%s)) && __CPROVER_is_fresh(self->synchronization_data_, sizeof(*self->synchronization_data_)))\n" % T +
        "__CPROVER_assigns(self->synchronization_data_->is_shutdown, self->synchronization_data_->is_force_wakeup_background_worker, g_exporter_shutdown_n)\n"
        "__CPROVER_ensures(self->synchronization_data_->force_flush_pending_sequence == __CPROVER_old(self->synchronization_data_->force_flush_pending_sequence))\n"
        "__CPROVER_ensures(self->synchronization_data_->is_shutdown)\n"
        "__CPROVER_ensures(g_exporter_shutdown_n == __CPROVER_old(g_exporter_shutdown_n) + ((!__CPROVER_old(self->synchronization_data_->is_shutdown) && self->exporter_.id != 0) ? 1 : 0))\n"}


NO_FLUSH = "__CPROVER_requires(self->synchronization_data_->force_flush_pending_sequence == 0)\n"
contracts = {"Export_batch_size": slice_contract(), "Export_batch_size_logs": slice_contract(),
             "BatchSpanProcessor_Shutdown": shutdown_contract("BatchSpanProcessor"), "BatchLogRecordProcessor_Shutdown": shutdown_contract("BatchLogRecordProcessor")}

SPAN = {"func": ("BatchSpanProcessor::Export", 0), "from": "notify_force_flush", "to": "#2", "cname": "Export_batch_size"}
LOGS = {"func": ("BatchLogRecordProcessor::Export", 0), "from": "notify_force_flush", "to": "#2", "cname": "Export_batch_size_logs"}
proofs = [
    Proof("SpanExport_batch_size", [SPAN], enforce="Export_batch_size", desc="every history, including a ForceFlush ticket that was ever issued"),
    Proof("SpanExport_batch_size_no_flush_pending", [SPAN], enforce="Export_batch_size", contracts={"Export_batch_size": slice_contract(NO_FLUSH)},
          desc="the same contract restricted to histories without a pending/ever issued ForceFlush ticket (the listed finding excluded)"),
    Proof("LogExport_batch_size", [LOGS], enforce="Export_batch_size_logs", desc="every history"),
    Proof("LogExport_batch_size_no_flush_pending", [LOGS], enforce="Export_batch_size_logs", contracts={"Export_batch_size_logs": slice_contract(NO_FLUSH)},
          desc="restricted to histories without a ForceFlush ticket"),
]
proofs += [
    Proof("SpanShutdown_no_ticket", [("BatchSpanProcessor::Shutdown", 1)], enforce="BatchSpanProcessor_Shutdown",
          desc="Shutdown issues no flush ticket (frame), shuts the exporter down at most once"),
    Proof("LogShutdown_no_ticket", [("BatchLogRecordProcessor::Shutdown", 1)], enforce="BatchLogRecordProcessor_Shutdown",
          desc="Shutdown issues no flush ticket (frame), shuts the exporter down at most once"),
]
for _p in proofs:
    if _p.name.startswith("Log"):
        _p.tu = TU_LOGS

trusted = ("std::atomic fields as plain fields (the slice is straight-line; it reads each atomic once)",)
assumptions = (
    "only the batch-size computation at the top of each round of Export() is under contract (a slice of the real body); that "
    "Consume(n)/ForEach hand over exactly n records, that batches are non-empty (the n == 0 test right after the slice) and that Export "
    "calls never overlap are NOT covered",
    "queue size = head - tail read once, sequentially",
    "Shutdown is checked as one sequential call: joining the worker is a no-op of the model, i.e. the worker thread (DoBackgroundWork, DrainQueue, "
    "Export, NotifyCompletion) is ASSUMED not to write force_flush_pending_sequence; only the Export slice's own frame is proved",
)
not_covered = ("'Export is never invoked while a previous Export is still running' (threads)", "CircularBuffer::Consume / CircularBufferRange::ForEach (C11, not built)",
               "the simple processor and the periodic metric reader")

DRIVER_SRCS = ["sdk/src/trace/batch_span_processor.cc", "sdk/src/trace/exporter.cc", "sdk/src/logs/batch_log_record_processor.cc", "sdk/src/logs/exporter.cc",
               "sdk/src/logs/read_write_log_record.cc", "sdk/src/logs/readable_log_record.cc", "sdk/src/common/global_log_handler.cc",
               "sdk/src/common/env_variables.cc", "sdk/src/common/platform/fork_unix.cc", "sdk/src/resource/resource.cc",
               "sdk/src/resource/resource_detector.cc", "sdk/src/version/version.cc"]


def _suffix(vals, suf):
    for k, v in vals.items():
        if k.endswith(suf) and not k.endswith("#bin"):
            return R.to_int(v)
    return None


def refute_native(mod, proof, violations, ix, workdir, seed):
    """The slice proofs are leaf proofs, so the verifier's trace is an execution: its configuration (queue bound, batch bound, queued
    records, ForceFlush ticket) is replayed as a history on the real processor when it is small enough to run, followed by a short list
    of scaled histories with the same shape (ticket issued or not; queued <, ==, > batch bound)."""
    which = "logs" if proof.name.startswith("Log") else "span"
    if "Shutdown" in proof.name:
        # a ticket issued by Shutdown shows as an oversized batch when a backlog is drained at shutdown, in a history without ForceFlush
        r = R.native_check("c03_native", ["c03_native.cc"], ["backlog_shutdown", which, 256, 5, 21], repo_sources=DRIVER_SRCS)
        r["input"] = {"history": "%s processor, max_queue_size=256 max_export_batch_size=5: 5 records, exporter stuck in its first Export, 21 more records, Shutdown, exporter released (no ForceFlush)" % which,
                      "found_by": "scripted native history (refute mode)"}
        return r if r["reproduced"] else None
    vals = R.leaf_trace(workdir, proof.name, violations[0]["obligation"]) or {}
    q, b = _suffix(vals, ".max_queue_size_"), _suffix(vals, ".max_export_batch_size_")
    h, t = _suffix(vals, ".buffer_.head_"), _suffix(vals, ".buffer_.tail_")
    pend = _suffix(vals, ".force_flush_pending_sequence")
    flush = 1 if (pend or 0) != 0 and "no_flush" not in proof.name else 0
    cands = []
    if None not in (q, b, h, t) and 0 < b <= q <= (1 << 20) and 0 <= h - t <= q:
        cands.append((q, b, 0, flush, h - t))
    for (cq, cb, cn) in ((100, 5, 40), (100, 5, 5), (100, 5, 3), (4096, 7, 4000), (16, 16, 16), (2, 1, 2), (65536, 512, 60000)):
        cands.append((cq, cb, 8 if flush else 0, flush, cn))
    for (cq, cb, n1, fl, n2) in cands:
        r = R.native_check("c03_native", ["c03_native.cc"], ["hist", which, cq, cb, n1, fl, n2], repo_sources=DRIVER_SRCS)
        if r["reproduced"]:
            r["input"] = {"history": "%s processor, max_queue_size=%d max_export_batch_size=%d: %d records, %s%d records, Shutdown" %
                          (which, cq, cb, n1, "ForceFlush, " if fl else "", n2),
                          "verifier_configuration": {"max_queue_size": q, "max_export_batch_size": b, "queued": None if None in (h, t) else h - t, "force_flush_pending_sequence": pend},
                          "found_by": "verifier trace replayed / scaled as a native history (refute mode)"}
            return r
    return None


refuters = {p.name: refute_native for p in proofs}


# ---------------------------------------------------------------------------------------------
# The whole of Export(): "every batch a batch processor delivers is non-empty and holds at most max_export_batch_size records" as a loop
# invariant of the real do { ... } while (true) body over ghost-recorded boundary calls. The batch vector is ONE ghost length g_vec_size
# (whatever variable holds it: constructed empty, push_back adds one, clear empties), CircularBuffer::Consume(n, cb) advances tail by n and
# runs cb on a range of n slots, CircularBufferRange::ForEach(f) calls f once per slot (shim loop with its own invariant), the exporter's Export
# records the size it is given. Histories with a ForceFlush ticket are excluded here (known finding F6).
FULL_PRE = pre_c + r"""
unsigned long g_vec_size, g_push_calls, g_export_calls, g_export_bad, g_export_last, g_notify_calls, g_max_batch, g_exported_total;
typedef struct xc_spanv { unsigned long n; } xc_spanv;          /* nostd::span over the batch: its length */
static void xc_havoc_full(void) { unsigned long a, b; g_vec_size = a; g_push_calls = b; g_export_calls = 0; g_export_bad = 0; g_export_last = 0; g_notify_calls = 0; g_exported_total = 0; }
typedef struct xc_vec { char xc_unused; } xc_vec;           /* the batch vector: its length is the ghost g_vec_size */
typedef struct xc_range { unsigned long n; } xc_range;       /* CircularBufferRange: n slots */
typedef struct xc_slot { char xc_unused; } xc_slot;          /* AtomicUniquePtr<Recordable>: the inner callback only moves it on */
static xc_vec xc_vec_new(void) { xc_vec v; g_vec_size = 0; v.xc_unused = 0; return v; }
static void xc_vec_push_back(void) { g_vec_size++; g_push_calls++; }
static int xc_exporter_Export(unsigned long size) { int result; g_export_calls++; g_export_last = size; g_exported_total += size; if (size == 0 || size > g_max_batch) g_export_bad = 1; return result; }      /* any ExportResult */
static void xc_NotifyCompletion(void) { g_notify_calls++; }
#define FULL_GHOSTS g_vec_size, g_push_calls, g_export_calls, g_export_bad, g_export_last, g_notify_calls, g_exported_total
"""


def _full_vec_type(em, base, targs, name):
    if base == "std::vector":
        return common.CT("xc_vec")
    if base.endswith("CircularBufferRange"):
        return common.CT("xc_range")
    if base in ("nostd::span", "span"):
        return common.CT("xc_spanv")
    if base.endswith("AtomicUniquePtr"):
        return common.CT("xc_slot")
    if base == "std::unique_ptr" and targs and targs[0].strip().split("::")[-1] in ("Recordable",):
        return common.CT("xc_handle")
    return None


def _full_consume(em, node, recv, args):
    lam = em._find_lambda(args[1])
    if lam is None:
        raise common.ExtractionError("Consume without a lambda callback")
    li = em.lambda_info(lam, None)
    caps = [em.capture_arg(c) for c in li["captures"]]
    r = recv["node"] if isinstance(recv, dict) and recv.get("xc_is_ptr") else recv
    buf = em.expr(r)
    n = em.expr(args[0])
    em.report["CircularBuffer::Consume(n, callback) -> tail += n; callback(range of n slots) (boundary)"] += 1
    return "({ unsigned long xc_n = %s; (%s).tail_ += xc_n; %s(%s); })" % (n, buf, li["cname"], ", ".join(caps + ["((xc_range){xc_n})"]))


def _full_foreach(em, node, recv, args):
    lam = em._find_lambda(args[0])
    if lam is None:
        raise common.ExtractionError("ForEach without a lambda callback")
    li = em.lambda_info(lam, None)
    caps = [em.capture_arg(c) for c in li["captures"]]
    r = recv["node"] if isinstance(recv, dict) and recv.get("xc_is_ptr") else recv
    rng = em.expr(r)
    em.report["CircularBufferRange::ForEach(callback) -> callback once per slot (shim loop with invariant g_vec_size == entry + j)"] += 1
    return ("({ unsigned long xc_rn = (%s).n; unsigned long xc_v0 = g_vec_size; xc_slot xc_s; for (unsigned long xc_j = 0; xc_j < xc_rn; xc_j++)\n"
            "__CPROVER_assigns(xc_j, g_vec_size, g_push_calls, xc_s)\n__CPROVER_loop_invariant(xc_j <= xc_rn && g_vec_size == xc_v0 + xc_j)\n__CPROVER_decreases(xc_rn - xc_j)\n"
            "{ %s(%s); } })" % (rng, li["cname"], ", ".join(caps + ["&xc_s"])))


def _configure_full(cfg):
    configure(cfg)
    cfg.type_handlers.insert(0, _full_vec_type)
    cfg.ctor_ext["std::vector"] = lambda em, node, args: "xc_vec_new()"
    cfg.ext_methods["std::vector::reserve"] = lambda em, recv, args, n: "(void)0"
    cfg.ext_methods["std::vector::push_back"] = lambda em, recv, args, n: "xc_vec_push_back()"
    cfg.ext_methods["std::vector::emplace_back"] = lambda em, recv, args, n: "xc_vec_push_back()"
    cfg.ext_methods["std::vector::clear"] = lambda em, recv, args, n: "(g_vec_size = 0)"
    cfg.ext_methods["std::vector::size"] = lambda em, recv, args, n: "g_vec_size"
    cfg.ext_methods["std::vector::data"] = lambda em, recv, args, n: "0"
    cfg.ext_methods["std::vector::empty"] = lambda em, recv, args, n: "(g_vec_size == 0)"
    cfg.ctor_ext["std::unique_ptr"] = lambda em, node, args: "((xc_handle){0})"
    cfg.ext_methods["std::unique_ptr::release"] = lambda em, recv, args, n: "0"
    for q in ("CircularBuffer<sdk::trace::Recordable>::Consume", "CircularBuffer<sdk::logs::Recordable>::Consume", "CircularBuffer::Consume"):
        cfg.ext_q[q] = _full_consume
    for q in ("CircularBufferRange<sdk::common::AtomicUniquePtr<sdk::trace::Recordable>>::ForEach", "CircularBufferRange<sdk::common::AtomicUniquePtr<sdk::logs::Recordable>>::ForEach",
              "CircularBufferRange::ForEach"):
        cfg.ext_q[q] = _full_foreach
    for q in ("AtomicUniquePtr<sdk::trace::Recordable>::Swap", "AtomicUniquePtr<sdk::logs::Recordable>::Swap", "AtomicUniquePtr::Swap"):
        cfg.ext_q[q] = lambda em, node, recv, args: "(void)0"

    def _span_ctor(em, node, args):
        real = [a for a in args if a.get("kind") != "CXXDefaultArgExpr"]
        if len(real) == 2:
            return "((xc_spanv){%s})" % em.expr(real[1])          # span(ptr, size)
        if len(real) == 1:
            return em.expr(real[0])
        return "((xc_spanv){0})"
    cfg.ctor_ext["nostd::span"] = _span_ctor
    for f in ("yield", "sleep_for", "sleep_until"):
        cfg.ext[f] = lambda em, node, recv, args: "(void)0"      # std::this_thread: no effect on the data

    def _exp(em, node, recv, args):
        # exporter_->Export(nostd::span<...>): the number of records in the span
        return "xc_exporter_Export((%s).n)" % em.expr(args[0])
    for exp in ("SpanExporter", "LogRecordExporter"):
        cfg.ext_q[exp + "::Export"] = _exp
    for cls in ("BatchSpanProcessor", "BatchLogRecordProcessor"):
        cfg.ext_q[cls + "::NotifyCompletion"] = lambda em, node, recv, args: "xc_NotifyCompletion()"


QS = "(self->buffer_.head_ - self->buffer_.tail_)"
FULL_REQ = ("__CPROVER_is_fresh(self, sizeof(*self)) && __CPROVER_is_fresh(self->synchronization_data_, sizeof(*self->synchronization_data_)) && "
            "self->buffer_.tail_ <= self->buffer_.head_ && " + QS + " <= self->max_queue_size_ && self->max_queue_size_ <= 1000000 && "
            "1 <= self->max_export_batch_size_ && self->max_export_batch_size_ <= self->max_queue_size_ && g_max_batch == self->max_export_batch_size_ && "
            "self->synchronization_data_->force_flush_pending_sequence == 0")


def full_contract():
    return {"pre":
        "__CPROVER_requires(" + FULL_REQ + ")\n"
        "__CPROVER_assigns(FULL_GHOSTS, self->buffer_.tail_)\n"
        # every batch handed to the exporter during this Export() is non-empty and within the bound; the queue is drained
        "__CPROVER_ensures(g_export_bad == 0 && self->buffer_.tail_ == self->buffer_.head_)\n"
        # every record taken from the queue is handed to the exporter exactly once: as many records exported as consumed
        "__CPROVER_ensures(g_exported_total == self->buffer_.head_ - __CPROVER_old(self->buffer_.tail_))\n",
        "loops": {1: "__CPROVER_assigns(FULL_GHOSTS, self->buffer_.tail_)\n"
                     "__CPROVER_loop_invariant(g_export_bad == 0 && self->buffer_.tail_ <= self->buffer_.head_ && self->buffer_.tail_ >= __CPROVER_loop_entry(self->buffer_.tail_))\n"
                     "__CPROVER_loop_invariant(g_exported_total == self->buffer_.tail_ - __CPROVER_loop_entry(self->buffer_.tail_))\n"
                     "__CPROVER_decreases(self->buffer_.head_ - self->buffer_.tail_ + 1)\n"}}


contracts["BatchSpanProcessor_Export"] = full_contract()
contracts["BatchLogRecordProcessor_Export"] = full_contract()
_pfull = [Proof("SpanExport_batches_bounded", [("BatchSpanProcessor::Export", 0)], enforce="BatchSpanProcessor_Export", configure=_configure_full, timeout=600,
                desc="the whole Export(): every batch handed to the exporter is non-empty and at most max_export_batch_size, in every round (no ForceFlush ticket)"),
          Proof("LogExport_batches_bounded", [("BatchLogRecordProcessor::Export", 0)], enforce="BatchLogRecordProcessor_Export", configure=_configure_full, timeout=600,
                desc="the same for the log record processor")]
_pfull[1].tu = TU_LOGS
for _p in _pfull:
    _p.pre_c = FULL_PRE.replace("static void xc_havoc_ghosts(void) {", "static void xc_havoc_full(void); static void xc_havoc_ghosts(void) { xc_havoc_full();")
    _p.own_config = True
    refuters[_p.name] = refute_native
proofs += _pfull


# ---------------------------------------------------------------------------------------------
# The simple processors (one Export per record): "Export is never invoked while a previous Export on it is still running" rests on a lock discipline:
# the exporter's Export is called only while the processor's lock is held (std::lock_guard: acquired before, held throughout), exactly once per record.
# With the mutual exclusion of the lock itself (SpinLockMutex, ./check C11: sequential contracts only) this is the one-call-at-a-time guarantee.
SIMPLE_PRE = r"""
int g_held; unsigned long g_export_calls, g_unlocked_export, g_lock_calls;
typedef struct xc_lk { int owns; } xc_lk;                         /* std::lock_guard / std::unique_lock: does it own the mutex */
typedef struct xc_spanv { unsigned long n; } xc_spanv;
static void xc_havoc_ghosts(void) { g_held = 0; g_export_calls = 0; g_unlocked_export = 0; g_lock_calls = 0; }
static xc_lk xc_lock_acquire(void) { xc_lk l; g_lock_calls++; g_held = 1; l.owns = 1; return l; }          /* lock(): returns holding the mutex */
static xc_lk xc_lock_try_new(void) { xc_lk l; int got; g_lock_calls++; l.owns = got != 0; if (l.owns) g_held = 1; return l; }     /* try_to_lock: may fail */
static bool xc_lock_try(xc_lk *l) { int got; if (l->owns) return true; l->owns = got != 0; if (l->owns) g_held = 1; return l->owns != 0; }
static void xc_lock_lock(xc_lk *l) { l->owns = 1; g_held = 1; }
static void xc_lock_unlock(xc_lk *l) { l->owns = 0; g_held = 0; }
static int xc_exporter_Export(unsigned long n) { int r; g_export_calls++; if (!g_held) g_unlocked_export = 1; return r; }
"""


def _simple_types(em, base, targs, name):
    if base in ("std::lock_guard", "std::unique_lock", "std::scoped_lock"):
        return common.CT("xc_lk")
    if base in ("nostd::span", "span"):
        return common.CT("xc_spanv")
    if base == "std::unique_ptr" and targs and targs[0].strip().split("::")[-1] in ("Recordable", "SpanExporter", "LogRecordExporter"):
        return common.CT("xc_handle")
    return None


def _configure_simple(cfg):
    common.sdk_trace_boundary(cfg)
    common.chrono_boundary(cfg)
    cfg.type_handlers.insert(0, _simple_types)
    cfg.opaque_records["common::SpinLockMutex"] = "xc_opaque"

    def _lk_ctor(em, node, args):
        real = [a for a in args if a.get("kind") != "CXXDefaultArgExpr"]
        if len(real) >= 2:
            tag = (real[1].get("type", {}).get("qualType", "") + str(real[1]))
            if "try_to_lock" in tag:
                return "xc_lock_try_new()"
            if "defer_lock" in tag:
                return "((xc_lk){0})"
        return "xc_lock_acquire()"
    for k in ("std::lock_guard", "std::unique_lock", "std::scoped_lock"):
        cfg.ctor_ext[k] = _lk_ctor
        cfg.ext_methods[k + "::owns_lock"] = lambda em, recv, args, n: "(%s.owns != 0)" % recv
        cfg.ext_methods[k + "::operator bool"] = lambda em, recv, args, n: "(%s.owns != 0)" % recv
        cfg.ext_methods[k + "::try_lock"] = lambda em, recv, args, n: "xc_lock_try(&(%s))" % recv
        cfg.ext_methods[k + "::lock"] = lambda em, recv, args, n: "xc_lock_lock(&(%s))" % recv
        cfg.ext_methods[k + "::unlock"] = lambda em, recv, args, n: "xc_lock_unlock(&(%s))" % recv
    cfg.ctor_ext["nostd::span"] = lambda em, node, args: "((xc_spanv){%s})" % (em.expr([a for a in args if a.get("kind") != "CXXDefaultArgExpr"][1]) if len([a for a in args if a.get("kind") != "CXXDefaultArgExpr"]) == 2 else "0")
    for exp in ("SpanExporter", "LogRecordExporter"):
        cfg.ext_q[exp + "::Export"] = lambda em, node, recv, args: "xc_exporter_Export((%s).n)" % em.expr(args[0])
    for f in ("yield", "sleep_for", "sleep_until"):
        cfg.ext[f] = lambda em, node, recv, args: "(void)0"
    cfg.ext_methods["std::unique_ptr::operator->"] = lambda em, recv, args, n: recv


def simple_contract(T, param):
    return {"pre": "__CPROVER_requires(__CPROVER_is_fresh(self, sizeof(%s)) && __CPROVER_is_fresh(%s, sizeof(*%s)))\n" % (T, param, param) +
            "__CPROVER_assigns(g_held, g_export_calls, g_unlocked_export, g_lock_calls)\n"
            # the record is exported exactly once, and only while the processor's lock is held
            "__CPROVER_ensures(g_export_calls == 1 && g_unlocked_export == 0)\n"}


contracts["SimpleLogRecordProcessor_OnEmit"] = simple_contract("SimpleLogRecordProcessor", "record")
contracts["SimpleSpanProcessor_OnEnd"] = simple_contract("SimpleSpanProcessor", "span")
_psimple = [Proof("SimpleLog_OnEmit_locked", [("SimpleLogRecordProcessor::OnEmit", 1)], enforce="SimpleLogRecordProcessor_OnEmit", timeout=300,
                  desc="the exporter's Export is called exactly once per record and only while the processor's lock is held"),
            Proof("SimpleSpan_OnEnd_locked", [("SimpleSpanProcessor::OnEnd", 1)], enforce="SimpleSpanProcessor_OnEnd", timeout=300, desc="the same for spans")]
_psimple[0].tu = ("tu_simple_log", '#include "%s/sdk/src/logs/simple_log_record_processor.cc"\n' % R.core.REPO)
_psimple[1].tu = ("tu_simple_span", '#include "%s/sdk/include/opentelemetry/sdk/trace/simple_processor.h"\n' % R.core.REPO)
for _p in _psimple:
    _p.pre_c = SIMPLE_PRE
    _p.post_struct_c = ""
    _p.configure = _configure_simple
    _p.own_config = True
    _p.new_loop_unwind = 1100     # a retry loop that gives up after a bounded number of attempts must be followed to its end
proofs += _psimple
