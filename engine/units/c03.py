"""C03 - batch bounds of the batch processors (sdk/src/trace/batch_span_processor.cc, sdk/src/logs/batch_log_record_processor.cc)."""
from ..core import Proof
from .. import refute as R
from . import common

prop_id = "C03"
tu_name = "tu_batch_span"
tu_text = '#include "%s/sdk/src/trace/batch_span_processor.cc"\n' % R.core.REPO
TU_LOGS = ("tu_batch_logs", '#include "%s/sdk/src/logs/batch_log_record_processor.cc"\n' % R.core.REPO)
spec_headers = ("xc_trace_boundary.h",)
pre_c = r"""
unsigned long g_exporter_shutdown_n; int g_joinable, g_exporter_shutdown_ret; long g_now;
static void xc_havoc_ghosts(void) { unsigned long a; int j, r; long t; g_exporter_shutdown_n = a; g_joinable = j; g_exporter_shutdown_ret = r; g_now = t; }
#define QSIZE(s) ((s)->buffer_.head_ - (s)->buffer_.tail_)
#define XC_EXCHANGE(lv, v) ({ __typeof__(lv) xc_old = (lv); (lv) = (v); xc_old; })
#define XC_FETCH_ADD(lv, v) ({ __typeof__(lv) xc_old = (lv); (lv) = xc_old + (v); xc_old; })
static int xc_thread_joinable(void) { return g_joinable; }
static void xc_thread_join(void) { }      /* the worker runs to its end: it is assumed not to issue flush tickets (see assumptions) */
static void xc_cv_notify(void) { }
static long xc_now(void) { return g_now; }
static void xc_GetWaitAdjustedTime(long *timeout, long *start_time) { long a, b; *timeout = a; *start_time = b; }
static bool xc_exporter_Shutdown(long timeout) { g_exporter_shutdown_n++; return g_exporter_shutdown_ret != 0; }
"""
post_struct_c = ""


def configure(cfg):
    common.sdk_trace_boundary(cfg)
    common.batch_boundary(cfg)
    common.chrono_boundary(cfg)
    for cls in ("BatchSpanProcessor", "BatchLogRecordProcessor"):
        cfg.ext_q[cls + "::GetWaitAdjustedTime"] = lambda em, node, recv, args: "xc_GetWaitAdjustedTime(%s, %s)" % (em.addr_of(args[0]), em.addr_of(args[1]))
    for exp in ("SpanExporter", "LogRecordExporter"):
        cfg.ext_q[exp + "::Shutdown"] = lambda em, node, recv, args: "xc_exporter_Shutdown(%s)" % em.expr(args[0])
    cfg.ext["now"] = lambda em, node, recv, args: "xc_now()"
    for k in ("std::unique_ptr::operator==", "std::unique_ptr::operator!="):
        cfg.ext_methods[k] = (lambda o: (lambda em, recv, args, n: "(%s.id %s 0)" % (recv, o)))(k[-2:])


def slice_contract(extra=""):
    # the number of records handed to the exporter in one Export call, as computed at the top of every round of Export():
    # never more than max_export_batch_size (and exactly min(queued, max)), whatever the ForceFlush history
    return {"pre":
        "__CPROVER_requires(__CPROVER_is_fresh(self, sizeof(*self)) && __CPROVER_is_fresh(self->synchronization_data_, sizeof(*self->synchronization_data_)))\n"
        "__CPROVER_requires(__CPROVER_is_fresh(num_records_to_export, sizeof(unsigned long)) && __CPROVER_is_fresh(xc_out_notify_force_flush, sizeof(unsigned long)))\n"
        "__CPROVER_requires(self->buffer_.tail_ <= self->buffer_.head_ && QSIZE(self) <= self->max_queue_size_ && "
        "1 <= self->max_export_batch_size_ && self->max_export_batch_size_ <= self->max_queue_size_)\n" + extra +
        "__CPROVER_assigns(*num_records_to_export, *xc_out_notify_force_flush)\n"
        "__CPROVER_ensures(*num_records_to_export <= self->max_export_batch_size_)\n"
        "__CPROVER_ensures(*num_records_to_export == (QSIZE(self) < self->max_export_batch_size_ ? QSIZE(self) : self->max_export_batch_size_))\n"
        "__CPROVER_ensures(*num_records_to_export <= QSIZE(self))\n"}


def shutdown_contract(T):
    # the batch bound relies on "no flush ticket": Shutdown must not issue one (only ForceFlush does). Frame: besides the shutdown flags nothing of
    # the synchronisation data is written; the exporter is shut down at most once, and only by the first Shutdown
    return {"pre":
        "__CPROVER_requires(__CPROVER_is_fresh(self, sizeof(%s)) && __CPROVER_is_fresh(self->synchronization_data_, sizeof(*self->synchronization_data_)))\n" % T +
        "__CPROVER_assigns(self->synchronization_data_->is_shutdown, self->synchronization_data_->is_force_wakeup_background_worker, g_exporter_shutdown_n)\n"
        "__CPROVER_ensures(self->synchronization_data_->force_flush_pending_sequence == __CPROVER_old(self->synchronization_data_->force_flush_pending_sequence))\n"
        "__CPROVER_ensures(self->synchronization_data_->is_shutdown)\n"
        "__CPROVER_ensures(g_exporter_shutdown_n == __CPROVER_old(g_exporter_shutdown_n) + ((!__CPROVER_old(self->synchronization_data_->is_shutdown) && self->exporter_.id != 0) ? 1 : 0))\n"}


NO_FLUSH = "__CPROVER_requires(self->synchronization_data_->force_flush_pending_sequence == 0)\n"
contracts = {"Export_batch_size": slice_contract(), "Export_batch_size_logs": slice_contract(),
             "BatchSpanProcessor_Shutdown": shutdown_contract("BatchSpanProcessor"), "BatchLogRecordProcessor_Shutdown": shutdown_contract("BatchLogRecordProcessor")}

SPAN = {"func": ("BatchSpanProcessor::Export", 0), "from": "notify_force_flush", "to": "#2", "cname": "Export_batch_size"}
LOGS = {"func": ("BatchLogRecordProcessor::Export", 0), "from": "notify_force_flush", "to": "#2", "cname": "Export_batch_size_logs"}
proofs = [
    Proof("SpanExport_batch_size", [SPAN], enforce="Export_batch_size", desc="every history, including a ForceFlush ticket that was ever issued"),
    Proof("SpanExport_batch_size_no_flush_pending", [SPAN], enforce="Export_batch_size", contracts={"Export_batch_size": slice_contract(NO_FLUSH)},
          desc="the same contract restricted to histories without a pending/ever issued ForceFlush ticket (the listed finding excluded)"),
    Proof("LogExport_batch_size", [LOGS], enforce="Export_batch_size_logs", desc="every history"),
    Proof("LogExport_batch_size_no_flush_pending", [LOGS], enforce="Export_batch_size_logs", contracts={"Export_batch_size_logs": slice_contract(NO_FLUSH)},
          desc="restricted to histories without a ForceFlush ticket"),
]
proofs += [
    Proof("SpanShutdown_no_ticket", [("BatchSpanProcessor::Shutdown", 1)], enforce="BatchSpanProcessor_Shutdown",
          desc="Shutdown issues no flush ticket (frame), shuts the exporter down at most once"),
    Proof("LogShutdown_no_ticket", [("BatchLogRecordProcessor::Shutdown", 1)], enforce="BatchLogRecordProcessor_Shutdown",
          desc="Shutdown issues no flush ticket (frame), shuts the exporter down at most once"),
]
for _p in proofs:
    if _p.name.startswith("Log"):
        _p.tu = TU_LOGS

trusted = ("std::atomic fields as plain fields (the slice is straight-line; it reads each atomic once)",)
assumptions = (
    "only the batch-size computation at the top of each round of Export() is under contract (a slice of the real body); that "
    "Consume(n)/ForEach hand over exactly n records, that batches are non-empty (the n == 0 test right after the slice) and that Export "
    "calls never overlap are NOT covered",
    "queue size = head - tail read once, sequentially",
    "Shutdown is checked as one sequential call: joining the worker is a no-op of the model, i.e. the worker thread (DoBackgroundWork, DrainQueue, "
    "Export, NotifyCompletion) is ASSUMED not to write force_flush_pending_sequence; only the Export slice's own frame is proved",
)
not_covered = ("'Export is never invoked while a previous Export is still running' (threads)", "CircularBuffer::Consume / CircularBufferRange::ForEach (C11, not built)",
               "the simple processor and the periodic metric reader")

DRIVER_SRCS = ["sdk/src/trace/batch_span_processor.cc", "sdk/src/trace/exporter.cc", "sdk/src/logs/batch_log_record_processor.cc", "sdk/src/logs/exporter.cc",
               "sdk/src/logs/read_write_log_record.cc", "sdk/src/logs/readable_log_record.cc", "sdk/src/common/global_log_handler.cc",
               "sdk/src/common/env_variables.cc", "sdk/src/common/platform/fork_unix.cc", "sdk/src/resource/resource.cc",
               "sdk/src/resource/resource_detector.cc", "sdk/src/version/version.cc"]


def _suffix(vals, suf):
    for k, v in vals.items():
        if k.endswith(suf) and not k.endswith("#bin"):
            return R.to_int(v)
    return None


def refute_native(mod, proof, violations, ix, workdir, seed):
    """The slice proofs are leaf proofs, so the verifier's trace is an execution: its configuration (queue bound, batch bound, queued
    records, ForceFlush ticket) is replayed as a history on the real processor when it is small enough to run, followed by a short list
    of scaled histories with the same shape (ticket issued or not; queued <, ==, > batch bound)."""
    which = "logs" if proof.name.startswith("Log") else "span"
    if "Shutdown" in proof.name:
        # a ticket issued by Shutdown shows as an oversized batch when a backlog is drained at shutdown, in a history without ForceFlush
        r = R.native_check("c03_native", ["c03_native.cc"], ["backlog_shutdown", which, 256, 5, 21], repo_sources=DRIVER_SRCS)
        r["input"] = {"history": "%s processor, max_queue_size=256 max_export_batch_size=5: 5 records, exporter stuck in its first Export, 21 more records, Shutdown, exporter released (no ForceFlush)" % which,
                      "found_by": "scripted native history (refute mode)"}
        return r if r["reproduced"] else None
    vals = R.leaf_trace(workdir, proof.name, violations[0]["obligation"]) or {}
    q, b = _suffix(vals, ".max_queue_size_"), _suffix(vals, ".max_export_batch_size_")
    h, t = _suffix(vals, ".buffer_.head_"), _suffix(vals, ".buffer_.tail_")
    pend = _suffix(vals, ".force_flush_pending_sequence")
    flush = 1 if (pend or 0) != 0 and "no_flush" not in proof.name else 0
    cands = []
    if None not in (q, b, h, t) and 0 < b <= q <= (1 << 20) and 0 <= h - t <= q:
        cands.append((q, b, 0, flush, h - t))
    for (cq, cb, cn) in ((100, 5, 40), (100, 5, 5), (100, 5, 3), (4096, 7, 4000), (16, 16, 16), (2, 1, 2), (65536, 512, 60000)):
        cands.append((cq, cb, 8 if flush else 0, flush, cn))
    for (cq, cb, n1, fl, n2) in cands:
        r = R.native_check("c03_native", ["c03_native.cc"], ["hist", which, cq, cb, n1, fl, n2], repo_sources=DRIVER_SRCS)
        if r["reproduced"]:
            r["input"] = {"history": "%s processor, max_queue_size=%d max_export_batch_size=%d: %d records, %s%d records, Shutdown" %
                          (which, cq, cb, n1, "ForceFlush, " if fl else "", n2),
                          "verifier_configuration": {"max_queue_size": q, "max_export_batch_size": b, "queued": None if None in (h, t) else h - t, "force_flush_pending_sequence": pend},
                          "found_by": "verifier trace replayed / scaled as a native history (refute mode)"}
            return r
    return None


refuters = {p.name: refute_native for p in proofs}
