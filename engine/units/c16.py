"""C16 - B3 (single/multi header) and Jaeger propagation (b3_propagator.h, jaeger.h)."""
from ..core import Proof
from .. import refute as R
from . import common
from . import c09

prop_id = "C16"
tu_name = c09.tu_name
tu_text = c09.tu_text
spec_headers = c09.spec_headers
force_records = c09.force_records
configure = c09.configure

pre_c = c09.pre_c + """
/* ghost location of the three fields the B3 / Jaeger extractor works on (object-relative offsets) */
size_t g_tid_off, g_tid_len, g_sid_off, g_sid_len, g_fl_off, g_fl_len; uint8_t g_flags_buf[1];
#define VIEW_AT(base, off, len) ((string_view){(len), (base) + (off)})
"""
post_struct_c = common.trace_boundary_c(["b3", "X-B3-TraceId", "X-B3-SpanId", "X-B3-Sampled", "uber-trace-id"]) + "\nSpanContext g_extracted;\n"

RET = "__CPROVER_return_value"
H = lambda i: "g_get_ret[%d]" % i
GHOST_FIELDS = ("g_tid_off = POFF(trace_id_hex.data_); g_tid_len = trace_id_hex.length_; "
                "g_sid_off = POFF(span_id_hex.data_); g_sid_len = span_id_hex.length_; ")


def get_req(n):
    n = 5
    return "".join("__CPROVER_requires(%s.length_ <= XC_MAXLEN && __CPROVER_is_fresh(%s.data_, %s.length_))\n" % (H(i), H(i), H(i))
                   for i in range(n)) + "__CPROVER_requires(g_get_calls == 0)\n"


EXTRACT_ASSIGNS = ("g_get_calls, __CPROVER_object_whole(g_get_seen), "
                   "g_tid_off, g_tid_len, g_sid_off, g_sid_len, g_fl_off, g_fl_len")


def decode_claims(valid, tbase, sbase, sc):
    """ids are the left-padded big-endian values of the two hex fields (pointwise in g_j, hex guards inside HB_EXPECT_AT)"""
    return (
        "__CPROVER_ensures(%(v)s ==> (g_tid_len <= 32 && g_sid_len <= 16))\n"
        "__CPROVER_ensures((%(v)s && g_j < 16) ==> HB_EXPECT_AT(VIEW_AT(%(tb)s, g_tid_off, g_tid_len), 16, %(sc)s.trace_id_.rep_, g_j))\n"
        "__CPROVER_ensures((%(v)s && g_j < 8) ==> HB_EXPECT_AT(VIEW_AT(%(sb)s, g_sid_off, g_sid_len), 8, %(sc)s.span_id_.rep_, g_j))\n"
        "__CPROVER_ensures(%(v)s ==> ((g_tid_off <= g_off && g_off < g_tid_off + g_tid_len) ==> IS_HEX(%(tb)s[g_off])))\n"
        "__CPROVER_ensures(%(v)s ==> ((g_sid_off <= g_off && g_off < g_sid_off + g_sid_len) ==> IS_HEX(%(sb)s[g_off])))\n"
        "__CPROVER_ensures(%(v)s ==> (%(sc)s.is_remote_ && %(sc)s.trace_state_.id == XC_TS_DEFAULT_ID))\n"
        % dict(v=valid, tb=tbase, sb=sbase, sc=sc))


B3_SINGLE = "(%s.length_ != 0)" % H(0)
B3_TB = "(%s ? %s.data_ : %s.data_)" % (B3_SINGLE, H(0), H(1))
B3_SB = "(%s ? %s.data_ : %s.data_)" % (B3_SINGLE, H(0), H(2))
B3_FB = "(%s ? %s.data_ : %s.data_)" % (B3_SINGLE, H(0), H(3))
V = "SC_VALID(%s)" % RET


def b3_extract_post(valid, sc):
    return (
        # field layout
        ("__CPROVER_ensures((%(v)s && %(S)s) ==> (g_tid_off == 0 && g_tid_len < %(h0)s.length_ && %(h0)s.data_[g_tid_len] == '-' && g_sid_off == g_tid_len + 1 && "
         "g_sid_off <= %(h0)s.length_ && g_sid_len <= %(h0)s.length_ - g_sid_off))\n"
         "__CPROVER_ensures((%(v)s && %(S)s) ==> (g_sid_off + g_sid_len == %(h0)s.length_ ? g_fl_len == 0 : "
         "(%(h0)s.data_[g_sid_off + g_sid_len] == '-' && g_fl_off == g_sid_off + g_sid_len + 1 && g_fl_off <= %(h0)s.length_ && g_fl_len <= %(h0)s.length_ - g_fl_off && "
         "(g_fl_off + g_fl_len == %(h0)s.length_ || %(h0)s.data_[g_fl_off + g_fl_len] == '-'))))\n"
         "__CPROVER_ensures((%(v)s && !%(S)s) ==> (g_tid_off == 0 && g_tid_len == %(h1)s.length_ && g_sid_off == 0 && g_sid_len == %(h2)s.length_ && g_fl_off == 0 && g_fl_len == %(h3)s.length_))\n"
         # sampled decision: exactly "1" or "d"
         "__CPROVER_ensures(%(v)s ==> %(sc)s.trace_flags_.rep_ == ((g_fl_len == 1 && (%(fb)s[g_fl_off] == '1' || %(fb)s[g_fl_off] == 'd')) ? 1 : 0))\n"
         % dict(v=valid, S=B3_SINGLE, h0=H(0), h1=H(1), h2=H(2), h3=H(3), sc=sc, fb=B3_FB)) +
        decode_claims(valid, B3_TB, B3_SB, sc))


JG_B = "%s.data_" % H(4)


def jaeger_extract_post(valid, sc):
    return (
        ("__CPROVER_ensures(%(v)s ==> (g_tid_off == 0 && g_tid_len < %(h0)s.length_ && %(b)s[g_tid_len] == ':' && g_sid_off == g_tid_len + 1 && "
         "g_sid_off <= %(h0)s.length_ && g_sid_len < %(h0)s.length_ - g_sid_off && %(b)s[g_sid_off + g_sid_len] == ':' && "
         "g_fl_off <= %(h0)s.length_ && g_fl_len <= %(h0)s.length_ - g_fl_off && g_fl_off >= g_sid_off + g_sid_len + 2 && %(b)s[g_fl_off - 1] == ':' && "
         "(g_fl_off + g_fl_len == %(h0)s.length_ || %(b)s[g_fl_off + g_fl_len] == ':') && g_fl_len <= 2))\n"
         "__CPROVER_ensures((%(v)s && g_j == 0) ==> (HB_EXPECT_AT(VIEW_AT(%(b)s, g_fl_off, g_fl_len), 1, g_flags_buf, 0) && %(sc)s.trace_flags_.rep_ == (g_flags_buf[0] & 1)))\n"
         % dict(v=valid, h0=H(4), b=JG_B, sc=sc)) +
        decode_claims(valid, JG_B, JG_B, sc))


def extract_wrapper(impl_post):
    return {
        "ghost": {("after_decl", "span_context"): "g_extracted = span_context;"},
        "pre": "__CPROVER_requires(__CPROVER_is_fresh(context, sizeof(xc_ctx)) && g_setspan_calls == 0 && g_new_span_calls == 0)\n"
        "__CPROVER_assigns(" + EXTRACT_ASSIGNS + ", __CPROVER_object_whole(g_flags_buf), g_extracted, g_new_span_context, g_new_span_calls, g_setspan_calls, g_setspan_ctx_id, g_setspan_span_id)\n"
        "__CPROVER_ensures(!SC_VALID(g_extracted) ==> (g_setspan_calls == 0 && __CPROVER_return_value.id == context->id))\n"
        "__CPROVER_ensures(SC_VALID(g_extracted) ==> (g_setspan_calls == 1 && __CPROVER_return_value.id == g_setspan_result_id && g_setspan_ctx_id == context->id && "
        "g_setspan_span_id == g_new_span_id && g_new_span_calls == 1))\n"
        "__CPROVER_ensures(SC_VALID(g_extracted) ==> ((g_j < 16 ==> g_new_span_context.trace_id_.rep_[g_j] == g_extracted.trace_id_.rep_[g_j]) && "
        "(g_j < 8 ==> g_new_span_context.span_id_.rep_[g_j] == g_extracted.span_id_.rep_[g_j]) && g_new_span_context.trace_flags_.rep_ == g_extracted.trace_flags_.rep_ && "
        "g_new_span_context.is_remote_ == g_extracted.is_remote_))\n"
        "__CPROVER_ensures(context->id == __CPROVER_old(context->id))\n" + impl_post}


def inject_frame():
    return ("__CPROVER_requires(g_set_calls == 0)\n"
            "__CPROVER_assigns(g_set_calls, __CPROVER_object_whole(g_set_key), __CPROVER_object_whole(g_set_key_len), __CPROVER_object_whole(g_set_len), __CPROVER_object_whole(g_set_val))\n"
            "__CPROVER_ensures(!SC_VALID(g_in_span_context) ==> g_set_calls == 0)\n")


IN = "g_in_span_context"
IV = "SC_VALID(g_in_span_context)"
SAMPLED = "((%s.trace_flags_.rep_ & 1) ? '1' : '0')" % IN


def digits(idx, off, n, rep):
    return "__CPROVER_ensures(%s ==> (g_k < %d ==> g_set_val[%d][%d + g_k] == LOWER_HEX_DIGIT(NIB_AT(%s.%s.rep_, g_k))))\n" % (IV, n, idx, off, IN, rep)


contracts = dict(c09.contracts)
contracts.update({
    "span_char_32_ctor_1": {}, "span_char_16_ctor_1": {},
    "B3Propagator_Inject": {"pre": inject_frame() +
        "__CPROVER_ensures(%s ==> (g_set_calls == 1 && g_set_len[0] == 51 && %s))\n" % (IV, common.key_lit_eq("g_set_key", "0", "b3")) +
        digits(0, 0, 32, "trace_id_") + digits(0, 33, 16, "span_id_") +
        "__CPROVER_ensures(%s ==> (g_set_val[0][32] == '-' && g_set_val[0][49] == '-' && g_set_val[0][50] == %s))\n" % (IV, SAMPLED)},
    "B3PropagatorMultiHeader_Inject": {"pre": inject_frame() +
        "__CPROVER_ensures(%s ==> (g_set_calls == 3 && g_set_len[0] == 32 && g_set_len[1] == 16 && g_set_len[2] == 1 && %s && %s && %s))\n" % (
            IV, common.key_lit_eq("g_set_key", "0", "X-B3-TraceId"), common.key_lit_eq("g_set_key", "1", "X-B3-SpanId"),
            common.key_lit_eq("g_set_key", "2", "X-B3-Sampled")) +
        digits(0, 0, 32, "trace_id_") + digits(1, 0, 16, "span_id_") +
        "__CPROVER_ensures(%s ==> g_set_val[2][0] == %s)\n" % (IV, SAMPLED)},
    "JaegerPropagator_Inject": {"pre": inject_frame() +
        "__CPROVER_ensures(%s ==> (g_set_calls == 1 && g_set_len[0] == 54 && %s))\n" % (IV, common.key_lit_eq("g_set_key", "0", "uber-trace-id")) +
        digits(0, 0, 32, "trace_id_") + digits(0, 33, 16, "span_id_") +
        "__CPROVER_ensures(%s ==> (g_set_val[0][32] == ':' && g_set_val[0][49] == ':' && g_set_val[0][50] == '0' && g_set_val[0][51] == ':' && "
        "g_set_val[0][52] == '0' && g_set_val[0][53] == %s))\n" % (IV, SAMPLED)},
    "B3PropagatorExtractor_ExtractImpl": {
        "ghost": {("after_decl", "trace_id"): GHOST_FIELDS + "g_fl_off = POFF(trace_flags_hex.data_); g_fl_len = trace_flags_hex.length_;"},
        "pre": get_req(4) + "__CPROVER_assigns(" + EXTRACT_ASSIGNS + ")\n" + b3_extract_post(V, RET) +
        "__CPROVER_ensures(!%s ==> SC_IS_INVALID(%s))\n" % (V, RET)},
    "B3PropagatorExtractor_Extract": extract_wrapper(b3_extract_post("SC_VALID(g_extracted)", "g_extracted")),
    "JaegerPropagator_ExtractImpl": {
        "ghost": {("before_return", "last"): GHOST_FIELDS + "g_fl_off = POFF(flags_hex.data_); g_fl_len = flags_hex.length_; g_flags_buf[0] = flags;"},
        "pre": get_req(1) + "__CPROVER_assigns(" + EXTRACT_ASSIGNS + ", __CPROVER_object_whole(g_flags_buf))\n" + jaeger_extract_post(V, RET) +
        "__CPROVER_ensures(!%s ==> (%s.trace_state_.id == XC_TS_DEFAULT_ID))\n" % (V, RET)},
    "JaegerPropagator_Extract": extract_wrapper(jaeger_extract_post("SC_VALID(g_extracted)", "g_extracted")),
    "JaegerPropagator_GetTraceFlags": {"pre": "__CPROVER_assigns()\n__CPROVER_ensures(__CPROVER_return_value.rep_ == (jaeger_flags & 1))\n"},
    "B3PropagatorExtractor_TraceFlagsFromHex": {"pre": "__CPROVER_requires(trace_flags.length_ <= XC_MAXLEN)\n"
        "__CPROVER_requires(trace_flags.length_ == 0 || __CPROVER_is_fresh(trace_flags.data_, trace_flags.length_))\n__CPROVER_assigns()\n"
        "__CPROVER_ensures(__CPROVER_return_value.rep_ == ((trace_flags.length_ == 1 && (trace_flags.data_[0] == '1' || trace_flags.data_[0] == 'd')) ? 1 : 0))\n"},
})
for k in ("span_char_32_ctor_1", "span_char_16_ctor_1"):
    del contracts[k]

# the B3 extract wrappers need the ghost frame of ExtractImpl's requires as well
contracts["B3PropagatorExtractor_Extract"]["pre"] = get_req(4) + contracts["B3PropagatorExtractor_Extract"]["pre"]
contracts["JaegerPropagator_Extract"]["pre"] = get_req(1) + contracts["JaegerPropagator_Extract"]["pre"]

LOWER = ["TraceId_ToLowerBase16", "SpanId_ToLowerBase16"]
# leaf contracts proved under C09 and consumed here (re-proved here would be duplication; they are listed as assumed
# *for this property*, with the proof that discharges them named)
assumed_contracts = {n: "discharged by ./check C09 (same contract text, same extracted function)" for n in
                     ("TraceId_ToLowerBase16", "SpanId_ToLowerBase16", "TraceFlags_ToLowerBase16", "SplitString", "IsValidHex", "HexToBinary",
                      common.SV_EQ)}

proofs = [
    Proof("B3_TraceFlagsFromHex", [("B3PropagatorExtractor::TraceFlagsFromHex", 1)], enforce="B3PropagatorExtractor_TraceFlagsFromHex"),
    Proof("Jaeger_GetTraceFlags", [("JaegerPropagator::GetTraceFlags", 1)], enforce="JaegerPropagator_GetTraceFlags"),
    Proof("B3_Inject", [("B3Propagator::Inject", 2)], enforce="B3Propagator_Inject", replace=LOWER),
    Proof("B3Multi_Inject", [("B3PropagatorMultiHeader::Inject", 2)], enforce="B3PropagatorMultiHeader_Inject",
          replace=LOWER + ["TraceFlags_ToLowerBase16"]),   # (the flags formatter was used here before the F3 fix)
    Proof("Jaeger_Inject", [("JaegerPropagator::Inject", 2)], enforce="JaegerPropagator_Inject", replace=LOWER),
    Proof("B3_ExtractImpl", [("B3PropagatorExtractor::ExtractImpl", 1)], enforce="B3PropagatorExtractor_ExtractImpl",
          replace=["SplitString", "IsValidHex", "HexToBinary", "B3PropagatorExtractor_TraceFlagsFromHex"]),
    Proof("B3_Extract", [("B3PropagatorExtractor::Extract", 2)], enforce="B3PropagatorExtractor_Extract",
          replace=["B3PropagatorExtractor_ExtractImpl"]),
    Proof("Jaeger_ExtractImpl", [("JaegerPropagator::ExtractImpl", 1)], enforce="JaegerPropagator_ExtractImpl",
          replace=["SplitString", "IsValidHex", "HexToBinary", "JaegerPropagator_GetTraceFlags"]),
    Proof("Jaeger_Extract", [("JaegerPropagator::Extract", 2)], enforce="JaegerPropagator_Extract", replace=["JaegerPropagator_ExtractImpl"]),
]

# ---------------------------------------------------------------------------------------------
# round trips: the headers the Inject functions are *proved* to write (their postconditions instantiated at every
# position) are fed to the real extraction code; all loops then have constant bounds -> full unwinding is complete.
RT_COMMON = r"""
static void xc_assume_digits(const char *o, const uint8_t *rep, unsigned n)
{
  for (unsigned k = 0; k < n; k++) __CPROVER_assume(o[k] == LOWER_HEX_DIGIT(NIB_AT(rep, k)));
}
#define RT_CHECK(out, in) \
  __CPROVER_assert(SC_VALID(out) && (out).is_remote_, "ROUNDTRIP: extracted context is valid and remote"); \
  __CPROVER_assert(g_j < 16 ==> (out).trace_id_.rep_[g_j] == (in).trace_id_.rep_[g_j], "ROUNDTRIP: same trace id"); \
  __CPROVER_assert(g_j < 8 ==> (out).span_id_.rep_[g_j] == (in).span_id_.rep_[g_j], "ROUNDTRIP: same span id"); \
  __CPROVER_assert(((out).trace_flags_.rep_ & 1) == ((in).trace_flags_.rep_ & 1), "ROUNDTRIP: same sampled decision whatever the other flag bits"); \
  __CPROVER_assert(0, "XC_CANARY end of harness reachable");
"""
H_RT_B3 = RT_COMMON + r"""
void h_RoundTrip_B3(void)
{
  xc_havoc_ghosts();
  SpanContext in; __CPROVER_assume(SC_VALID(in));
  char O[51];
  xc_assume_digits(O, in.trace_id_.rep_, 32); xc_assume_digits(O + 33, in.span_id_.rep_, 16);
  __CPROVER_assume(O[32] == '-' && O[49] == '-' && O[50] == ((in.trace_flags_.rep_ & 1) ? '1' : '0'));
  g_get_ret[0].data_ = O; g_get_ret[0].length_ = 51;
  xc_carrier carrier;
  SpanContext out = B3PropagatorExtractor_ExtractImpl(&carrier);
  RT_CHECK(out, in)
}
"""
H_RT_B3M = RT_COMMON + r"""
void h_RoundTrip_B3Multi(void)
{
  xc_havoc_ghosts();
  SpanContext in; __CPROVER_assume(SC_VALID(in));
  char T[32], S[16], F[1];
  xc_assume_digits(T, in.trace_id_.rep_, 32); xc_assume_digits(S, in.span_id_.rep_, 16);
  __CPROVER_assume(F[0] == ((in.trace_flags_.rep_ & 1) ? '1' : '0'));
  g_get_ret[0].data_ = ""; g_get_ret[0].length_ = 0;
  g_get_ret[1].data_ = T; g_get_ret[1].length_ = 32;
  g_get_ret[2].data_ = S; g_get_ret[2].length_ = 16;
  g_get_ret[3].data_ = F; g_get_ret[3].length_ = 1;
  xc_carrier carrier;
  SpanContext out = B3PropagatorExtractor_ExtractImpl(&carrier);
  RT_CHECK(out, in)
}
"""
H_RT_JG = RT_COMMON + r"""
void h_RoundTrip_Jaeger(void)
{
  xc_havoc_ghosts();
  SpanContext in; __CPROVER_assume(SC_VALID(in));
  char O[54];
  xc_assume_digits(O, in.trace_id_.rep_, 32); xc_assume_digits(O + 33, in.span_id_.rep_, 16);
  __CPROVER_assume(O[32] == ':' && O[49] == ':' && O[50] == '0' && O[51] == ':' && O[52] == '0' && O[53] == ((in.trace_flags_.rep_ & 1) ? '1' : '0'));
  g_get_ret[4].data_ = O; g_get_ret[4].length_ = 54;
  xc_carrier carrier;
  SpanContext out = JaegerPropagator_ExtractImpl(&carrier);
  RT_CHECK(out, in)
}
"""
# documented variants are *accepted*: 64-bit trace ids are left padded, 'd' means sampled, a missing/empty sampling field means
# not sampled (multi-header form; the single-header form differs only by SplitString, covered by the modular contract)
H_VARIANTS = r"""
void h_B3_variants(void)
{
  xc_havoc_ghosts();
  char T[32], S[16], F[2];
  unsigned long tl; __CPROVER_assume(tl == 16 || tl == 32);
  unsigned long fl; __CPROVER_assume(fl <= 2);
  for (unsigned k = 0; k < 32; k++) __CPROVER_assume(IS_HEX(T[k]));
  for (unsigned k = 0; k < 16; k++) __CPROVER_assume(IS_HEX(S[k]));
  uint8_t tid[16], sid[8]; bool tz = true, sz = true;
  for (unsigned i = 0; i < 16; i++) tid[i] = 0;
  for (unsigned i = 0; i < tl / 2; i++) tid[16 - tl / 2 + i] = HEXBYTE(T[2 * i], T[2 * i + 1]);
  for (unsigned i = 0; i < 8; i++) sid[i] = HEXBYTE(S[2 * i], S[2 * i + 1]);
  for (unsigned i = 0; i < 16; i++) tz = tz && tid[i] == 0;
  for (unsigned i = 0; i < 8; i++) sz = sz && sid[i] == 0;
  g_get_ret[0].data_ = ""; g_get_ret[0].length_ = 0;
  g_get_ret[1].data_ = T; g_get_ret[1].length_ = tl;
  g_get_ret[2].data_ = S; g_get_ret[2].length_ = 16;
  g_get_ret[3].data_ = F; g_get_ret[3].length_ = fl;
  xc_carrier carrier;
  SpanContext out = B3PropagatorExtractor_ExtractImpl(&carrier);
  __CPROVER_assert(SC_VALID(out) == (!tz && !sz), "VARIANTS: hex ids of 16/32 + 16 digits are accepted exactly when non-zero");
  if (!tz && !sz)
  {
    __CPROVER_assert(g_j < 16 ==> out.trace_id_.rep_[g_j] == tid[g_j], "VARIANTS: 64-bit trace id is left padded with zeros");
    __CPROVER_assert(g_j < 8 ==> out.span_id_.rep_[g_j] == sid[g_j], "VARIANTS: span id");
    __CPROVER_assert(out.trace_flags_.rep_ == ((fl == 1 && (F[0] == '1' || F[0] == 'd')) ? 1 : 0), "VARIANTS: '1' and 'd' are sampled, missing/other is not");
  }
  __CPROVER_assert(0, "XC_CANARY end of harness reachable");
}
"""

proofs += [
    Proof("RoundTrip_B3", [("B3PropagatorExtractor::ExtractImpl", 1)], harness=H_RT_B3, unwind=56, loop_contracts=False,
          complete_unwind_note="all loops have constant bounds (51-byte header, 32/16 digits)", timeout=1500,
          desc="B3 single header: extract(inject(ctx)) keeps ids and sampled decision for every valid context and flags byte"),
    Proof("RoundTrip_B3Multi", [("B3PropagatorExtractor::ExtractImpl", 1)], harness=H_RT_B3M, unwind=40, loop_contracts=False,
          complete_unwind_note="all loops have constant bounds", timeout=1500, desc="B3 multi header round trip"),
    Proof("RoundTrip_Jaeger", [("JaegerPropagator::ExtractImpl", 1)], harness=H_RT_JG, unwind=58, loop_contracts=False,
          complete_unwind_note="all loops have constant bounds (54-byte header)", timeout=1500, desc="Jaeger round trip"),
    Proof("B3_variants", [("B3PropagatorExtractor::ExtractImpl", 1)], harness=H_VARIANTS, unwind=40, loop_contracts=False,
          complete_unwind_note="header lengths are fixed by the assumption (16|32, 16, <=2)", timeout=1500,
          desc="documented B3 variants are accepted with the documented meaning"),
]

DRIVER = ("c16_native", ["c16_native.cc"])
DRIVER_FLAGS = ["-fsanitize=address,undefined", "-fno-sanitize-recover=all"]


def refute_search(mod, proof, violations, ix, workdir, seed):
    """directed native search on the real code (all 256 flag bytes x 3 propagators round trips; mutated headers)"""
    import os, re as _re, subprocess
    binpath = R.build_native(DRIVER[0], [os.path.join(R.core.HERE, "replay", s) for s in DRIVER[1]], DRIVER_FLAGS)
    full = subprocess.run([binpath, "search"], stdout=subprocess.PIPE, stderr=subprocess.STDOUT, text=True, timeout=600).stdout
    if "none violates the oracle" in full:
        return None
    cands = _re.findall(r"^(?:CAND|FOUND) (.*)$", full, _re.M)
    if not cands:
        return None
    args = cands[-1].split()
    r = R.native_check(DRIVER[0], DRIVER[1], args, DRIVER_FLAGS)
    r["input"] = {"driver_args": args, "found_by": "directed native search (refute mode)"}
    return r if r["reproduced"] else None


refuters = {p.name: refute_search for p in proofs}
trusted = ("boundary shims for TextMapCarrier/Context/Span (engine/units/common.py TRACE_BOUNDARY_C)",)
assumptions = (
    "leaf contracts TraceId/SpanId/TraceFlags::ToLowerBase16, SplitString, IsValidHex, HexToBinary, string_view== are discharged by ./check C09, not re-proved here",
    "string_view arguments point to valid objects (a (nullptr,0) view only where the code itself creates it)",
    "HexToBinary: left shift of a negative int on non-hex input is treated as two's complement (check disabled by pragma in that function); every caller validates with IsValidHex first",
    "carrier / context / span objects are boundary shims: Get returns arbitrary bytes, Set records a snapshot",
    "round trips: Inject's proved postcondition is instantiated at all positions and fed to the real extraction (composition step by instantiation, not by a single run through both functions)",
)
not_covered = ("concrete TextMapCarrier implementations", "CompositePropagator (C15)")
