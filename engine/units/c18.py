"""C18 - environment parsing (sdk/src/common/env_variables.cc): GetTimeoutFromString."""
from ..core import Proof
from .. import refute as R
from . import common

prop_id = "C18"
tu_name = "tu_env"
tu_text = '#include "%s/sdk/src/common/env_variables.cc"\n' % R.core.REPO
spec_headers = ()
# strlen over an arbitrary NUL-terminated string: the plain loop with a loop contract (the object's last byte is NUL)
defines_c = ("#define XC_STRLEN_LOOP __CPROVER_assigns(n) "
             "__CPROVER_loop_invariant(n < __CPROVER_OBJECT_SIZE(s) - (size_t)__CPROVER_POINTER_OFFSET(s) && s[__CPROVER_OBJECT_SIZE(s) - (size_t)__CPROVER_POINTER_OFFSET(s) - 1] == 0) "
             "__CPROVER_loop_invariant(g_k < n ==> s[g_k] != 0) "
             "__CPROVER_loop_invariant((0 < n ==> s[0] != 0) && (1 < n ==> s[1] != 0) && (2 < n ==> s[2] != 0)) "
             "__CPROVER_decreases(__CPROVER_OBJECT_SIZE(s) - (size_t)__CPROVER_POINTER_OFFSET(s) - n)\n"
             "#include <stddef.h>\nextern size_t g_k;\n")
pre_c = r"""
size_t g_k; size_t g_N; long g_result; size_t g_unit_off;
static void xc_havoc_ghosts(void) { size_t a, b; g_k = a; g_N = b; }
#define POFF(p) ((size_t)__CPROVER_POINTER_OFFSET(p))
#define XC_MAXLEN 65536UL
/* the unit suffix starting at u is exactly the given literal */
#define U0(u) ((u)[0] == 0)
#define U1(u, a) ((u)[0] == (a) && (u)[1] == 0)
#define U2(u, a, b) ((u)[0] == (a) && (u)[1] == (b) && (u)[2] == 0)
/* nanoseconds per unit; 0 = not a unit ("" means seconds, as the code documents) */
#define FACTOR(u) (U2(u, 'n', 's') ? 1L : U2(u, 'u', 's') ? 1000L : U2(u, 'm', 's') ? 1000000L : U1(u, 's') ? 1000000000L : \
                   U1(u, 'm') ? 60000000000L : U1(u, 'h') ? 3600000000000L : U0(u) ? 1000000000L : 0L)
"""
post_struct_c = ""


def configure(cfg):
    common.chrono_boundary(cfg)
    cfg.value_classes |= {"string_view"}


U = "(input + g_unit_off)"
# one clause per unit, each with a constant factor (a product with a symbolic factor is hopeless for the SAT back ends)
UNITS = [("U2(%s, 'n', 's')" % U, "1L"), ("U2(%s, 'u', 's')" % U, "1000L"), ("U2(%s, 'm', 's')" % U, "1000000L"), ("U1(%s, 's')" % U, "1000000000L"),
         ("U1(%s, 'm')" % U, "60000000000L"), ("U1(%s, 'h')" % U, "3600000000000L"), ("U0(%s)" % U, "1000000000L")]
contracts = dict(common.SV_CONTRACTS)
# string_view == "literal" for literals of at most two characters (the unit suffixes): exact
RL = "(rhs[0] == 0 ? 0UL : rhs[1] == 0 ? 1UL : 2UL)"
contracts[common.SV_EQ_CSTR] = {"pre":
    "__CPROVER_requires(lhs.length_ <= XC_MAXLEN && __CPROVER_is_fresh(lhs.data_, lhs.length_))\n"
    "__CPROVER_requires(__CPROVER_OBJECT_SIZE(rhs) - POFF(rhs) <= 3 && __CPROVER_OBJECT_SIZE(rhs) > POFF(rhs) && rhs[__CPROVER_OBJECT_SIZE(rhs) - POFF(rhs) - 1] == 0)\n"
    "__CPROVER_assigns()\n"
    "__CPROVER_ensures(__CPROVER_return_value == (lhs.length_ == %(rl)s && (%(rl)s < 1 || lhs.data_[0] == rhs[0]) && (%(rl)s < 2 || lhs.data_[1] == rhs[1])))\n" % {"rl": RL}}
contracts.update({
    "GetTimeoutFromString": {
        "ghost": {("after_decl", "unit"): "g_result = result; g_unit_off = POFF(input);"},
        "pre":
        "__CPROVER_requires(g_N < XC_MAXLEN && __CPROVER_is_fresh(input, g_N + 1) && input[g_N] == 0)\n"
        "__CPROVER_requires(__CPROVER_is_fresh(value, sizeof(*value)) && g_result == 0)\n"
        "__CPROVER_assigns(*value, g_result, g_unit_off)\n"
        # accepted exactly when the digits give a non-zero number and what follows them is one of the documented units; then the
        # value is exactly digits x unit (no overflow anywhere: the signed-overflow obligations of the extracted body)
        "__CPROVER_ensures(__CPROVER_return_value ==> (g_result > 0 && g_unit_off <= g_N && FACTOR(input + g_unit_off) != 0))\n" +
        "".join("__CPROVER_ensures((__CPROVER_return_value && %s) ==> *value == g_result * %s)\n" % (u, f) for u, f in UNITS) +
        "__CPROVER_ensures(!__CPROVER_return_value ==> *value == __CPROVER_old(*value))\n"
        # rejected only for: no/zero/too large number (ghost never set), unknown unit, or a product that does not fit
        "__CPROVER_ensures(!__CPROVER_return_value ==> (g_result == 0 || FACTOR(input + g_unit_off) == 0" +
        "".join(" || (%s && g_result > INT64_MAX / %s)" % (u, f) for u, f in UNITS) + "))\n" +
        "".join("__CPROVER_ensures((__CPROVER_return_value && %s) ==> g_result <= INT64_MAX / %s)\n" % (u, f) for u, f in UNITS),
        "loops": {
            1: "__CPROVER_assigns(input)\n"
               "__CPROVER_loop_invariant(__CPROVER_same_object(input, __CPROVER_loop_entry(input)) && POFF(input) <= g_N)\n"
               "__CPROVER_decreases(g_N - POFF(input))\n",
            2: "__CPROVER_assigns(input, result)\n"
               "__CPROVER_loop_invariant(__CPROVER_same_object(input, __CPROVER_loop_entry(input)) && POFF(input) <= g_N && result >= 0)\n"
               "__CPROVER_decreases(g_N - POFF(input))\n"}},
})

H_EQ_CSTR = r"""
void h_sv_eq_cstr(void)
{
  xc_havoc_ghosts();
  unsigned long n; __CPROVER_assume(n >= 1 && n <= 3);
  char *lit = malloc(n); __CPROVER_assume(lit != NULL); lit[n - 1] = 0;      /* a literal of at most two characters */
  string_view lhs;
  op_eq_2_nostd_string_view_cchar(lhs, lit);
  __CPROVER_assert(0, "XC_CANARY end of harness reachable");
}
"""

# exact decimal value: bounded stand-in (strings of at most 7 bytes, full unwinding; the oracle is computed by the harness)
H_DECIMAL = r"""
void h_Timeout_decimal_bounded(void)
{
  xc_havoc_ghosts();
  char s[8]; s[7] = 0;
  long v = 123; long before = v;
  bool ok = GetTimeoutFromString(s, &v);
  /* oracle: blank* digit+ unit */
  unsigned i = 0; long d = 0; unsigned nd = 0;
  while (s[i] == ' ' || (s[i] >= 9 && s[i] <= 13)) i++;
  while (s[i] >= '0' && s[i] <= '9') { d = d * 10 + (s[i] - '0'); i++; nd++; }     /* at most 7 digits: no overflow */
  long f = FACTOR(s + i);
  bool expect = nd > 0 && d != 0 && f != 0 && d <= INT64_MAX / (f == 0 ? 1 : f);
  __CPROVER_assert(ok == expect, "DECIMAL: accepted exactly for blank* digit+ unit with a non-zero number");
  __CPROVER_assert((ok && f == 1L) ==> v == d, "DECIMAL: ns");
  __CPROVER_assert((ok && f == 1000L) ==> v == d * 1000L, "DECIMAL: us");
  __CPROVER_assert((ok && f == 1000000L) ==> v == d * 1000000L, "DECIMAL: ms");
  __CPROVER_assert((ok && f == 1000000000L) ==> v == d * 1000000000L, "DECIMAL: s / no unit");
  __CPROVER_assert((ok && f == 60000000000L) ==> v == d * 60000000000L, "DECIMAL: m");
  __CPROVER_assert((ok && f == 3600000000000L) ==> v == d * 3600000000000L, "DECIMAL: h");
  __CPROVER_assert(!ok ==> v == before, "DECIMAL: a rejected string leaves the value untouched");
  __CPROVER_assert(0, "XC_CANARY end of harness reachable");
}
"""

proofs = [
    Proof("sv_eq", [("nostd::operator==", 2, "bool (nostd::string_view, nostd::string_view)")], enforce=common.SV_EQ),
    Proof("sv_eq_cstr", [("nostd::operator==", 2, "bool (nostd::string_view, const char *)")], enforce=common.SV_EQ_CSTR, replace=[common.SV_EQ],
          harness=H_EQ_CSTR),
    Proof("GetTimeoutFromString", [("GetTimeoutFromString", 2)], enforce="GetTimeoutFromString", replace=[common.SV_EQ_CSTR], solver="portfolio_smt", timeout=2400),   # cadical needs > 24 GB here and gives up
    Proof("Timeout_decimal_bounded4", [("GetTimeoutFromString", 2)],
          harness=H_DECIMAL.replace("h_Timeout_decimal_bounded", "h_Timeout_decimal_bounded4").replace("char s[8]; s[7] = 0;", "char s[5]; s[4] = 0;"),
          loop_contracts=False, unwind=6, level="bounded", solver="portfolio3", timeout=1500,
          bound_note="strings of at most 4 bytes (plus terminator), all bytes symbolic, full unwinding",
          contracts={"xc_strlen_dummy": {}}, desc="bounded stand-in: exact decimal value and exact acceptance for short strings"),
    Proof("Timeout_decimal_bounded", [("GetTimeoutFromString", 2)], harness=H_DECIMAL, loop_contracts=False, unwind=9, level="bounded", solver="portfolio3", timeout=3000, tier="thorough",
          bound_note="strings of at most 7 bytes (plus terminator), all bytes symbolic, full unwinding",
          contracts={"xc_strlen_dummy": {}}, desc="bounded stand-in: exact decimal value and exact acceptance for short strings"),
]
trusted = ("std::chrono::duration as a tick count; duration_cast as the integer multiplication libstdc++ performs",)
assumptions = (
    "isspace/isdigit in the \"C\" locale (glibc table semantics for negative char values)",
    "the environment value is a NUL-terminated string of at most 65535 bytes",
    "the relation between the digit characters and the accumulated number is checked only by the bounded stand-in (strings up to 7 bytes); "
    "the unbounded contract proves absence of overflow/UB, the exact acceptance condition and value = number x unit",
)
not_covered = ("GetBool/GetUint/GetFloat/GetString (std::string, strtoull/strtof, errno, log streams): not extracted",
               "Resource::Merge/Create, OTELResourceDetector (std::unordered_map, std::istringstream)")


DRIVER = ("c18_native", ["c18_native.cc"], ["sdk/src/common/env_variables.cc", "sdk/src/common/global_log_handler.cc"])
DRIVER_FLAGS = ["-fsanitize=address,undefined", "-fno-sanitize-recover=all"]


def refute_search(mod, proof, violations, ix, workdir, seed):
    """directed native search on the real parser, UBSan/ASan build (signed overflow aborts)"""
    import os, re as _re, subprocess
    binpath = R.build_native(DRIVER[0], [os.path.join(R.core.HERE, "replay", s) for s in DRIVER[1]] +
                             [os.path.join(R.core.REPO, s) for s in DRIVER[2]], DRIVER_FLAGS)
    full = subprocess.run([binpath, "search"], stdout=subprocess.PIPE, stderr=subprocess.STDOUT, text=True, timeout=300).stdout
    if "none violates the oracle" in full:
        return None
    cands = _re.findall(r"^(?:CAND|FOUND) ([0-9a-f]*)$", full, _re.M)
    if not cands:
        return None
    r = R.native_check(DRIVER[0], DRIVER[1], ["duration", cands[-1]], DRIVER_FLAGS, repo_sources=DRIVER[2])
    r["input"] = {"env_value": bytes.fromhex(cands[-1]).decode("latin-1"), "found_by": "directed native search (refute mode)"}
    return r if r["reproduced"] else None


refuters = {p.name: refute_search for p in proofs}


# ---------------------------------------------------------------------------------------------
# Resource::Merge (sdk/src/resource/resource.cc): "a.Merge(b) contains the union of both with b's value winning on every shared key and b's
# schema URL unless it is empty, and leaves a and b unchanged". The attribute maps are seen through the slot of one arbitrary key K
# (std::unordered_map copy construction and range insert per the C++ standard: insert does not overwrite).
TU_RES = ("tu_resource", '#include "%s/sdk/src/resource/resource.cc"\n' % R.core.REPO)
RES_PRE = r"""
typedef struct xc_slotmap { int present; unsigned long val; unsigned long others; } xc_slotmap;      /* an attribute map seen at the arbitrary key K: bound or not, to which value; plus the number of other keys */
typedef struct xc_url { unsigned long id; unsigned long len; } xc_url;           /* a schema URL: its identity and its length */
static void xc_havoc_ghosts(void) { }
/* range insert [begin, end) of src into dst: a key that dst already holds keeps its value (insert never overwrites) */
static void xc_map_insert_all(xc_slotmap *dst, const xc_slotmap *src) { if (!dst->present && src->present) { dst->present = 1; dst->val = src->val; }
  unsigned long n; __CPROVER_assume(n >= dst->others && n >= src->others && n <= dst->others + src->others); dst->others = n; }      /* the other keys: their union */
#define WF_SM(m) (((m).present == 0 || (m).present == 1) && (m).others <= 100000)
"""


def _res_types(em, base, targs, name):
    if base in ("std::unordered_map",) or name.split("::")[-1] in ("ResourceAttributes", "AttributeMap"):
        return common.CT("xc_slotmap")
    return None


def _configure_res(cfg):
    cfg.type_handlers.insert(0, _res_types)
    cfg.type_map["sdk::common::AttributeMap"] = "xc_slotmap"
    cfg.type_map["sdk::resource::ResourceAttributes"] = "xc_slotmap"
    cfg.opaque_records["sdk::common::AttributeMap"] = "xc_slotmap"
    for n in ("std::string", "std::basic_string<char>", "std::basic_string", "std::__cxx11::basic_string"):
        cfg.type_map[n] = "xc_url"
    for n in ("std::basic_string", "std::__cxx11::basic_string"):
        cfg.ctor_ext[n] = lambda em, node, args: em.expr([a for a in args if a.get("kind") != "CXXDefaultArgExpr"][0])
        cfg.ext_methods[n + "::empty"] = lambda em, recv, args, n: "(%s.len == 0)" % recv
    for k in ("AttributeMap", "sdk::common::AttributeMap", "std::unordered_map"):
        cfg.ctor_ext[k] = lambda em, node, args: em.expr([a for a in args if a.get("kind") != "CXXDefaultArgExpr"][0])

    def _insert(em, recv, args, n):
        # merged.insert(x.begin(), x.end()): the source container is the receiver of begin()
        a0 = em._strip_all(args[0])
        while a0.get("kind") not in ("CXXMemberCallExpr",) and a0.get("inner"):
            a0 = em._strip_all(a0["inner"][0])
        if a0.get("kind") != "CXXMemberCallExpr":
            raise common.ExtractionError("insert(first, last): first is not container.begin()")
        src = a0["inner"][0]["inner"][0]
        return "xc_map_insert_all(&(%s), &(%s))" % (recv, em.expr(src))
    cfg.ext_methods["std::unordered_map::insert"] = _insert
    cfg.ext_methods["std::unordered_map::reserve"] = lambda em, recv, args, n: "(void)0"
    cfg.ext_methods["std::unordered_map::size"] = lambda em, recv, args, n: "((%s).others + (unsigned long)(%s).present)" % (recv, recv)
    cfg.ext_methods["std::unordered_map::empty"] = lambda em, recv, args, n: "((%s).others + (unsigned long)(%s).present == 0)" % (recv, recv)


contracts_res = {
    "Resource_Merge": {"pre":
        "__CPROVER_requires(__CPROVER_is_fresh(self, sizeof(*self)) && __CPROVER_is_fresh(other, sizeof(*other)) && WF_SM(self->attributes_) && WF_SM(other->attributes_))\n"
        "__CPROVER_assigns()\n"      # a and b are left unchanged
        "__CPROVER_ensures(__CPROVER_return_value.attributes_.present == (self->attributes_.present || other->attributes_.present))\n"
        "__CPROVER_ensures(other->attributes_.present ==> __CPROVER_return_value.attributes_.val == other->attributes_.val)\n"
        "__CPROVER_ensures((!other->attributes_.present && self->attributes_.present) ==> __CPROVER_return_value.attributes_.val == self->attributes_.val)\n"
        "__CPROVER_ensures(__CPROVER_return_value.schema_url_.id == (other->schema_url_.len == 0 ? self->schema_url_.id : other->schema_url_.id))\n"},
}
_pr = Proof("Resource_Merge", [("Resource::Merge", 1)], enforce="Resource_Merge", timeout=300,
            desc="a.Merge(b): union, b's value wins on a shared key, b's schema URL unless empty, a and b unchanged (for an arbitrary key)")
_pr.tu = TU_RES
_pr.pre_c = RES_PRE
_pr.post_struct_c = ""
_pr.spec_headers = ()
_pr.force_records = ()
_pr.configure = _configure_res
_pr.own_config = True
_pr.contracts = contracts_res
proofs.append(_pr)


# ---------------------------------------------------------------------------------------------
# GetUintEnvironmentVariable / GetBoolEnvironmentVariable: the raw value comes from GetRawEnvironmentVariable (boundary: exists or not, an
# arbitrary NUL-terminated string of at most 31 bytes); std::strtoull and strcasecmp are ASSUMED contracts from the C standard.
ENV_PRE = r"""
size_t g_k;
int g_exists; unsigned long g_len; char g_raw[32];       /* the environment: is the variable set, and to which string */
/* what strtoull found (ghost outputs of the assumed contract) */
unsigned long g_st_calls, g_st_ws, g_st_nd; int g_st_neg, g_st_plus, g_st_range; unsigned long g_st_value;
int xc_errno;
int g_cmp_true, g_cmp_false;                              /* strcasecmp(raw, "true") == 0 / strcasecmp(raw, "false") == 0 */
static void xc_havoc_ghosts(void) { size_t a; g_k = a; g_st_calls = 0; }
#define ISWS(c) ((c) == ' ' || ((c) >= 9 && (c) <= 13))
#define ISDIG(c) ((c) >= '0' && (c) <= '9')
#define LOWER(c) (((c) >= 'A' && (c) <= 'Z') ? (c) + 32 : (c))
"""
ENV_POST = r"""
/* GetRawEnvironmentVariable(name, value): boundary */
static bool xc_GetRaw(xc_str *value) { if (g_exists) { value->data = g_raw; value->len = g_len; } return g_exists != 0; }
/* std::strtoull(s, &end, 10), C standard 7.22.1.4: optional white space, optional sign, digits; the value of the digits, NEGATED (in the
   unsigned type) when the sign is '-'; ULLONG_MAX and errno = ERANGE when the digits do not fit; no digits: 0 and end = s.
   Assumed contract: the ghost outputs say which shape was found; the numeric value of the digit string itself is left abstract (g_st_value),
   which is all the obligations below need. */
unsigned long xc_strtoull(const char *s, char **end)
__CPROVER_requires(s == g_raw && g_len < 32 && g_raw[g_len] == 0 && __CPROVER_w_ok(end, sizeof(*end)))
__CPROVER_assigns(*end, xc_errno, g_st_calls, g_st_ws, g_st_nd, g_st_neg, g_st_plus, g_st_range, g_st_value)
__CPROVER_ensures(g_st_calls == __CPROVER_old(g_st_calls) + 1)
__CPROVER_ensures(g_st_ws <= g_len && g_st_nd <= g_len && g_st_ws + (unsigned long)(g_st_neg || g_st_plus) + g_st_nd <= g_len && !(g_st_neg && g_st_plus))
__CPROVER_ensures(g_k < g_st_ws ==> ISWS(g_raw[g_k]))
__CPROVER_ensures(g_st_neg == (g_st_nd > 0 && g_raw[g_st_ws] == '-') && g_st_plus == (g_st_nd > 0 && g_raw[g_st_ws] == '+'))
__CPROVER_ensures((g_st_ws + (unsigned long)(g_st_neg || g_st_plus) <= g_k && g_k < g_st_ws + (unsigned long)(g_st_neg || g_st_plus) + g_st_nd) ==> ISDIG(g_raw[g_k]))
__CPROVER_ensures(g_st_nd == 0 ? (*end == (char *)s && __CPROVER_return_value == 0) : __CPROVER_pointer_equals(*end, (char *)s + g_st_ws + (unsigned long)(g_st_neg || g_st_plus) + g_st_nd))
__CPROVER_ensures(g_st_range ? (xc_errno == 34 && __CPROVER_return_value == 0xffffffffffffffffUL) : (xc_errno == __CPROVER_old(xc_errno)))
__CPROVER_ensures((g_st_nd > 0 && !g_st_range) ==> __CPROVER_return_value == (g_st_neg ? 0UL - g_st_value : g_st_value));
/* std::string::find(char): assumed contract (C++ standard); "not found" is stated for the arbitrary position g_k and for the position where
   strtoull saw the sign (an instance of the same universally quantified fact) */
unsigned long xc_str_find_char(xc_str s, char c)
__CPROVER_requires(s.data == g_raw && s.len == g_len && g_len < 32)
__CPROVER_assigns()
__CPROVER_ensures(__CPROVER_return_value == (unsigned long)-1 || (__CPROVER_return_value < s.len && s.data[__CPROVER_return_value] == c))
__CPROVER_ensures(__CPROVER_return_value == (unsigned long)-1 ==> ((g_k < s.len ==> s.data[g_k] != c) && (g_st_ws < s.len ==> s.data[g_st_ws] != c)));
/* strcasecmp against the literals "true" / "false": assumed contract (POSIX), stated through the ghost flags */
int xc_strcasecmp_lit(const char *s, int which)
__CPROVER_requires(s == g_raw && g_len < 32 && g_raw[g_len] == 0)
__CPROVER_assigns()
__CPROVER_ensures((__CPROVER_return_value == 0) == (which == 1 ?
   (g_len == 4 && LOWER(g_raw[0]) == 't' && LOWER(g_raw[1]) == 'r' && LOWER(g_raw[2]) == 'u' && LOWER(g_raw[3]) == 'e') :
   (g_len == 5 && LOWER(g_raw[0]) == 'f' && LOWER(g_raw[1]) == 'a' && LOWER(g_raw[2]) == 'l' && LOWER(g_raw[3]) == 's' && LOWER(g_raw[4]) == 'e')));
"""


def _configure_env(cfg):
    configure(cfg)
    cfg.ext_q["GetRawEnvironmentVariable"] = lambda em, node, recv, args: "xc_GetRaw(%s)" % em.addr_of(args[1])
    cfg.ext["strtoull"] = lambda em, node, recv, args: "xc_strtoull(%s, %s)" % (em.expr(args[0]), em.expr(args[1]))

    def _scc(em, node, recv, args):
        lit = em._strip_all(args[1])
        v = lit.get("value", "")
        if lit.get("kind") != "StringLiteral" or v not in ('"true"', '"false"'):
            raise common.ExtractionError("strcasecmp against something other than \"true\" / \"false\"")
        return "xc_strcasecmp_lit(%s, %d)" % (em.expr(args[0]), 1 if v == '"true"' else 0)
    cfg.ext["strcasecmp"] = _scc
    cfg.ext["var:errno"] = "xc_errno"
    for n in ("std::basic_string", "std::__cxx11::basic_string"):
        cfg.ext_methods[n + "::find"] = lambda em, recv, args, n: "xc_str_find_char(%s, %s)" % (recv, em.expr(args[0]))
    cfg.type_map["std::uint32_t"] = "unsigned int"
    for n in ("std::basic_string", "std::__cxx11::basic_string"):
        cfg.ctor_ext[n] = lambda em, node, args: "((xc_str){\"\", 0})" if not [a for a in args if a.get("kind") != "CXXDefaultArgExpr"] else em.expr(args[0])
    cfg.ext["__errno_location"] = lambda em, node, recv, args: "(&xc_errno)"


ENV_REQ = "__CPROVER_requires(__CPROVER_is_fresh(value, sizeof(*value)) && g_len < 32 && g_raw[g_len] == 0 && (g_exists == 0 || g_exists == 1) && xc_errno == 0)\n"
contracts_env = {
    "GetUintEnvironmentVariable": {"pre": ENV_REQ +
        "__CPROVER_assigns(*value, xc_errno, g_st_calls, g_st_ws, g_st_nd, g_st_neg, g_st_plus, g_st_range, g_st_value)\n"
        # unset or empty: the default, reported as not set
        "__CPROVER_ensures((!g_exists || g_len == 0) ==> (!__CPROVER_return_value && *value == 0))\n"
        # anything that is not accepted yields the documented default 0 (never a partial value)
        "__CPROVER_ensures(!__CPROVER_return_value ==> *value == 0)\n"
        # accepted: the whole string is a number (nothing is left over), it fits 32 bits and the value is the number written -
        # in particular it is not the two's complement of a NEGATIVE number
        "__CPROVER_ensures(__CPROVER_return_value ==> (g_st_nd > 0 && g_st_ws + (unsigned long)(g_st_neg || g_st_plus) + g_st_nd == g_len && !g_st_range))\n"
        "__CPROVER_ensures(__CPROVER_return_value ==> (!g_st_neg && *value == g_st_value && g_st_value <= 0xffffffffUL))\n"},
    "GetBoolEnvironmentVariable": {"pre": ENV_REQ +
        "__CPROVER_assigns(*value)\n"
        "__CPROVER_ensures((!g_exists || g_len == 0) ==> (!__CPROVER_return_value && !*value))\n"
        # true exactly for a case-insensitive "true"; everything else (incl. "false" and junk) reads as false
        "__CPROVER_ensures((g_exists && g_len > 0) ==> (__CPROVER_return_value && (*value != 0) == "
        "(g_len == 4 && LOWER(g_raw[0]) == 't' && LOWER(g_raw[1]) == 'r' && LOWER(g_raw[2]) == 'u' && LOWER(g_raw[3]) == 'e')))\n"},
}
proofs_env = [
    Proof("GetUintEnvironmentVariable", [("GetUintEnvironmentVariable", 2)], enforce="GetUintEnvironmentVariable", replace=["xc_strtoull", "xc_str_find_char"], timeout=300,
          desc="unsigned 32-bit reader: default on anything not accepted; accepted only for a complete in-range number, never for a negative one"),
    Proof("GetBoolEnvironmentVariable", [("GetBoolEnvironmentVariable", 2)], enforce="GetBoolEnvironmentVariable", replace=["xc_strcasecmp_lit"], timeout=300,
          desc="boolean reader: true exactly for a case-insensitive 'true'"),
]
for _p in proofs_env:
    _p.pre_c = ENV_PRE
    _p.post_struct_c = ENV_POST
    _p.configure = _configure_env
    _p.own_config = True
    _p.contracts = contracts_env
    _p.spec_headers = ()
proofs += proofs_env
assumed_contracts = dict(globals().get("assumed_contracts", {}))
assumed_contracts["xc_strtoull"] = "std::strtoull(s, &end, 10) per C11 7.22.1.4 (white space, optional sign, digits; negation in the unsigned type; ERANGE)"
assumed_contracts["xc_str_find_char"] = "std::string::find(char) per the C++ standard"
assumed_contracts["xc_strcasecmp_lit"] = "strcasecmp(s, \"true\"/\"false\") per POSIX (ASCII case folding)"


def refute_uint(mod, proof, violations, ix, workdir, seed):
    """directed native search on the real unsigned reader: numbers around the 32- and 64-bit limits with blanks, signs and junk"""
    import os, re as _re, subprocess
    binpath = R.build_native(DRIVER[0], [os.path.join(R.core.HERE, "replay", s) for s in DRIVER[1]] +
                             [os.path.join(R.core.REPO, s) for s in DRIVER[2]], DRIVER_FLAGS)
    full = subprocess.run([binpath, "uintsearch"], stdout=subprocess.PIPE, stderr=subprocess.STDOUT, text=True, timeout=300).stdout
    m = _re.findall(r"^FOUND ([0-9a-f]*)$", full, _re.M)
    if not m:
        return None
    r = R.native_check(DRIVER[0], DRIVER[1], ["uint", m[-1]], DRIVER_FLAGS, repo_sources=DRIVER[2])
    r["input"] = {"env_value": bytes.fromhex(m[-1]).decode("latin-1"), "found_by": "directed native search (refute mode)"}
    return r if r["reproduced"] else None


refuters["GetUintEnvironmentVariable"] = refute_uint
