"""C11 - the lock-free circular buffer and its slots, SEQUENTIAL semantics only (sdk/include/opentelemetry/sdk/common/circular_buffer.h,
atomic_unique_ptr.h): the contracts say what one call does when no other thread interferes, including spurious failures of the weak
compare-exchange. The interleaving half of C11 is out of reach of function contracts (a bounded CBMC thread harness stands in, thorough tier)."""
from ..core import Proof
from .. import refute as R
from . import common
from ..xc.emit import CT, ExtractionError

prop_id = "C11"
tu_name = "tu_circular_buffer"
tu_text = ('#include "%s/sdk/include/opentelemetry/sdk/common/circular_buffer.h"\n'
           'template class opentelemetry::sdk::common::AtomicUniquePtr<int>;\n'
           'template class opentelemetry::sdk::common::CircularBuffer<int>;\n' % R.core.REPO)
spec_headers = ()
pre_c = r"""
size_t g_k; unsigned long g_deleted; const void *g_deleted_last; unsigned long g_cas_calls;
static void xc_havoc_ghosts(void) { size_t a; unsigned long b, c; g_k = a; g_deleted = b; g_cas_calls = c; g_deleted_last = 0; }
#define XC_MAXCAP 4096UL
"""
post_struct_c = r"""
/* std::atomic<T>::compare_exchange_weak / _strong on a plain field (sequential semantics): the weak form may fail spuriously */
static bool xc_cas_weak_u64(unsigned long *obj, unsigned long *expected, unsigned long desired)
{ bool spurious, r; __CPROVER_atomic_begin(); g_cas_calls++; if (*obj == *expected && !spurious) { *obj = desired; r = true; } else { *expected = *obj; r = false; } __CPROVER_atomic_end(); return r; }
static bool xc_cas_weak_ptr(int **obj, int **expected, int *desired)
{ bool spurious, r; __CPROVER_atomic_begin(); g_cas_calls++; if (*obj == *expected && !spurious) { *obj = desired; r = true; } else { *expected = *obj; r = false; } __CPROVER_atomic_end(); return r; }
static int *xc_xchg_ptr(int **obj, int *desired) { __CPROVER_atomic_begin(); int *old = *obj; *obj = desired; __CPROVER_atomic_end(); return old; }
static void xc_delete_int(int *p) { if (p != NULL) { g_deleted++; g_deleted_last = p; } }
"""


def _uptr_type(em, base, targs, name):
    if base in ("std::unique_ptr",) and targs:
        t0 = targs[0].strip()
        if t0.endswith("[]"):
            inner = em._ctype(t0[:-2])
            return CT(inner.base, inner.ptr + 1)
        inner = em._ctype(t0)
        return CT(inner.base, inner.ptr + 1)
    return None


def configure(cfg):
    cfg.type_handlers.insert(0, _uptr_type)
    unp = lambda r: (r["node"] if isinstance(r, dict) and r.get("xc_is_ptr") else r)
    A = "std::atomic::"
    for pre in ("std::atomic::", "std::__atomic_base::", "std::atomic<int *>::", "std::atomic<unsigned long>::"):
        cfg.ext_methods[pre + "load"] = lambda em, recv, args, n: recv
        cfg.ext_methods[pre + "operator unsigned long"] = lambda em, recv, args, n: recv
        cfg.ext_methods[pre + "operator int *"] = lambda em, recv, args, n: recv
        cfg.ext_methods[pre + "operator __pointer_type"] = lambda em, recv, args, n: recv
        cfg.ext_methods[pre + "exchange"] = lambda em, recv, args, n: "xc_xchg_ptr(&(%s), %s)" % (recv, em.expr(args[0]))
        cfg.ext_methods[pre + "operator+="] = lambda em, recv, args, n: "(%s += %s)" % (recv, em.expr(args[0]))
    def cas(em, recv, args, n):
        t = em.ctype(args[1]["type"])
        f = "xc_cas_weak_ptr" if t.ptr else "xc_cas_weak_u64"
        return "%s(&(%s), %s, %s)" % (f, recv, em.addr_of(args[0]), em.expr(args[1]))
    for pre in ("std::atomic::", "std::__atomic_base::", "std::atomic<int *>::", "std::atomic<unsigned long>::"):
        cfg.ext_methods[pre + "compare_exchange_weak"] = cas
    U = "std::unique_ptr::"
    cfg.ext_methods[U + "get"] = lambda em, recv, args, n: recv
    cfg.ext_methods[U + "release"] = lambda em, recv, args, n: "({ int *xc_r = %s; %s = NULL; xc_r; })" % (recv, recv)
    # reset(p): the argument is evaluated first (it may release this very unique_ptr), then the old object is replaced and deleted
    cfg.ext_methods[U + "reset"] = lambda em, recv, args, n: "({ int *xc_n = %s; int *xc_o = %s; %s = xc_n; xc_delete_int(xc_o); })" % (
        em.expr(args[0]) if [a for a in args if a.get("kind") != "CXXDefaultArgExpr"] else "NULL", recv, recv)
    cfg.ext_methods[U + "operator[]"] = lambda em, recv, args, n: "%s[%s]" % (recv, em.expr(args[0]))
    cfg.ext["delete"] = lambda em, n: "xc_delete_int(%s)" % em.expr(n["inner"][0])
    cfg.ext["ref"] = lambda em, node, recv, args: em.expr(args[0])


ADD = "CircularBuffer_int_Add_1_std_unique_ptr_int"
# quiescent state of the queue as one thread sees it: capacity_ = max_size + 1 slots, tail <= head, at most max_size queued, and the slot the next
# Add will use is empty (there is always one spare slot)
WF_CB = ("__CPROVER_is_fresh(self, sizeof(*self)) && self->capacity_ >= 1 && self->capacity_ <= XC_MAXCAP && __CPROVER_is_fresh(self->data_, self->capacity_ * sizeof(AtomicUniquePtr_int)) && "
         "self->tail_ <= self->head_ && self->head_ - self->tail_ <= self->capacity_ - 1 && self->data_[self->head_ % self->capacity_].ptr_ == NULL")
OLDSLOT = "__CPROVER_old(self->data_[g_k * (g_k < self->capacity_)].ptr_)"
contracts = {
    # AtomicUniquePtr::SwapIfNull(owner): on success the slot holds the caller's object and the caller's unique_ptr is empty; on failure (slot
    # occupied, or a spurious failure of the weak compare-exchange) nothing changes; never deletes
    "AtomicUniquePtr_int_SwapIfNull": {"pre":
        "__CPROVER_requires(__CPROVER_is_fresh(self, sizeof(*self)) && __CPROVER_is_fresh(owner, sizeof(*owner)))\n"
        "__CPROVER_assigns(self->ptr_, *owner, g_cas_calls)\n"
        "__CPROVER_ensures(__CPROVER_return_value ==> (__CPROVER_old(self->ptr_) == NULL && self->ptr_ == __CPROVER_old(*owner) && *owner == NULL && __CPROVER_old(*owner) != NULL))\n"
        "__CPROVER_ensures((!__CPROVER_return_value && __CPROVER_old(*owner) != NULL) ==> (self->ptr_ == __CPROVER_old(self->ptr_) && *owner == __CPROVER_old(*owner)))\n"
        "__CPROVER_ensures(__CPROVER_old(self->ptr_) != NULL ==> !__CPROVER_return_value)\n"},
    # Swap: exchanges the two pointers; the only object deleted is none (the old content goes to the caller)
    "AtomicUniquePtr_int_Swap": {"pre":
        "__CPROVER_requires(__CPROVER_is_fresh(self, sizeof(*self)) && __CPROVER_is_fresh(other, sizeof(*other)))\n"
        "__CPROVER_assigns(self->ptr_, *other, g_deleted, g_deleted_last)\n"
        "__CPROVER_ensures(self->ptr_ == __CPROVER_old(*other) && *other == __CPROVER_old(self->ptr_) && g_deleted == __CPROVER_old(g_deleted))\n"},
    # Reset(p): the slot holds p; the previous object (if any) is deleted exactly once
    "AtomicUniquePtr_int_Reset": {"pre":
        "__CPROVER_requires(__CPROVER_is_fresh(self, sizeof(*self)))\n"
        "__CPROVER_assigns(self->ptr_, g_deleted, g_deleted_last)\n"
        "__CPROVER_ensures(self->ptr_ == ptr)\n"
        "__CPROVER_ensures(__CPROVER_old(self->ptr_) != NULL ==> (g_deleted == __CPROVER_old(g_deleted) + 1 && g_deleted_last == __CPROVER_old(self->ptr_)))\n"
        "__CPROVER_ensures(__CPROVER_old(self->ptr_) == NULL ==> g_deleted == __CPROVER_old(g_deleted))\n"},
    # CircularBuffer::Add(ptr), one thread: fails exactly when max_size elements are queued and then leaves the element with the caller and the
    # queue untouched; otherwise the element is stored in the slot of the old head, head advances by one, the caller's unique_ptr is empty, no
    # other slot changes and nothing is deleted - also when the weak compare-exchanges fail spuriously any number of times
    ADD: {"pre":
        "__CPROVER_requires(" + WF_CB + " && __CPROVER_is_fresh(ptr, sizeof(*ptr)) && *ptr != NULL)\n"
        "__CPROVER_assigns(self->head_, *ptr, g_cas_calls, g_deleted, g_deleted_last, __CPROVER_object_whole(self->data_))\n"
        "__CPROVER_ensures(__CPROVER_return_value == ((__CPROVER_old(self->head_) - __CPROVER_old(self->tail_)) < self->capacity_ - 1))\n"
        "__CPROVER_ensures(self->tail_ == __CPROVER_old(self->tail_) && g_deleted == __CPROVER_old(g_deleted))\n"
        "__CPROVER_ensures(!__CPROVER_return_value ==> (self->head_ == __CPROVER_old(self->head_) && *ptr == __CPROVER_old(*ptr)))\n"
        "__CPROVER_ensures(__CPROVER_return_value ==> (self->head_ == __CPROVER_old(self->head_) + 1 && *ptr == NULL && "
        "self->data_[(__CPROVER_old(self->head_) % self->capacity_)].ptr_ == __CPROVER_old(*ptr)))\n"
        "__CPROVER_ensures((g_k < self->capacity_ && (!__CPROVER_return_value || g_k != (__CPROVER_old(self->head_) % self->capacity_))) ==> self->data_[g_k].ptr_ == " + OLDSLOT + ")\n",
        "loops": {1: "__CPROVER_assigns(self->head_, *ptr, g_cas_calls, g_deleted, g_deleted_last, __CPROVER_object_whole(self->data_))\n"
                     "__CPROVER_loop_invariant(self->head_ == __CPROVER_loop_entry(self->head_) && *ptr == __CPROVER_loop_entry(*ptr) && g_deleted == __CPROVER_loop_entry(g_deleted))\n"
                     "__CPROVER_loop_invariant(self->data_ == __CPROVER_loop_entry(self->data_) && self->data_[self->head_ % self->capacity_].ptr_ == NULL)\n"
                     "__CPROVER_loop_invariant(g_k < self->capacity_ ==> self->data_[g_k].ptr_ == __CPROVER_loop_entry(self->data_[g_k * (g_k < self->capacity_)].ptr_))\n"}},
}
proofs = [
    Proof("AtomicUniquePtr_SwapIfNull", [("AtomicUniquePtr<int>::SwapIfNull", 1)], enforce="AtomicUniquePtr_int_SwapIfNull", timeout=300),
    Proof("AtomicUniquePtr_Swap", [("AtomicUniquePtr<int>::Swap", 1)], enforce="AtomicUniquePtr_int_Swap", timeout=300),
    Proof("AtomicUniquePtr_Reset", [("AtomicUniquePtr<int>::Reset", 1)], enforce="AtomicUniquePtr_int_Reset", timeout=300),
]
# CircularBuffer::Add with the capacity fixed (max_size 0..3, the buffer sizes the property quantifies over: "buffers of capacity 1..3"): with a
# symbolic capacity the five 64-bit remainder circuits (head % capacity_ in code, precondition, postcondition and invariant) did not finish
# (> 900 s on minisat2 and cadical); head, tail, the slot contents and the number of spurious compare-exchange failures stay arbitrary
import copy as _copy
for _cap in (1, 2, 3, 4):
    _ct = _copy.deepcopy(contracts[ADD])
    _ct["pre"] = _ct["pre"].replace("self->capacity_ >= 1 && self->capacity_ <= XC_MAXCAP", "self->capacity_ == %d" % _cap)
    _p = Proof("CircularBuffer_Add_cap%d" % _cap, [("CircularBuffer<int>::Add", 1, "std::unique_ptr<int> &)")], enforce=ADD, timeout=600,
               contracts={ADD: _ct}, desc="Add on a buffer with max_size %d (capacity_ = %d slots), any head/tail/slot contents, any number of spurious weak-CAS failures" % (_cap - 1, _cap))
    proofs.append(_p)

# ---- SpinLockMutex (api/include/opentelemetry/common/spin_lock_mutex.h), one call seen alone ------------------------------------------------
TU_SL = ("tu_spin_lock", '#include "opentelemetry/common/spin_lock_mutex.h"\n')


def _configure_sl(cfg):
    for pre in ("std::atomic::", "std::__atomic_base::", "std::atomic<bool>::"):
        cfg.ext_methods[pre + "load"] = lambda em, recv, args, n: recv
        cfg.ext_methods[pre + "exchange"] = lambda em, recv, args, n: "xc_xchg_bool(&(%s), %s)" % (recv, em.expr(args[0]))
        cfg.ext_methods[pre + "store"] = lambda em, recv, args, n: "(%s = %s)" % (recv, em.expr(args[0]))
    cfg.ext["__builtin_ia32_pause"] = lambda em, node, recv, args: "(void)0"
    cfg.ext["_mm_pause"] = lambda em, node, recv, args: "(void)0"
    cfg.ext["yield"] = lambda em, node, recv, args: "(void)0"
    cfg.ext["sleep_for"] = lambda em, node, recv, args: "(void)0"
    cfg.ctor_ext["std::chrono::duration"] = lambda em, node, args: "0"


SL_POST = "static bool xc_xchg_bool(bool *obj, bool desired) { bool old = *obj; *obj = desired; return old; }\n"
contracts_sl = {
    # try_lock succeeds only on a free lock, and then holds it; a held lock stays held
    "SpinLockMutex_try_lock": {"pre": "__CPROVER_requires(__CPROVER_is_fresh(self, sizeof(*self)))\n__CPROVER_assigns(self->flag_)\n"
        "__CPROVER_ensures(__CPROVER_return_value == !__CPROVER_old(self->flag_) && self->flag_)\n"},
    "SpinLockMutex_unlock": {"pre": "__CPROVER_requires(__CPROVER_is_fresh(self, sizeof(*self)))\n__CPROVER_assigns(self->flag_)\n__CPROVER_ensures(!self->flag_)\n"},
    # lock() seen alone (no other thread releases): if it returns, the lock was free and is now held (on a held lock it spins: partial correctness)
    "SpinLockMutex_lock": {"pre": "__CPROVER_requires(__CPROVER_is_fresh(self, sizeof(*self)))\n__CPROVER_assigns(self->flag_)\n"
        "__CPROVER_ensures(self->flag_ && !__CPROVER_old(self->flag_))\n",
        "loops": {1: "__CPROVER_assigns(self->flag_)\n__CPROVER_loop_invariant(!self->flag_ == !__CPROVER_loop_entry(self->flag_))\n",
                  2: "__CPROVER_assigns(i, self->flag_)\n__CPROVER_loop_invariant(self->flag_ && __CPROVER_loop_entry(self->flag_))\n"}},
}
proofs_sl = [
    Proof("SpinLock_try_lock", [("SpinLockMutex::try_lock", 0)], enforce="SpinLockMutex_try_lock", timeout=300),
    Proof("SpinLock_unlock", [("SpinLockMutex::unlock", 0)], enforce="SpinLockMutex_unlock", timeout=300),
    Proof("SpinLock_lock", [("SpinLockMutex::lock", 0)], enforce="SpinLockMutex_lock", replace=["SpinLockMutex_try_lock"], timeout=300),
]
for _p in proofs_sl:
    _p.tu = TU_SL
    _p.post_struct_c = SL_POST
    _p.configure = _configure_sl
    _p.own_config = True
    _p.contracts = contracts_sl
proofs += proofs_sl

# A bounded thread harness (two producers racing on Add under CBMC's interleaving semantics) was built on the extracted text and is NOT part of
# the check: cbmc 6.11 stops with "pointer handling for concurrency is unsound" because the extracted functions reach the shared buffer through
# pointer parameters (self, the caller's unique_ptr). The interleaving half of C11 therefore has no stand-in at all.
trusted = ("std::atomic<T> fields laid out as plain T: each call is verified as if it ran alone (sequential semantics)",
           "compare_exchange_weak = compare-and-set that may also fail spuriously (nondeterministic); exchange / load / store as plain accesses",
           "std::unique_ptr<T> as a plain pointer with a ghost deletion counter; delete = one counted deletion")
assumptions = (
    "SEQUENTIAL semantics: the contracts state what one call of Add / SwapIfNull / Swap / Reset / try_lock / lock / unlock does when no other thread interferes "
    "(including any number of spurious failures of the weak compare-exchange). The statement of C11 proper - every interleaving of producers and a consumer, "
    "mutual exclusion of the spin lock between threads, lock() returning once the holder unlocks - is NOT decided by these contracts",
    "CircularBuffer::Add is proved for max_size 0..3 (capacity_ 1..4; the property speaks of capacities 1..3) with arbitrary head/tail/slot contents; a symbolic capacity did not finish",
    "no stand-in for the interleaving half: cbmc's thread mode rejects the extracted code ('pointer handling for concurrency is unsound')",
)
not_covered = ("every interleaving of producers and consumer (exactly-once consumption, per-producer order)", "Consume / Peek / CircularBufferRange", "memory-order (acquire/release) reasoning",
               "mutual exclusion and progress of SpinLockMutex between threads")
DRIVER = ("c11_native", ["c11_native.cc"])


def refute_search(mod, proof, violations, ix, workdir, seed):
    """directed native search, one thread: every sequence of up to 7 Add / Consume(1) / Clear operations on the real CircularBuffer of max_size 1..3
    against a queue model with instance counting; spin lock try_lock/lock/unlock"""
    import os, re as _re, subprocess
    binpath = R.build_native(DRIVER[0], [os.path.join(R.core.HERE, "replay", s) for s in DRIVER[1]], ["-O1"])
    full = subprocess.run([binpath, "search"], stdout=subprocess.PIPE, stderr=subprocess.STDOUT, text=True, timeout=300).stdout
    m = _re.findall(r"^FOUND (.*)$", full, _re.M)
    if not m:
        return None
    args = m[-1].split()
    r = R.native_check(DRIVER[0], DRIVER[1], args, ["-O1"])
    r["input"] = {"driver_args": args, "meaning": "seq <max_size> <ops: a Add(ptr&), m Add(ptr&&), c Consume(1), k Clear> | spin", "found_by": "directed native search (refute mode)"}
    return r if r["reproduced"] else None


refuters = {p.name: refute_search for p in proofs}
