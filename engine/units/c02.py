"""C02 - only the result of ForceFlush of the multi processors: "when ForceFlush on ... the provider that owns them returns true, everything ... has
been passed to the exporter" - a multi processor may report success only if every processor it fans out to reported success, and it asks every
processor exactly once. (sdk/include/opentelemetry/sdk/trace/multi_span_processor.h, sdk/src/logs/multi_log_record_processor.cc).
The statement of C02 proper (liveness, completeness and finality under interleavings) is not decided."""
from ..core import Proof
from .. import refute as R
from . import common
from ..xc.emit import CT, ExtractionError

prop_id = "C02"
tu_name = "tu_multi_span_processor"
tu_text = '#include "%s/sdk/include/opentelemetry/sdk/trace/multi_span_processor.h"\n' % R.core.REPO
spec_headers = ("xc_trace_boundary.h",)
force_records = ()
pre_c = r"""
/* SpanProcessor::ForceFlush / LogRecordProcessor::ForceFlush (virtual): ghost answers, one per call, and a call count */
unsigned long g_ff_calls; int g_ff_ans[4]; int g_all_ok; unsigned long g_ff_proc[4]; long g_now;
static void xc_havoc_ghosts(void) { int a, b, c, d; g_ff_calls = 0; g_ff_ans[0] = a; g_ff_ans[1] = b; g_ff_ans[2] = c; g_ff_ans[3] = d; g_all_ok = 1; }
static long xc_now(void) { return g_now; }
unsigned long g_sd_calls; unsigned long g_sd_proc[4]; int g_sd_ans[4];
"""
post_struct_c = r"""
static bool xc_proc_ForceFlush(const xc_opaque *p, long timeout)
{ unsigned long i = g_ff_calls < 3 ? g_ff_calls : 3; bool r = g_ff_ans[i] != 0; g_ff_proc[i] = (unsigned long)p; g_ff_calls++; if (!r) g_all_ok = 0; return r; }
static bool xc_proc_Shutdown(const xc_opaque *p, long timeout)
{ unsigned long i = g_sd_calls < 3 ? g_sd_calls : 3; g_sd_proc[i] = (unsigned long)p; g_sd_calls++; return g_sd_ans[i] != 0; }
"""


def _uptr(em, base, targs, name):
    if base == "std::unique_ptr" and targs and targs[0].strip().split("::")[-1] in ("SpanProcessor", "LogRecordProcessor"):
        return CT("xc_opaque", 1)      # a processor is identified by its address
    if base == "std::shared_ptr" and targs and targs[0].strip().split("::")[-1] == "LoggerContext":
        return CT("LoggerContext", 1)
    if base == "std::shared_ptr" and targs and targs[0].strip().split("::")[-1] == "TracerContext":
        return CT("TracerContext", 1)  # the provider's context: a plain pointer (reference counts not modelled)
    return None


def configure(cfg):
    common.sdk_trace_boundary(cfg)
    common.chrono_boundary(cfg)
    cfg.type_handlers.insert(0, _uptr)
    cfg.handle_ptr_records = ("SpanProcessor", "LogRecordProcessor")
    unp = lambda r: (r["node"] if isinstance(r, dict) and r.get("xc_is_ptr") else r)
    cfg.ext_methods["std::unique_ptr::get"] = lambda em, recv, args, n: recv
    cfg.ext_methods["std::unique_ptr::operator->"] = lambda em, recv, args, n: recv
    cfg.ext_methods["std::shared_ptr::operator->"] = lambda em, recv, args, n: recv
    cfg.ext_methods["std::__shared_ptr_access::operator->"] = lambda em, recv, args, n: recv
    cfg.ext_q["SpanProcessor::ForceFlush"] = lambda em, node, recv, args: "xc_proc_ForceFlush(%s, %s)" % (em.expr(unp(recv)), em.expr(args[0]))
    cfg.ext_q["LogRecordProcessor::ForceFlush"] = lambda em, node, recv, args: "xc_proc_ForceFlush(%s, %s)" % (em.expr(unp(recv)), em.expr(args[0]))
    cfg.ext_q["SpanProcessor::Shutdown"] = lambda em, node, recv, args: "xc_proc_Shutdown(%s, %s)" % (em.expr(unp(recv)), em.expr(args[0]))
    cfg.ext_q["LogRecordProcessor::Shutdown"] = lambda em, node, recv, args: "xc_proc_Shutdown(%s, %s)" % (em.expr(unp(recv)), em.expr(args[0]))
    cfg.ext["now"] = lambda em, node, recv, args: "xc_now()"
    cfg.opaque_records["sdk::trace::SpanProcessor"] = "xc_opaque"
    cfg.opaque_records["sdk::logs::LogRecordProcessor"] = "xc_opaque"


contracts = {}
H_MSP = r"""
void h_MultiSpanProcessor_ForceFlush_bounded(void)
{
  xc_havoc_ghosts();
  unsigned long n; __CPROVER_assume(n <= 3);
  ProcessorNode nodes[3]; MultiSpanProcessor msp; long timeout;
  for (unsigned long i = 0; i < 3; i++) { nodes[i].value_ = (xc_opaque *)(100 + i); nodes[i].next_ = (i + 1 < n) ? &nodes[i + 1] : NULL; nodes[i].prev_ = i ? &nodes[i - 1] : NULL; }
  msp.head_ = n ? &nodes[0] : NULL; msp.tail_ = n ? &nodes[n - 1] : NULL; msp.count_ = n;
  bool r = MultiSpanProcessor_ForceFlush(&msp, timeout);
  __CPROVER_assert(g_ff_calls == n, "every processor is asked to flush exactly once");
  for (unsigned long i = 0; i < 3; i++) if (i < n) __CPROVER_assert(g_ff_proc[i] == 100 + i, "... in registration order");
  __CPROVER_assert(!r || g_all_ok, "ForceFlush reports success only if every processor reported success");
  __CPROVER_assert(0, "XC_CANARY end of harness reachable");
}
"""
H_MSP_SD = r"""
void h_MultiSpanProcessor_Shutdown_bounded(void)
{
  xc_havoc_ghosts();
  unsigned long n; __CPROVER_assume(n <= 3);
  ProcessorNode nodes[3]; MultiSpanProcessor msp; long timeout;
  for (unsigned long i = 0; i < 3; i++) { nodes[i].value_ = (xc_opaque *)(100 + i); nodes[i].next_ = (i + 1 < n) ? &nodes[i + 1] : NULL; nodes[i].prev_ = i ? &nodes[i - 1] : NULL; }
  msp.head_ = n ? &nodes[0] : NULL; msp.tail_ = n ? &nodes[n - 1] : NULL; msp.count_ = n;
  g_sd_calls = 0;
  MultiSpanProcessor_Shutdown(&msp, timeout);
  __CPROVER_assert(g_sd_calls == n, "Shutdown of the provider's processor reaches every registered processor exactly once");
  for (unsigned long i = 0; i < 3; i++) if (i < n) __CPROVER_assert(g_sd_proc[i] == 100 + i, "... each of them, in registration order");
  __CPROVER_assert(g_ff_calls == 0, "Shutdown does not flush by itself");
  __CPROVER_assert(0, "XC_CANARY end of harness reachable");
}
"""
proofs = [
    Proof("MultiSpanProcessor_Shutdown_bounded", [("MultiSpanProcessor::Shutdown", 1)], harness=H_MSP_SD, loop_contracts=False, unwind=5, level="bounded", timeout=300,
          bound_note="0..3 processors in the list, arbitrary results of their Shutdown; everything inlined", desc="fan-out of Shutdown: every registered processor exactly once (one call, sequential)"),
    Proof("MultiSpanProcessor_ForceFlush_bounded", [("MultiSpanProcessor::ForceFlush", 1)], harness=H_MSP, loop_contracts=False, unwind=5, level="bounded", timeout=300,
          bound_note="0..3 processors in the list, arbitrary results of their ForceFlush; everything inlined", desc="fan-out of ForceFlush: every processor once, success only if all succeed"),
]
# "ForceFlush ... on the provider that owns them": TracerContext::ForceFlush / Shutdown (what TracerProvider forwards to) hand the call to the
# processor exactly once with the caller's timeout and report its answer
TU_TC = ("tu_tracer_context", '#include "%s/sdk/src/trace/tracer_context.cc"\n' % R.core.REPO)
contracts["TracerContext_ForceFlush"] = {"pre":
    "__CPROVER_requires(__CPROVER_is_fresh(self, sizeof(*self)) && g_ff_calls == 0)\n__CPROVER_assigns(g_ff_calls, g_all_ok, __CPROVER_object_whole(g_ff_proc))\n"
    "__CPROVER_ensures(g_ff_calls == 1 && g_ff_proc[0] == (unsigned long)self->processor_ && g_sd_calls == __CPROVER_old(g_sd_calls))\n"
    "__CPROVER_ensures((__CPROVER_return_value != 0) == (g_ff_ans[0] != 0))\n"}
contracts["TracerContext_Shutdown"] = {"pre":
    "__CPROVER_requires(__CPROVER_is_fresh(self, sizeof(*self)) && g_sd_calls == 0)\n__CPROVER_assigns(g_sd_calls, __CPROVER_object_whole(g_sd_proc))\n"
    "__CPROVER_ensures(g_sd_calls == 1 && g_sd_proc[0] == (unsigned long)self->processor_ && g_ff_calls == __CPROVER_old(g_ff_calls))\n"
    "__CPROVER_ensures((__CPROVER_return_value != 0) == (g_sd_ans[0] != 0))\n"}
# TracerProvider::ForceFlush / Shutdown -> context_->ForceFlush / Shutdown: the TracerContext call is replaced by its contract (proved below)
TU_TP = ("tu_tracer_provider", '#include "%s/sdk/src/trace/tracer_context.cc"\n#include "%s/sdk/src/trace/tracer_provider.cc"\n' % (R.core.REPO, R.core.REPO))
for _n, _cnt, _proc, _ans, _other in (("ForceFlush", "g_ff_calls", "g_ff_proc", "g_ff_ans", "g_sd_calls"), ("Shutdown", "g_sd_calls", "g_sd_proc", "g_sd_ans", "g_ff_calls")):
    contracts["TracerProvider_" + _n] = {"pre":
        "__CPROVER_requires(__CPROVER_is_fresh(self, sizeof(*self)) && __CPROVER_is_fresh(self->context_, sizeof(*self->context_)) && %s == 0)\n" % _cnt +
        "__CPROVER_assigns(g_ff_calls, g_sd_calls, g_all_ok, __CPROVER_object_whole(g_ff_proc), __CPROVER_object_whole(g_sd_proc))\n"
        "__CPROVER_ensures(%s == 1 && %s[0] == (unsigned long)self->context_->processor_ && %s == __CPROVER_old(%s))\n" % (_cnt, _proc, _other, _other) +
        "__CPROVER_ensures((__CPROVER_return_value != 0) == (%s[0] != 0))\n" % _ans}
    _ptp = Proof("TracerProvider_" + _n, [("TracerProvider::" + _n, 1), ("TracerContext::" + _n, 1)], enforce="TracerProvider_" + _n, replace=["TracerContext_" + _n], timeout=300,
                 desc="the provider call reaches the context (and through its contract the processor) exactly once and reports its answer")
    _ptp.tu = TU_TP
    _ptp.force_records = ("sdk::trace::TracerContext",)
    proofs.append(_ptp)
TU_LP = ("tu_logger_provider", '#include "%s/sdk/src/logs/logger_context.cc"\n#include "%s/sdk/src/logs/logger_provider.cc"\n' % (R.core.REPO, R.core.REPO))
for _n in ("ForceFlush", "Shutdown"):
    contracts["LoggerProvider_" + _n] = contracts["TracerProvider_" + _n]
    _plp = Proof("LoggerProvider_" + _n, [("LoggerProvider::" + _n, 1), ("LoggerContext::" + _n, 1)], enforce="LoggerProvider_" + _n, replace=["LoggerContext_" + _n], timeout=300,
                 desc="the logger provider call reaches the context (and through its contract the processor) exactly once and reports its answer")
    _plp.tu = TU_LP
    _plp.force_records = ("sdk::logs::LoggerContext",)
    proofs.append(_plp)
TU_LC = ("tu_logger_context", '#include "%s/sdk/src/logs/logger_context.cc"\n' % R.core.REPO)
for _n in ("ForceFlush", "Shutdown"):
    contracts["LoggerContext_" + _n] = contracts["TracerContext_" + _n]
    _plc = Proof("LoggerContext_" + _n, [("LoggerContext::" + _n, 1)], enforce="LoggerContext_" + _n, timeout=300,
                 desc="the logger-provider-level call reaches the processor exactly once with the caller's timeout and reports its answer")
    _plc.tu = TU_LC
    proofs.append(_plc)
for _n in ("ForceFlush", "Shutdown"):
    _ptc = Proof("TracerContext_" + _n, [("TracerContext::" + _n, 1)], enforce="TracerContext_" + _n, timeout=300,
                 desc="the provider-level call reaches the processor exactly once with the caller's timeout and reports its answer")
    _ptc.tu = TU_TC
    proofs.append(_ptc)
trusted = ("SpanProcessor / LogRecordProcessor::ForceFlush (virtual) as ghost answers",)
assumptions = ("ONLY single sequential calls are decided: the return value and the fan-out of ForceFlush / Shutdown of the two multi processors, the provider-level forwarders (TracerContext, LoggerContext), "
               "ForceFlush and the first-Shutdown latch of the simple processors; liveness, completeness under interleavings, finality of Shutdown across threads, "
               "the batch processors' own ForceFlush/Shutdown protocol and the periodic reader are NOT covered",)
not_covered = ("BatchSpanProcessor / BatchLogRecordProcessor ForceFlush and Shutdown (condition variables, worker thread)", "PeriodicExportingMetricReader", "termination under every interleaving", "Shutdown exactly-once across threads")
refuters = {}


def refute_ff(mod, proof, violations, ix, workdir, seed):
    """directed native search on the real MultiSpanProcessor with mock processors: every combination of up to 3 flush results"""
    import os, re as _re, subprocess
    binpath = R.build_native("c02_native", [os.path.join(R.core.HERE, "replay", "c02_native.cc")], ["-O1"])
    full = subprocess.run([binpath, "search"], stdout=subprocess.PIPE, stderr=subprocess.STDOUT, text=True, timeout=120).stdout
    m = _re.findall(r"^FOUND (.*)$", full, _re.M)
    if not m:
        return None
    args = m[-1].split()
    r = R.native_check("c02_native", ["c02_native.cc"], args, ["-O1"])
    r["input"] = {"driver_args": args, "meaning": "ff <one digit per processor: 1 = its ForceFlush succeeds, 0 = it fails>", "found_by": "directed native search (refute mode)"}
    return r if r["reproduced"] else None


refuters = {p.name: refute_ff for p in proofs}


# ---------------------------------------------------------------------------------------------
# MultiLogRecordProcessor::ForceFlush (sdk/src/logs/multi_log_record_processor.cc): any number of processors, loop invariant
TU_MLP = ("tu_multi_log_processor", '#include "%s/sdk/src/logs/multi_log_record_processor.cc"\n' % R.core.REPO)
MLP_PRE = r"""
unsigned long g_ff_calls; int g_all_ok; long g_now; size_t g_k; unsigned long g_ff_proc_k;
static void xc_havoc_ghosts(void) { size_t a; long t; g_k = a; g_now = t; g_ff_calls = 0; g_all_ok = 1; g_ff_proc_k = 0; }
static long xc_now(void) { long t; __CPROVER_assume(t >= 0); return t; }              /* system_clock::now(): any time not before the epoch */
typedef struct xc_procvec { xc_opaque **items; size_t count; } xc_procvec;     /* std::vector<std::unique_ptr<LogRecordProcessor>> as a sequence */
"""
MLP_POST = r"""
static bool xc_proc_ForceFlush(const xc_opaque *p, long timeout) { bool r; if (g_ff_calls == g_k) g_ff_proc_k = (unsigned long)p; g_ff_calls++; if (!r) g_all_ok = 0; return r; }
unsigned long g_sdl_calls; unsigned long g_sdl_proc_k;
static bool xc_proc_Shutdown_k(const xc_opaque *p, long timeout) { bool r; if (g_sdl_calls == g_k) g_sdl_proc_k = (unsigned long)p; g_sdl_calls++; return r; }
"""


def _mlp_types(em, base, targs, name):
    if base == "std::vector" and targs and "LogRecordProcessor" in targs[0]:
        return CT("xc_procvec")
    return _uptr(em, base, targs, name)


def _configure_mlp(cfg):
    configure(cfg)
    cfg.ext_q["LogRecordProcessor::Shutdown"] = lambda em, node, recv, args: "xc_proc_Shutdown_k(%s, %s)" % (em.expr((recv["node"] if isinstance(recv, dict) and recv.get("xc_is_ptr") else recv)), em.expr(args[0]))
    cfg.type_handlers.insert(0, _mlp_types)
    if not hasattr(cfg, "seq_handlers"):
        cfg.seq_handlers = {}
    cfg.seq_handlers["std::vector"] = lambda em, seq, targs: ("(%s).items" % seq, "(%s).count" % seq)
    cfg.seq_handlers["xc_procvec"] = cfg.seq_handlers["std::vector"]
    # std::chrono arithmetic on tick counts (time points and nanosecond durations are both long counts of nanoseconds here)
    cfg.ctor_ext["std::chrono::time_point"] = lambda em, node, args: (em.expr(args[0]) if [a for a in args if a.get("kind") != "CXXDefaultArgExpr"] else "0L")
    for op in ("-", "+"):
        cfg.ext_q["std::chrono::operator" + op] = (lambda o: (lambda em, node, recv, args: "(%s %s %s)" % (em.expr(args[0]), o, em.expr(args[1]))))(op)
    for op in ("<=", ">=", "<", ">", "==", "!="):
        cfg.ext_q["std::chrono::operator" + op] = (lambda o: (lambda em, node, recv, args: "(%s %s %s)" % (em.expr(args[0]), o, em.expr(args[1]))))(op)
    cfg.ext_q["time_point::max"] = lambda em, node, recv, args: "INT64_MAX"
    cfg.ext_q["duration::max"] = lambda em, node, recv, args: "INT64_MAX"
    cfg.ext_q["duration::zero"] = lambda em, node, recv, args: "0L"
    cfg.ext["zero"] = lambda em, node, recv, args: "0L"
    cfg.ext["max"] = lambda em, node, recv, args: ("INT64_MAX" if not args else "((%s) > (%s) ? (%s) : (%s))" % (em.expr(args[0]), em.expr(args[1]), em.expr(args[0]), em.expr(args[1])))
    for pre in ("std::chrono::time_point::", "std::chrono::duration::", "std::chrono::"):
        for op in ("-", "+"):
            cfg.ext_methods[pre + "operator" + op] = (lambda o: (lambda em, recv, args, n: "(%s %s %s)" % (recv, o, em.expr(args[0])) if len(args) == 1 else "(%s %s %s)" % (em.expr(args[0]), o, em.expr(args[1]))))(op)
        for op in ("<=", ">=", "<", ">", "==", "!="):
            cfg.ext_methods[pre + "operator" + op] = (lambda o: (lambda em, recv, args, n: "(%s %s %s)" % (recv, o, em.expr(args[0])) if len(args) == 1 else "(%s %s %s)" % (em.expr(args[0]), o, em.expr(args[1]))))(op)
    cfg.ext_methods["std::chrono::time_point::operator="] = lambda em, recv, args, n: "%s = %s" % (recv, em.expr(args[0]))


MLP = "MultiLogRecordProcessor_ForceFlush"
contracts_mlp = {MLP: {"pre":
    "__CPROVER_requires(timeout >= 0 && __CPROVER_is_fresh(self, sizeof(*self)) && self->processors_.count <= 64 && __CPROVER_is_fresh(self->processors_.items, self->processors_.count * sizeof(xc_opaque *)))\n"
    "__CPROVER_assigns(g_ff_calls, g_all_ok, g_ff_proc_k)\n"
    # every processor is asked exactly once, in order; success is reported only if every processor reported success (and then it IS reported)
    "__CPROVER_ensures(g_ff_calls == self->processors_.count && (g_k < self->processors_.count ==> g_ff_proc_k == (unsigned long)self->processors_.items[g_k]))\n"
    "__CPROVER_ensures((__CPROVER_return_value != 0) == (g_all_ok != 0))\n",
    "loops": {1: "__CPROVER_assigns(xc_i1, result, start_time, timeout_ns, g_ff_calls, g_all_ok, g_ff_proc_k)\n"
                 "__CPROVER_loop_invariant(xc_i1 <= self->processors_.count && g_ff_calls == xc_i1 && (result != 0) == (g_all_ok != 0))\n"
                 "__CPROVER_loop_invariant((g_k < xc_i1) ==> g_ff_proc_k == (unsigned long)self->processors_.items[g_k])\n"
                 "__CPROVER_decreases(self->processors_.count - xc_i1)\n"}}}
MLS = "MultiLogRecordProcessor_Shutdown"
contracts_mlp[MLS] = {"pre":
    "__CPROVER_requires(timeout >= 0 && g_sdl_calls == 0 && __CPROVER_is_fresh(self, sizeof(*self)) && self->processors_.count <= 64 && __CPROVER_is_fresh(self->processors_.items, self->processors_.count * sizeof(xc_opaque *)))\n"
    "__CPROVER_assigns(g_sdl_calls, g_sdl_proc_k)\n"
    # every registered processor is shut down exactly once, in order, whatever the earlier ones answered and however much of the timeout they used; no flush
    "__CPROVER_ensures(g_sdl_calls == self->processors_.count && (g_k < self->processors_.count ==> g_sdl_proc_k == (unsigned long)self->processors_.items[g_k]))\n"
    "__CPROVER_ensures(g_ff_calls == __CPROVER_old(g_ff_calls))\n",
    "loops": {1: "__CPROVER_assigns(xc_i1, result, start_time, timeout_ns, g_sdl_calls, g_sdl_proc_k)\n"
                 "__CPROVER_loop_invariant(xc_i1 <= self->processors_.count && g_sdl_calls == xc_i1)\n"
                 "__CPROVER_loop_invariant((g_k < xc_i1) ==> g_sdl_proc_k == (unsigned long)self->processors_.items[g_k])\n"
                 "__CPROVER_decreases(self->processors_.count - xc_i1)\n"}}
_pms = Proof("MultiLogRecordProcessor_Shutdown", [("MultiLogRecordProcessor::Shutdown", 1)], enforce=MLS, timeout=300,
             desc="fan-out of Shutdown for any number of log processors: every registered processor exactly once, in order")
_pm = Proof("MultiLogRecordProcessor_ForceFlush", [("MultiLogRecordProcessor::ForceFlush", 1)], enforce=MLP, timeout=300,
            desc="fan-out of ForceFlush for any number of processors: every processor once, success exactly when all succeed")
_pm.tu = TU_MLP
_pm.pre_c = MLP_PRE
_pm.post_struct_c = MLP_POST
_pm.configure = _configure_mlp
_pm.own_config = True
_pm.contracts = contracts_mlp
proofs.append(_pm)
_pms.tu = TU_MLP
_pms.pre_c = MLP_PRE
_pms.post_struct_c = MLP_POST
_pms.configure = _configure_mlp
_pms.own_config = True
_pms.contracts = contracts_mlp
proofs.append(_pms)


LOG_SRCS = ["sdk/src/logs/multi_log_record_processor.cc", "sdk/src/logs/multi_recordable.cc", "sdk/src/logs/read_write_log_record.cc", "sdk/src/logs/readable_log_record.cc",
            "sdk/src/common/global_log_handler.cc", "sdk/src/common/env_variables.cc", "sdk/src/resource/resource.cc", "sdk/src/resource/resource_detector.cc", "sdk/src/version/version.cc"]


def refute_lff(mod, proof, violations, ix, workdir, seed):
    """directed native search on the real MultiLogRecordProcessor with mock processors: flush results x timeouts (default, zero, tiny, 1 s)"""
    import os, re as _re, subprocess
    binpath = R.build_native("c02_logs_native", [os.path.join(R.core.HERE, "replay", "c02_native.cc")] + [os.path.join(R.core.REPO, s) for s in LOG_SRCS], ["-O1", "-DXC_WITH_LOGS"])
    full = subprocess.run([binpath, "lsearch"], stdout=subprocess.PIPE, stderr=subprocess.STDOUT, text=True, timeout=300).stdout
    m = _re.findall(r"^FOUND (.*)$", full, _re.M)
    if not m:
        return None
    args = m[-1].split()
    r = R.native_check("c02_logs_native", ["c02_native.cc"], args, ["-O1", "-DXC_WITH_LOGS"], repo_sources=LOG_SRCS)
    r["input"] = {"driver_args": args, "meaning": "lff <one digit per processor: 1 = its ForceFlush succeeds> <timeout in microseconds, -1 = default>", "found_by": "directed native search (refute mode)"}
    return r if r["reproduced"] else None


refuters["MultiLogRecordProcessor_ForceFlush"] = refute_lff


# ---------------------------------------------------------------------------------------------
# "Shutdown ... shuts the exporter down exactly once however many times ... it is requested": the simple processors' Shutdown, one sequential call:
# the exporter's Shutdown is called exactly when this is the first Shutdown and there is an exporter; the latch is set afterwards in every case
from . import c03 as _c03
SD_PRE = r"""
unsigned long g_exp_shutdown_calls; int g_exp_shutdown_ret; long g_exp_shutdown_timeout;
static void xc_havoc_ghosts(void) { int r; g_exp_shutdown_calls = 0; g_exp_shutdown_ret = r; g_exp_shutdown_timeout = 0; }
static bool xc_exporter_Shutdown(long timeout) { g_exp_shutdown_calls++; g_exp_shutdown_timeout = timeout; return g_exp_shutdown_ret != 0; }
/* std::atomic<bool>::exchange / std::atomic_flag::test_and_set on a plain field (one call at a time) */
static bool xc_xchg_bool(bool *obj, bool v) { bool old = *obj; *obj = v; return old; }
unsigned long g_exp_ff_calls; int g_exp_ff_ret; long g_exp_ff_timeout;
static bool xc_exporter_ForceFlush(long timeout) { g_exp_ff_calls++; g_exp_ff_timeout = timeout; return g_exp_ff_ret != 0; }
"""


def _sd_types(em, base, targs, name):
    if base == "std::unique_ptr" and targs and targs[0].strip().split("::")[-1] in ("SpanExporter", "LogRecordExporter"):
        return CT("xc_handle")
    if name.split("::")[-1] == "atomic_flag":
        return CT("bool")
    return None


def _configure_sd(cfg):
    common.sdk_trace_boundary(cfg)
    common.chrono_boundary(cfg)
    cfg.type_handlers.insert(0, _sd_types)
    cfg.type_map["std::atomic_flag"] = "bool"
    cfg.opaque_records["common::SpinLockMutex"] = "xc_opaque"
    for pre in ("std::atomic::", "std::__atomic_base::", "std::atomic<bool>::"):
        cfg.ext_methods[pre + "exchange"] = lambda em, recv, args, n: "xc_xchg_bool(&(%s), %s)" % (recv, em.expr(args[0]))
        cfg.ext_methods[pre + "load"] = lambda em, recv, args, n: recv
    cfg.ext_methods["std::atomic_flag::test_and_set"] = lambda em, recv, args, n: "xc_xchg_bool(&(%s), 1)" % recv
    for k in ("std::unique_ptr::operator!=", "std::unique_ptr::operator=="):
        cfg.ext_methods[k] = (lambda o: (lambda em, recv, args, n: "(%s.id %s 0)" % (recv, o)))(k[-2:])
    cfg.ext_q["std::operator!="] = lambda em, node, recv, args: "(%s.id != 0)" % em.pexpr_post(args[0])
    cfg.ext_q["std::operator=="] = lambda em, node, recv, args: "(%s.id == 0)" % em.pexpr_post(args[0])
    cfg.ext_methods["std::unique_ptr::operator->"] = lambda em, recv, args, n: recv
    for exp in ("SpanExporter", "LogRecordExporter"):
        cfg.ext_q[exp + "::Shutdown"] = lambda em, node, recv, args: "xc_exporter_Shutdown(%s)" % em.expr(args[0])
        cfg.ext_q[exp + "::ForceFlush"] = lambda em, node, recv, args: "xc_exporter_ForceFlush(%s)" % em.expr(args[0])


def sd_contract(T, latch):
    L = "self->%s" % latch
    return {"pre": "__CPROVER_requires(__CPROVER_is_fresh(self, sizeof(%s)) && (%s == 0 || %s == 1))\n" % (T, L, L) +
            "__CPROVER_assigns(%s, g_exp_shutdown_calls, g_exp_shutdown_timeout)\n" % L +
            # the exporter is shut down by the first Shutdown only (if there is an exporter), with the caller's timeout; its answer is passed on
            "__CPROVER_ensures(g_exp_shutdown_calls == ((!__CPROVER_old(%s) && self->exporter_.id != 0) ? 1UL : 0UL))\n" % L +
            "__CPROVER_ensures(g_exp_shutdown_calls == 1 ==> (g_exp_shutdown_timeout == timeout && (__CPROVER_return_value != 0) == (g_exp_shutdown_ret != 0)))\n"
            "__CPROVER_ensures(g_exp_shutdown_calls == 0 ==> __CPROVER_return_value)\n"
            # afterwards the processor is shut down for good: a later Shutdown reaches the exporter no more
            "__CPROVER_ensures((__CPROVER_old(%s) || self->exporter_.id != 0) ==> %s)\n" % (L, L)}


def sff_contract(T):
    # "when ForceFlush returns true ... the exporter's own ForceFlush has been invoked": exactly one call with the caller's timeout if there is an
    # exporter, and its answer is what is reported; without an exporter there is nothing to flush
    return {"pre": "__CPROVER_requires(__CPROVER_is_fresh(self, sizeof(%s)) && g_exp_ff_calls == 0)\n" % T +
            "__CPROVER_assigns(g_exp_ff_calls, g_exp_ff_timeout)\n"
            "__CPROVER_ensures(g_exp_ff_calls == (self->exporter_.id != 0 ? 1UL : 0UL) && g_exp_shutdown_calls == __CPROVER_old(g_exp_shutdown_calls))\n"
            "__CPROVER_ensures(g_exp_ff_calls == 1 ==> (g_exp_ff_timeout == timeout && (__CPROVER_return_value != 0) == (g_exp_ff_ret != 0)))\n"
            "__CPROVER_ensures(g_exp_ff_calls == 0 ==> __CPROVER_return_value)\n"}


contracts_sd = {"SimpleLogRecordProcessor_ForceFlush": sff_contract("SimpleLogRecordProcessor"), "SimpleSpanProcessor_ForceFlush": sff_contract("SimpleSpanProcessor"),
                "SimpleLogRecordProcessor_Shutdown": sd_contract("SimpleLogRecordProcessor", "is_shutdown_"), "SimpleSpanProcessor_Shutdown": sd_contract("SimpleSpanProcessor", "shutdown_latch_")}
_psd = [Proof("SimpleLog_Shutdown_once", [("SimpleLogRecordProcessor::Shutdown", 1)], enforce="SimpleLogRecordProcessor_Shutdown", timeout=300, desc="the exporter is shut down by the first Shutdown only"),
        Proof("SimpleSpan_Shutdown_once", [("SimpleSpanProcessor::Shutdown", 1)], enforce="SimpleSpanProcessor_Shutdown", timeout=300, desc="the same for the span processor")]
_psd += [Proof("SimpleLog_ForceFlush", [("SimpleLogRecordProcessor::ForceFlush", 1)], enforce="SimpleLogRecordProcessor_ForceFlush", timeout=300, desc="ForceFlush reaches the exporter's ForceFlush exactly once with the caller's timeout and reports its answer"),
         Proof("SimpleSpan_ForceFlush", [("SimpleSpanProcessor::ForceFlush", 1)], enforce="SimpleSpanProcessor_ForceFlush", timeout=300, desc="the same for the span processor")]
_psd[2].tu = ("tu_simple_log", '#include "%s/sdk/src/logs/simple_log_record_processor.cc"\n' % R.core.REPO)
_psd[3].tu = ("tu_simple_span", '#include "%s/sdk/include/opentelemetry/sdk/trace/simple_processor.h"\n' % R.core.REPO)
_psd[0].tu = ("tu_simple_log", '#include "%s/sdk/src/logs/simple_log_record_processor.cc"\n' % R.core.REPO)
_psd[1].tu = ("tu_simple_span", '#include "%s/sdk/include/opentelemetry/sdk/trace/simple_processor.h"\n' % R.core.REPO)
for _p in _psd:
    _p.pre_c = SD_PRE
    _p.post_struct_c = ""
    _p.configure = _configure_sd
    _p.own_config = True
    _p.contracts = contracts_sd
proofs += _psd
