"""C01 - only the producer side of the batch processors as ONE sequential call: OnEnd / OnEmit offer the record to the queue exactly once, never
wait for the exporter, and a record is dropped only when the queue refuses it (or the processor is shut down). Together with CircularBuffer::Add
(./check C11: refuses exactly when full, else stores the element once) and the whole Export() (./check C03: drains the queue, hands every queued
slot to the exporter in batches) this is the sequential skeleton of "exactly once or dropped because the queue was at capacity".
The statement of C01 proper - every interleaving of producers, worker, ForceFlush and Shutdown; per-producer order - is NOT decided."""
from ..core import Proof
from .. import refute as R
from . import common
from . import c03 as _c03

prop_id = "C01"
tu_name = _c03.tu_name
tu_text = _c03.tu_text
spec_headers = ("xc_trace_boundary.h",)
pre_c = _c03.pre_c.replace("static void xc_cv_notify(void) { }", "unsigned long g_notify_calls;\nstatic void xc_cv_notify(void) { g_notify_calls++; }") + r"""
unsigned long g_add_calls, g_add_arg, g_size_calls; int g_add_ret; unsigned long g_size_after;
static void xc_havoc_producer(void) { int r; unsigned long s; g_add_calls = 0; g_add_arg = 0; g_size_calls = 0; g_add_ret = r; g_size_after = s; g_notify_calls = 0; }
/* CircularBuffer::Add(std::unique_ptr<T> &&) / size(): boundary (their own contracts: ./check C11) */
static bool xc_buf_Add(xc_handle *p) { g_add_calls++; g_add_arg = p->id; p->id = 0; return g_add_ret != 0; }        /* Add(&&) always empties the caller's pointer */
static unsigned long xc_buf_size(void) { g_size_calls++; return g_size_after; }
#define PROD_GHOSTS g_add_calls, g_add_arg, g_size_calls, g_notify_calls
"""
pre_c = pre_c.replace("static void xc_havoc_ghosts(void) {", "static void xc_havoc_producer(void); static void xc_havoc_ghosts(void) { xc_havoc_producer();")
post_struct_c = ""


def configure(cfg):
    _c03.configure(cfg)
    from ..xc.emit import CT

    def _up(em, base, targs, name):
        if base == "std::unique_ptr" and targs and targs[0].strip().split("::")[-1] == "Recordable":
            return CT("xc_handle")
        return None
    cfg.type_handlers.insert(0, _up)
    cfg.handle_ptr_records = ("Recordable",)
    cfg.ctor_ext["std::unique_ptr"] = common._handle_ctor
    cfg.ext_methods["std::unique_ptr::release"] = lambda em, recv, args, n: "({ xc_handle xc_r = %s; %s.id = 0; xc_r; })" % (recv, recv)
    for q in ("CircularBuffer<sdk::trace::Recordable>::Add", "CircularBuffer<sdk::logs::Recordable>::Add", "CircularBuffer::Add"):
        cfg.ext_q[q] = lambda em, node, recv, args: "xc_buf_Add(%s)" % em.addr_of(args[0])
    for q in ("CircularBuffer<sdk::trace::Recordable>::size", "CircularBuffer<sdk::logs::Recordable>::size", "CircularBuffer::size"):
        cfg.ext_q[q] = lambda em, node, recv, args: "xc_buf_size()"


def producer_contract(param, T):
    return {"pre":
        "__CPROVER_requires(__CPROVER_is_fresh(self, sizeof(%s)) && __CPROVER_is_fresh(self->synchronization_data_, sizeof(*self->synchronization_data_)) && __CPROVER_is_fresh(%s, sizeof(*%s)) && (self->synchronization_data_->is_shutdown == 0 || self->synchronization_data_->is_shutdown == 1))\n" % (T, param, param) +
        "__CPROVER_assigns(PROD_GHOSTS, *%s%s)\n" % (param, ", self->synchronization_data_->is_force_wakeup_background_worker" if "Log" in T else "") +
        # after Shutdown the call has no effect: the record is not queued
        "__CPROVER_ensures(self->synchronization_data_->is_shutdown ==> (g_add_calls == 0 && g_notify_calls == 0))\n"
        # otherwise the record is offered to the queue exactly once, and it is the caller's record
        "__CPROVER_ensures(!self->synchronization_data_->is_shutdown ==> (g_add_calls == 1 && g_add_arg == __CPROVER_old(%s->id)))\n" % param +
        # a refused record is dropped: nothing else happens (the producer neither retries nor waits)
        "__CPROVER_ensures((!self->synchronization_data_->is_shutdown && !g_add_ret) ==> g_notify_calls == 0)\n"
        # producers never wait: the only synchronisation is a wake-up of the worker, sent exactly when the queue is at least half full or holds a full batch
        "__CPROVER_ensures((!self->synchronization_data_->is_shutdown && g_add_ret) ==> (g_notify_calls == ((g_size_after >= self->max_queue_size_ / 2 || g_size_after >= self->max_export_batch_size_) ? 1UL : 0UL)))\n"}


contracts = {"BatchSpanProcessor_OnEnd": producer_contract("span", "BatchSpanProcessor"), "BatchLogRecordProcessor_OnEmit": producer_contract("record", "BatchLogRecordProcessor")}
proofs = [
    Proof("BatchSpanProcessor_OnEnd", [("BatchSpanProcessor::OnEnd", 1)], enforce="BatchSpanProcessor_OnEnd", timeout=300,
          desc="producer side: offered to the queue exactly once, dropped only when refused or shut down, never waits"),
    Proof("BatchLogRecordProcessor_OnEmit", [("BatchLogRecordProcessor::OnEmit", 1)], enforce="BatchLogRecordProcessor_OnEmit", timeout=300,
          desc="the same for log records"),
]
proofs[1].tu = _c03.TU_LOGS
trusted = ("std::atomic fields as plain fields (one call at a time)", "CircularBuffer::Add / size as ghost-recorded boundary calls (own contracts under C11)", "condition_variable::notify_all as a counted boundary call")
assumptions = ("ONLY the producer call (OnEnd / OnEmit) is decided, as one sequential call; every interleaving of producers with the worker's export cycles, ForceFlush and Shutdown, "
               "per-producer order and 'nothing is lost while the queue has room' under concurrency are NOT decided (no thread reasoning in function contracts)",
               "the chain 'queued exactly once -> exported exactly once' relies on ./check C11 (Add) and ./check C03 (whole Export()); Consume / ForEach are boundaries there")
not_covered = ("all interleavings (the property proper)", "per-producer FIFO order", "DrainQueue at shutdown", "the lock-free queue under concurrency")
refuters = {}


# the consumer side as one sequential call: the whole Export() of both processors (the proofs of ./check C03) also states the exactly-once hand-over:
# as many records are handed to the exporter as were taken from the queue, in every round, whatever the exporter returns
for _p in _c03._pfull:
    _p.contracts = {"BatchSpanProcessor_Export": _c03.contracts["BatchSpanProcessor_Export"], "BatchLogRecordProcessor_Export": _c03.contracts["BatchLogRecordProcessor_Export"]}
    proofs.append(_p)
    refuters[_p.name] = _c03.refute_native
