"""C04 - span typestate: End takes effect once, nothing is recorded or exported after End (sdk/src/trace/span.cc)."""
from ..core import Proof
from .. import refute as R
from . import common

prop_id = "C04"
tu_name = "tu_span"
tu_text = '#include "%s/sdk/src/trace/span.cc"\n' % R.core.REPO
spec_headers = ("xc_trace_boundary.h",)
force_records = ("nostd::string_view", "common::SystemTimestamp")
pre_c = r"""
enum { OP_SetAttribute = 1, OP_AddEvent, OP_SetStatus, OP_SetName, OP_SetDuration };
/* ghost record of the calls made on the recordable and on the processor */
unsigned long g_rec_n;        /* number of calls made on a recordable */
unsigned long g_rec_h;        /* the recordable of the last call */
int g_rec_op;                 /* which call */
const char *g_rec_sv_data; unsigned long g_rec_sv_len;   /* its string_view argument (name / key / description) */
const void *g_rec_p;          /* its by-reference argument (attribute value / attributes) */
long g_rec_ts; int g_rec_has_ts;                        /* its timestamp argument */
long g_rec_i;                 /* status code / duration */
unsigned long g_onend_n;      /* number of SpanProcessor::OnEnd calls */
unsigned long g_onend_h;      /* the recordable handed over */
unsigned long g_onend_proc;   /* the processor it was handed to */
unsigned long g_onend_after;  /* number of recordable calls made before the hand-over */
unsigned long g_proc_id;      /* the processor of the span's tracer */
long g_steady_now, g_now;
static void xc_havoc_ghosts(void)
{
  unsigned long a, b, c, d, e, f, g; long s, t;
  g_rec_n = a; g_rec_h = b; g_onend_n = c; g_onend_h = d; g_onend_proc = e; g_onend_after = f; g_proc_id = g; g_steady_now = s; g_now = t;
  g_rec_op = 0; g_rec_sv_data = 0; g_rec_sv_len = 0; g_rec_p = 0; g_rec_ts = 0; g_rec_has_ts = 0; g_rec_i = 0;
}
/* representation invariant of sdk::trace::Span: an ended span holds no recordable */
#define WF_SPAN(s) (!(s)->has_ended_ || (s)->recordable_.id == 0)
#define UNCHANGED_SPAN(s) ((s)->recordable_.id == __CPROVER_old((s)->recordable_.id) && (s)->has_ended_ == __CPROVER_old((s)->has_ended_) && \
   (s)->tracer_.id == __CPROVER_old((s)->tracer_.id) && (s)->start_steady_time.nanos_since_epoch_ == __CPROVER_old((s)->start_steady_time.nanos_since_epoch_))
#define NO_CALLS (g_rec_n == __CPROVER_old(g_rec_n) && g_onend_n == __CPROVER_old(g_onend_n))
#define ONE_REC_CALL(op) (g_rec_n == __CPROVER_old(g_rec_n) + 1 && g_onend_n == __CPROVER_old(g_onend_n) && g_rec_op == (op) && g_rec_h == self->recordable_.id)
#define GHOSTS g_rec_n, g_rec_h, g_rec_op, g_rec_sv_data, g_rec_sv_len, g_rec_p, g_rec_ts, g_rec_has_ts, g_rec_i, g_onend_n, g_onend_h, g_onend_proc, g_onend_after
"""
post_struct_c = r"""
static void xc_rec(xc_handle r, int op, string_view sv, const void *p, int has_ts, long ts, long i)
{
  g_rec_n++; g_rec_h = r.id; g_rec_op = op; g_rec_sv_data = sv.data_; g_rec_sv_len = sv.length_; g_rec_p = p; g_rec_has_ts = has_ts; g_rec_ts = ts; g_rec_i = i;
}
static const string_view xc_no_sv = {0, 0};
static void xc_rec_SetAttribute_sp(xc_handle r, string_view key, const xc_opaque *value) { xc_rec(r, OP_SetAttribute, key, value, 0, 0, 0); }
static void xc_rec_AddEvent_s(xc_handle r, string_view name) { xc_rec(r, OP_AddEvent, name, 0, 0, 0, 0); }
static void xc_rec_AddEvent_st(xc_handle r, string_view name, SystemTimestamp ts) { xc_rec(r, OP_AddEvent, name, 0, 1, ts.nanos_since_epoch_, 0); }
static void xc_rec_AddEvent_sp(xc_handle r, string_view name, const xc_opaque *attrs) { xc_rec(r, OP_AddEvent, name, attrs, 0, 0, 0); }
static void xc_rec_AddEvent_stp(xc_handle r, string_view name, SystemTimestamp ts, const xc_opaque *attrs) { xc_rec(r, OP_AddEvent, name, attrs, 1, ts.nanos_since_epoch_, 0); }
static void xc_rec_SetStatus_is(xc_handle r, int code, string_view description) { xc_rec(r, OP_SetStatus, description, 0, 0, 0, code); }
static void xc_rec_SetName_s(xc_handle r, string_view name) { xc_rec(r, OP_SetName, name, 0, 0, 0, 0); }
static void xc_rec_SetDuration_i(xc_handle r, long d) { xc_rec(r, OP_SetDuration, xc_no_sv, 0, 0, 0, d); }
static xc_handle xc_tracer_GetProcessor(xc_handle tracer) { xc_handle h; h.id = g_proc_id; return h; }
static void xc_proc_OnEnd(xc_handle proc, xc_handle rec) { g_onend_n++; g_onend_h = rec.id; g_onend_proc = proc.id; g_onend_after = g_rec_n; }
static long xc_steady_now(void) { return g_steady_now; }
static long xc_now(void) { return g_now; }
"""


def configure(cfg):
    common.sdk_trace_boundary(cfg)
    common.chrono_boundary(cfg)
    common.span_boundary(cfg)
    cfg.value_classes |= {"string_view"}
    cfg.cnames_sig = tuple(getattr(cfg, "cnames_sig", ())) + (
        ("Span::AddEvent", "(nostd::string_view, common::SystemTimestamp, const common::KeyValueIterable", "Span_AddEvent_stp"),
        ("Span::AddEvent", "(nostd::string_view, common::SystemTimestamp)", "Span_AddEvent_st"),
        ("Span::AddEvent", "(nostd::string_view, const common::KeyValueIterable", "Span_AddEvent_sp"),
        ("Span::AddEvent", "(nostd::string_view)", "Span_AddEvent_s"),
    )


FRESH = "__CPROVER_requires(__CPROVER_is_fresh(self, sizeof(Span)) && WF_SPAN(self))\n"


def mutator(op, args_ok):
    # property: a mutator on an ended (or non-recording) span changes nothing and records nothing; on a recording span it is passed
    # on to the recordable exactly once with the caller's arguments; the span's own state never changes
    return {"pre": FRESH +
            "__CPROVER_assigns(GHOSTS)\n"
            "__CPROVER_ensures(UNCHANGED_SPAN(self) && WF_SPAN(self))\n"
            "__CPROVER_ensures(self->recordable_.id == 0 ==> NO_CALLS)\n"
            "__CPROVER_ensures(self->recordable_.id != 0 ==> (ONE_REC_CALL(%s) && %s))\n" % (op, args_ok)}


SV = lambda a: "g_rec_sv_data == %s.data_ && g_rec_sv_len == %s.length_" % (a, a)
contracts = {
    "Span_SetAttribute": mutator("OP_SetAttribute", SV("key") + " && g_rec_p == value"),
    "Span_AddEvent_s": mutator("OP_AddEvent", SV("name") + " && g_rec_p == 0 && !g_rec_has_ts"),
    "Span_AddEvent_st": mutator("OP_AddEvent", SV("name") + " && g_rec_p == 0 && g_rec_has_ts && g_rec_ts == timestamp.nanos_since_epoch_"),
    "Span_AddEvent_sp": mutator("OP_AddEvent", SV("name") + " && g_rec_p == attributes && !g_rec_has_ts"),
    "Span_AddEvent_stp": mutator("OP_AddEvent", SV("name") + " && g_rec_p == attributes && g_rec_has_ts && g_rec_ts == timestamp.nanos_since_epoch_"),
    "Span_SetStatus": mutator("OP_SetStatus", SV("description") + " && g_rec_i == code"),
    "Span_UpdateName": mutator("OP_SetName", SV("name")),
    "Span_IsRecording": {"pre": FRESH + "__CPROVER_assigns()\n__CPROVER_ensures(__CPROVER_return_value == (self->recordable_.id != 0))\n"},
    # End takes effect once: the first End of a recording span sets the duration (end - start, end = the given end time or now), hands the
    # recordable to the tracer's processor exactly once and drops it; any later End, and End of a non-recording span, calls nothing
    "Span_End": {"pre": FRESH +
        "__CPROVER_requires(__CPROVER_is_fresh(options, sizeof(EndSpanOptions)))\n"
        "__CPROVER_requires(self->start_steady_time.nanos_since_epoch_ >= 0 && options->end_steady_time.nanos_since_epoch_ >= 0 && g_steady_now >= 0)\n"
        "__CPROVER_assigns(GHOSTS, self->has_ended_, self->recordable_)\n"
        "__CPROVER_ensures(self->has_ended_ && self->recordable_.id == 0 && WF_SPAN(self))\n"
        "__CPROVER_ensures(self->tracer_.id == __CPROVER_old(self->tracer_.id) && self->start_steady_time.nanos_since_epoch_ == __CPROVER_old(self->start_steady_time.nanos_since_epoch_))\n"
        "__CPROVER_ensures((__CPROVER_old(self->has_ended_) || __CPROVER_old(self->recordable_.id) == 0) ==> NO_CALLS)\n"
        "__CPROVER_ensures((!__CPROVER_old(self->has_ended_) && __CPROVER_old(self->recordable_.id) != 0) ==> ("
        "g_onend_n == __CPROVER_old(g_onend_n) + 1 && g_onend_h == __CPROVER_old(self->recordable_.id) && g_onend_proc == g_proc_id && "
        "g_rec_n == __CPROVER_old(g_rec_n) + 1 && g_onend_after == g_rec_n && g_rec_op == OP_SetDuration && g_rec_h == __CPROVER_old(self->recordable_.id) && "
        "g_rec_i == (options->end_steady_time.nanos_since_epoch_ != 0 ? options->end_steady_time.nanos_since_epoch_ : g_steady_now) - self->start_steady_time.nanos_since_epoch_))\n"},
}

# the typestate statement itself, over the real bodies (loop free, fully symbolic: a complete proof): after End, any further operation
# (chosen arbitrarily) makes no call on a recordable or a processor and leaves the span as it is
H_AFTER_END = r"""
void h_Lemma_nothing_after_End(void)
{
  Span s; EndSpanOptions o1, o2;
  string_view sv; xc_opaque av; xc_opaque attrs; SystemTimestamp ts; int code; int which;
  xc_havoc_ghosts();
  __CPROVER_assume(WF_SPAN(&s));
  __CPROVER_assume(s.start_steady_time.nanos_since_epoch_ >= 0 && o1.end_steady_time.nanos_since_epoch_ >= 0 && o2.end_steady_time.nanos_since_epoch_ >= 0 && g_steady_now >= 0);
  unsigned long onend0 = g_onend_n;
  int was_recording = s.recordable_.id != 0 && !s.has_ended_;
  Span_End(&s, &o1);
  __CPROVER_assert(g_onend_n == onend0 + (was_recording ? 1 : 0), "End exports a recording span exactly once");
  unsigned long rec1 = g_rec_n, onend1 = g_onend_n;
  Span before = s;
  switch (which)
  {
    case 0: Span_End(&s, &o2); break;
    case 1: Span_SetAttribute(&s, sv, &av); break;
    case 2: Span_AddEvent_s(&s, sv); break;
    case 3: Span_AddEvent_st(&s, sv, ts); break;
    case 4: Span_AddEvent_sp(&s, sv, &attrs); break;
    case 5: Span_AddEvent_stp(&s, sv, ts, &attrs); break;
    case 6: Span_SetStatus(&s, code, sv); break;
    case 7: Span_UpdateName(&s, sv); break;
    default: __CPROVER_assert(!Span_IsRecording(&s), "an ended span is not recording"); break;
  }
  __CPROVER_assert(g_rec_n == rec1, "no call reaches a recordable after End");
  __CPROVER_assert(g_onend_n == onend1, "nothing more is exported after End");
  __CPROVER_assert(s.has_ended_ && s.recordable_.id == 0 && s.tracer_.id == before.tracer_.id, "the ended span is unchanged");
  __CPROVER_assert(0, "XC_CANARY end of harness reachable");
}
"""
ALL = [("sdk::trace::Span::End", 1), ("sdk::trace::Span::SetAttribute", 2), ("sdk::trace::Span::AddEvent", 1), ("sdk::trace::Span::AddEvent", 2, "SystemTimestamp)"),
       ("sdk::trace::Span::AddEvent", 2, "KeyValueIterable"), ("sdk::trace::Span::AddEvent", 3), ("sdk::trace::Span::SetStatus", 2), ("sdk::trace::Span::UpdateName", 1),
       ("sdk::trace::Span::IsRecording", 0)]
proofs = [
    Proof("Span_End", [ALL[0]], enforce="Span_End"),
    Proof("Span_SetAttribute", [ALL[1]], enforce="Span_SetAttribute"),
    Proof("Span_AddEvent_s", [ALL[2]], enforce="Span_AddEvent_s"),
    Proof("Span_AddEvent_st", [ALL[3]], enforce="Span_AddEvent_st"),
    Proof("Span_AddEvent_sp", [ALL[4]], enforce="Span_AddEvent_sp"),
    Proof("Span_AddEvent_stp", [ALL[5]], enforce="Span_AddEvent_stp"),
    Proof("Span_SetStatus", [ALL[6]], enforce="Span_SetStatus"),
    Proof("Span_UpdateName", [ALL[7]], enforce="Span_UpdateName"),
    Proof("Span_IsRecording", [ALL[8]], enforce="Span_IsRecording"),
    Proof("Lemma_nothing_after_End", ALL, harness=H_AFTER_END, loop_contracts=False, unwind=2,
          complete_unwind_note="loop free: End followed by one arbitrary operation on a fully symbolic span", desc="typestate: nothing is recorded or exported after End"),
]
trusted = ("std::lock_guard<std::mutex> dropped (one call at a time)", "recordable / tracer / processor as handles whose calls are ghost-recorded",
           "steady_clock::now() = any non-negative value")
assumptions = (
    "only the typestate half of C04 is under contract (End once; mutators after End change and export nothing; every mutator of a recording span "
    "reaches the recordable exactly once with the caller's arguments); what the recordable stores (last-write-wins attributes, owned copies, "
    "events/links in order), the Span constructor, MultiSpanProcessor fan-out and calls from several threads are NOT covered",
    "timestamps are non-negative (so end - start cannot overflow)",
)
not_covered = ("SpanData / AttributeConverter (owned copies, last write wins)", "Span constructor (name, kind, start time, links)", "MultiSpanProcessor", "operations from several threads on one span (mutex dropped)")

import glob as _glob
import os as _os


def _repo_sources():
    r = R.core.REPO
    pats = ["sdk/src/trace/*.cc", "sdk/src/trace/samplers/*.cc", "sdk/src/common/*.cc", "sdk/src/common/platform/fork_unix.cc",
            "sdk/src/resource/*.cc", "sdk/src/version/*.cc"]
    out = []
    for p in pats:
        out += sorted(_os.path.relpath(f, r) for f in _glob.glob(_os.path.join(r, p)))
    return out


def refute_search(mod, proof, violations, ix, workdir, seed):
    """directed native search on a real span: record, End, then each operation once more (a crash is a violation too)"""
    import subprocess
    srcs = _repo_sources()
    binpath = R.build_native("c04_native", [_os.path.join(R.core.HERE, "replay", "c04_native.cc")] + [_os.path.join(R.core.REPO, s) for s in srcs])
    pref = {"Span_End": 0, "Span_SetAttribute": 1, "Span_AddEvent_s": 2, "Span_AddEvent_st": 3, "Span_AddEvent_sp": 4, "Span_AddEvent_stp": 5,
            "Span_SetStatus": 6, "Span_UpdateName": 7, "Span_IsRecording": 8}.get(proof.name)
    for op in ([pref] if pref is not None else []) + [o for o in range(9) if o != pref]:
        rc, out = R.run_native(binpath, ["after_end", op])
        if rc != 0 and rc != 2:
            r = R.native_check("c04_native", ["c04_native.cc"], ["after_end", op], repo_sources=srcs)
            r["input"] = {"driver_args": ["after_end", op], "meaning": "SetAttribute/AddEvent/SetStatus/UpdateName, End, then operation <n> "
                          "(0 End, 1 SetAttribute, 2-5 AddEvent variants, 6 SetStatus, 7 UpdateName, 8 IsRecording), then destruction",
                          "found_by": "directed native search (refute mode)"}
            if rc < 0:
                r["native_output"] = (r.get("native_output", "") + " [terminated by signal %d]" % -rc).strip()
            return r if r["reproduced"] else None
    return None


refuters = {p.name: refute_search for p in proofs}
