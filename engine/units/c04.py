"""C04 - span typestate: End takes effect once, nothing is recorded or exported after End (sdk/src/trace/span.cc)."""
from ..core import Proof
from .. import refute as R
from . import common

prop_id = "C04"
tu_name = "tu_span"
tu_text = '#include "%s/sdk/src/trace/span.cc"\n' % R.core.REPO
spec_headers = ("xc_trace_boundary.h",)
force_records = ("nostd::string_view", "common::SystemTimestamp")
pre_c = r"""
enum { OP_SetAttribute = 1, OP_AddEvent, OP_SetStatus, OP_SetName, OP_SetDuration };
/* ghost record of the calls made on the recordable and on the processor */
unsigned long g_rec_n;        /* number of calls made on a recordable */
unsigned long g_rec_h;        /* the recordable of the last call */
int g_rec_op;                 /* which call */
const char *g_rec_sv_data; unsigned long g_rec_sv_len;   /* its string_view argument (name / key / description) */
const void *g_rec_p;          /* its by-reference argument (attribute value / attributes) */
long g_rec_ts; int g_rec_has_ts;                        /* its timestamp argument */
long g_rec_i;                 /* status code / duration */
unsigned long g_onend_n;      /* number of SpanProcessor::OnEnd calls */
unsigned long g_onend_h;      /* the recordable handed over */
unsigned long g_onend_proc;   /* the processor it was handed to */
unsigned long g_onend_after;  /* number of recordable calls made before the hand-over */
unsigned long g_proc_id;      /* the processor of the span's tracer */
long g_steady_now, g_now;
static void xc_havoc_ghosts(void)
{
  unsigned long a, b, c, d, e, f, g; long s, t;
  g_rec_n = a; g_rec_h = b; g_onend_n = c; g_onend_h = d; g_onend_proc = e; g_onend_after = f; g_proc_id = g; g_steady_now = s; g_now = t;
  g_rec_op = 0; g_rec_sv_data = 0; g_rec_sv_len = 0; g_rec_p = 0; g_rec_ts = 0; g_rec_has_ts = 0; g_rec_i = 0;
}
/* representation invariant of sdk::trace::Span: an ended span holds no recordable */
#define WF_SPAN(s) (!(s)->has_ended_ || (s)->recordable_.id == 0)
#define UNCHANGED_SPAN(s) ((s)->recordable_.id == __CPROVER_old((s)->recordable_.id) && (s)->has_ended_ == __CPROVER_old((s)->has_ended_) && \
   (s)->tracer_.id == __CPROVER_old((s)->tracer_.id) && (s)->start_steady_time.nanos_since_epoch_ == __CPROVER_old((s)->start_steady_time.nanos_since_epoch_))
#define NO_CALLS (g_rec_n == __CPROVER_old(g_rec_n) && g_onend_n == __CPROVER_old(g_onend_n))
#define ONE_REC_CALL(op) (g_rec_n == __CPROVER_old(g_rec_n) + 1 && g_onend_n == __CPROVER_old(g_onend_n) && g_rec_op == (op) && g_rec_h == self->recordable_.id)
#define GHOSTS g_rec_n, g_rec_h, g_rec_op, g_rec_sv_data, g_rec_sv_len, g_rec_p, g_rec_ts, g_rec_has_ts, g_rec_i, g_onend_n, g_onend_h, g_onend_proc, g_onend_after
"""
post_struct_c = r"""
static void xc_rec(xc_handle r, int op, string_view sv, const void *p, int has_ts, long ts, long i)
{
  g_rec_n++; g_rec_h = r.id; g_rec_op = op; g_rec_sv_data = sv.data_; g_rec_sv_len = sv.length_; g_rec_p = p; g_rec_has_ts = has_ts; g_rec_ts = ts; g_rec_i = i;
}
static const string_view xc_no_sv = {0, 0};
static void xc_rec_SetAttribute_sp(xc_handle r, string_view key, const xc_opaque *value) { xc_rec(r, OP_SetAttribute, key, value, 0, 0, 0); }
static void xc_rec_AddEvent_s(xc_handle r, string_view name) { xc_rec(r, OP_AddEvent, name, 0, 0, 0, 0); }
static void xc_rec_AddEvent_st(xc_handle r, string_view name, SystemTimestamp ts) { xc_rec(r, OP_AddEvent, name, 0, 1, ts.nanos_since_epoch_, 0); }
static void xc_rec_AddEvent_sp(xc_handle r, string_view name, const xc_opaque *attrs) { xc_rec(r, OP_AddEvent, name, attrs, 0, 0, 0); }
static void xc_rec_AddEvent_stp(xc_handle r, string_view name, SystemTimestamp ts, const xc_opaque *attrs) { xc_rec(r, OP_AddEvent, name, attrs, 1, ts.nanos_since_epoch_, 0); }
static void xc_rec_SetStatus_is(xc_handle r, int code, string_view description) { xc_rec(r, OP_SetStatus, description, 0, 0, 0, code); }
static void xc_rec_SetName_s(xc_handle r, string_view name) { xc_rec(r, OP_SetName, name, 0, 0, 0, 0); }
static void xc_rec_SetDuration_i(xc_handle r, long d) { xc_rec(r, OP_SetDuration, xc_no_sv, 0, 0, 0, d); }
static xc_handle xc_tracer_GetProcessor(xc_handle tracer) { xc_handle h; h.id = g_proc_id; return h; }
static void xc_proc_OnEnd(xc_handle proc, xc_handle rec) { g_onend_n++; g_onend_h = rec.id; g_onend_proc = proc.id; g_onend_after = g_rec_n; }
static long xc_steady_now(void) { return g_steady_now; }
static long xc_now(void) { return g_now; }
"""


def configure(cfg):
    common.sdk_trace_boundary(cfg)
    common.chrono_boundary(cfg)
    common.span_boundary(cfg)
    cfg.value_classes |= {"string_view"}
    cfg.cnames_sig = tuple(getattr(cfg, "cnames_sig", ())) + (
        ("Span::AddEvent", "(nostd::string_view, common::SystemTimestamp, const common::KeyValueIterable", "Span_AddEvent_stp"),
        ("Span::AddEvent", "(nostd::string_view, common::SystemTimestamp)", "Span_AddEvent_st"),
        ("Span::AddEvent", "(nostd::string_view, const common::KeyValueIterable", "Span_AddEvent_sp"),
        ("Span::AddEvent", "(nostd::string_view)", "Span_AddEvent_s"),
    )


FRESH = "__CPROVER_requires(__CPROVER_is_fresh(self, sizeof(Span)) && WF_SPAN(self))\n"


def mutator(op, args_ok):
    # property: a mutator on an ended (or non-recording) span changes nothing and records nothing; on a recording span it is passed
    # on to the recordable exactly once with the caller's arguments; the span's own state never changes
    return {"pre": FRESH +
            "__CPROVER_assigns(GHOSTS)\n"
            "__CPROVER_ensures(UNCHANGED_SPAN(self) && WF_SPAN(self))\n"
            "__CPROVER_ensures(self->recordable_.id == 0 ==> NO_CALLS)\n"
            "__CPROVER_ensures(self->recordable_.id != 0 ==> (ONE_REC_CALL(%s) && %s))\n" % (op, args_ok)}


SV = lambda a: "g_rec_sv_data == %s.data_ && g_rec_sv_len == %s.length_" % (a, a)
contracts = {
    "Span_SetAttribute": mutator("OP_SetAttribute", SV("key") + " && g_rec_p == value"),
    "Span_AddEvent_s": mutator("OP_AddEvent", SV("name") + " && g_rec_p == 0 && !g_rec_has_ts"),
    "Span_AddEvent_st": mutator("OP_AddEvent", SV("name") + " && g_rec_p == 0 && g_rec_has_ts && g_rec_ts == timestamp.nanos_since_epoch_"),
    "Span_AddEvent_sp": mutator("OP_AddEvent", SV("name") + " && g_rec_p == attributes && !g_rec_has_ts"),
    "Span_AddEvent_stp": mutator("OP_AddEvent", SV("name") + " && g_rec_p == attributes && g_rec_has_ts && g_rec_ts == timestamp.nanos_since_epoch_"),
    "Span_SetStatus": mutator("OP_SetStatus", SV("description") + " && g_rec_i == code"),
    "Span_UpdateName": mutator("OP_SetName", SV("name")),
    "Span_IsRecording": {"pre": FRESH + "__CPROVER_assigns()\n__CPROVER_ensures(__CPROVER_return_value == (self->recordable_.id != 0))\n"},
    # End takes effect once: the first End of a recording span sets the duration (end - start, end = the given end time or now), hands the
    # recordable to the tracer's processor exactly once and drops it; any later End, and End of a non-recording span, calls nothing
    "Span_End": {"pre": FRESH +
        "__CPROVER_requires(__CPROVER_is_fresh(options, sizeof(EndSpanOptions)))\n"
        "__CPROVER_requires(self->start_steady_time.nanos_since_epoch_ >= 0 && options->end_steady_time.nanos_since_epoch_ >= 0 && g_steady_now >= 0)\n"
        "__CPROVER_assigns(GHOSTS, self->has_ended_, self->recordable_)\n"
        "__CPROVER_ensures(self->has_ended_ && self->recordable_.id == 0 && WF_SPAN(self))\n"
        "__CPROVER_ensures(self->tracer_.id == __CPROVER_old(self->tracer_.id) && self->start_steady_time.nanos_since_epoch_ == __CPROVER_old(self->start_steady_time.nanos_since_epoch_))\n"
        "__CPROVER_ensures((__CPROVER_old(self->has_ended_) || __CPROVER_old(self->recordable_.id) == 0) ==> NO_CALLS)\n"
        "__CPROVER_ensures((!__CPROVER_old(self->has_ended_) && __CPROVER_old(self->recordable_.id) != 0) ==> ("
        "g_onend_n == __CPROVER_old(g_onend_n) + 1 && g_onend_h == __CPROVER_old(self->recordable_.id) && g_onend_proc == g_proc_id && "
        "g_rec_n == __CPROVER_old(g_rec_n) + 1 && g_onend_after == g_rec_n && g_rec_op == OP_SetDuration && g_rec_h == __CPROVER_old(self->recordable_.id) && "
        "g_rec_i == (options->end_steady_time.nanos_since_epoch_ != 0 ? options->end_steady_time.nanos_since_epoch_ : g_steady_now) - self->start_steady_time.nanos_since_epoch_))\n"},
}

# the typestate statement itself, over the real bodies (loop free, fully symbolic: a complete proof): after End, any further operation
# (chosen arbitrarily) makes no call on a recordable or a processor and leaves the span as it is
H_AFTER_END = r"""
void h_Lemma_nothing_after_End(void)
{
  Span s; EndSpanOptions o1, o2;
  string_view sv; xc_opaque av; xc_opaque attrs; SystemTimestamp ts; int code; int which;
  xc_havoc_ghosts();
  __CPROVER_assume(WF_SPAN(&s));
  __CPROVER_assume(s.start_steady_time.nanos_since_epoch_ >= 0 && o1.end_steady_time.nanos_since_epoch_ >= 0 && o2.end_steady_time.nanos_since_epoch_ >= 0 && g_steady_now >= 0);
  unsigned long onend0 = g_onend_n;
  int was_recording = s.recordable_.id != 0 && !s.has_ended_;
  Span_End(&s, &o1);
  __CPROVER_assert(g_onend_n == onend0 + (was_recording ? 1 : 0), "End exports a recording span exactly once");
  unsigned long rec1 = g_rec_n, onend1 = g_onend_n;
  Span before = s;
  switch (which)
  {
    case 0: Span_End(&s, &o2); break;
    case 1: Span_SetAttribute(&s, sv, &av); break;
    case 2: Span_AddEvent_s(&s, sv); break;
    case 3: Span_AddEvent_st(&s, sv, ts); break;
    case 4: Span_AddEvent_sp(&s, sv, &attrs); break;
    case 5: Span_AddEvent_stp(&s, sv, ts, &attrs); break;
    case 6: Span_SetStatus(&s, code, sv); break;
    case 7: Span_UpdateName(&s, sv); break;
    default: __CPROVER_assert(!Span_IsRecording(&s), "an ended span is not recording"); break;
  }
  __CPROVER_assert(g_rec_n == rec1, "no call reaches a recordable after End");
  __CPROVER_assert(g_onend_n == onend1, "nothing more is exported after End");
  __CPROVER_assert(s.has_ended_ && s.recordable_.id == 0 && s.tracer_.id == before.tracer_.id, "the ended span is unchanged");
  __CPROVER_assert(0, "XC_CANARY end of harness reachable");
}
"""
ALL = [("sdk::trace::Span::End", 1), ("sdk::trace::Span::SetAttribute", 2), ("sdk::trace::Span::AddEvent", 1), ("sdk::trace::Span::AddEvent", 2, "SystemTimestamp)"),
       ("sdk::trace::Span::AddEvent", 2, "KeyValueIterable"), ("sdk::trace::Span::AddEvent", 3), ("sdk::trace::Span::SetStatus", 2), ("sdk::trace::Span::UpdateName", 1),
       ("sdk::trace::Span::IsRecording", 0)]
proofs = [
    Proof("Span_End", [ALL[0]], enforce="Span_End"),
    Proof("Span_SetAttribute", [ALL[1]], enforce="Span_SetAttribute"),
    Proof("Span_AddEvent_s", [ALL[2]], enforce="Span_AddEvent_s"),
    Proof("Span_AddEvent_st", [ALL[3]], enforce="Span_AddEvent_st"),
    Proof("Span_AddEvent_sp", [ALL[4]], enforce="Span_AddEvent_sp"),
    Proof("Span_AddEvent_stp", [ALL[5]], enforce="Span_AddEvent_stp"),
    Proof("Span_SetStatus", [ALL[6]], enforce="Span_SetStatus"),
    Proof("Span_UpdateName", [ALL[7]], enforce="Span_UpdateName"),
    Proof("Span_IsRecording", [ALL[8]], enforce="Span_IsRecording"),
    Proof("Lemma_nothing_after_End", ALL, harness=H_AFTER_END, loop_contracts=False, unwind=2,
          complete_unwind_note="loop free: End followed by one arbitrary operation on a fully symbolic span", desc="typestate: nothing is recorded or exported after End"),
]
trusted = ("std::lock_guard<std::mutex> dropped (one call at a time)", "recordable / tracer / processor as handles whose calls are ghost-recorded",
           "steady_clock::now() = any non-negative value")
assumptions = (
    "only the typestate half of C04 is under contract (End once; mutators after End change and export nothing; every mutator of a recording span "
    "reaches the recordable exactly once with the caller's arguments); what the recordable stores (last-write-wins attributes, owned copies, "
    "events/links in order), the Span constructor, MultiSpanProcessor fan-out and calls from several threads are NOT covered",
    "timestamps are non-negative (so end - start cannot overflow)",
)
not_covered = ("SpanData / AttributeConverter (owned copies, last write wins)", "Span constructor (name, kind, start time, links)", "MultiSpanProcessor", "operations from several threads on one span (mutex dropped)")

import glob as _glob
import os as _os


def _repo_sources():
    r = R.core.REPO
    pats = ["sdk/src/trace/*.cc", "sdk/src/trace/samplers/*.cc", "sdk/src/common/*.cc", "sdk/src/common/platform/fork_unix.cc",
            "sdk/src/resource/*.cc", "sdk/src/version/*.cc"]
    out = []
    for p in pats:
        out += sorted(_os.path.relpath(f, r) for f in _glob.glob(_os.path.join(r, p)))
    return out


def refute_search(mod, proof, violations, ix, workdir, seed):
    """directed native search on a real span: record, End, then each operation once more (a crash is a violation too)"""
    import subprocess
    srcs = _repo_sources()
    binpath = R.build_native("c04_native", [_os.path.join(R.core.HERE, "replay", "c04_native.cc")] + [_os.path.join(R.core.REPO, s) for s in srcs])
    pref = {"Span_End": 0, "Span_SetAttribute": 1, "Span_AddEvent_s": 2, "Span_AddEvent_st": 3, "Span_AddEvent_sp": 4, "Span_AddEvent_stp": 5,
            "Span_SetStatus": 6, "Span_UpdateName": 7, "Span_IsRecording": 8}.get(proof.name)
    for op in ([pref] if pref is not None else []) + [o for o in range(9) if o != pref]:
        rc, out = R.run_native(binpath, ["after_end", op])
        if rc != 0 and rc != 2:
            r = R.native_check("c04_native", ["c04_native.cc"], ["after_end", op], repo_sources=srcs)
            r["input"] = {"driver_args": ["after_end", op], "meaning": "SetAttribute/AddEvent/SetStatus/UpdateName, End, then operation <n> "
                          "(0 End, 1 SetAttribute, 2-5 AddEvent variants, 6 SetStatus, 7 UpdateName, 8 IsRecording), then destruction",
                          "found_by": "directed native search (refute mode)"}
            if rc < 0:
                r["native_output"] = (r.get("native_output", "") + " [terminated by signal %d]" % -rc).strip()
            return r if r["reproduced"] else None
    return None


refuters = {p.name: refute_search for p in proofs}


# ---------------------------------------------------------------------------------------------
# SpanData, the recordable the SDK's exporters receive (sdk/include/opentelemetry/sdk/trace/span_data.h): "what each exporter receives is
# exactly the name (last UpdateName) ... the status ... set before End - as owned copies": every setter stores exactly its argument
# (overwriting what an earlier call stored) and touches nothing else; strings are copied into storage the recordable owns.
TU_SD = ("tu_span_data", '#include "opentelemetry/sdk/trace/span_data.h"\n')
SD_PRE = r"""
size_t g_k;
/* ghost record of boundary calls */
unsigned long g_amap_calls; const void *g_amap_self; const char *g_amap_key_data; unsigned long g_amap_key_len; const void *g_amap_value;
unsigned long g_push_calls; const void *g_push_vec;
/* snapshot of the element handed to std::vector::push_back (content, not a pointer into a dead object) */
const char *g_ev_name_data; unsigned long g_ev_name_len; long g_ev_ts; const void *g_ev_attrs; unsigned long g_attr_ctor_calls; const void *g_attr_ctor_src;
static void xc_havoc_ghosts(void) { size_t a; unsigned long b, c, d; g_k = a; g_amap_calls = b; g_push_calls = c; g_attr_ctor_calls = d;
  g_amap_self = 0; g_amap_key_data = 0; g_amap_key_len = 0; g_amap_value = 0; g_push_vec = 0; g_ev_name_data = 0; g_ev_name_len = 0; g_ev_ts = 0; g_ev_attrs = 0; g_attr_ctor_src = 0; }
#define XC_MAXS 4096UL
/* an owned string: storage of its own (fresh), same length, same bytes */
#define OWNED_COPY(s, sv) ((s).len == (sv).length_ && __CPROVER_is_fresh((s).data, (s).len) && (g_k < (s).len ==> (s).data[g_k] == (sv).data_[g_k]))
#define SV_OK(sv) ((sv).length_ <= XC_MAXS && __CPROVER_is_fresh((sv).data_, (sv).length_))
"""
SD_POST = r"""
/* std::string(const char *, size_t) / std::string(string_view): assumed contract (C++ standard): a copy in storage of its own */
xc_str xc_string_copy(const char *data, size_t len)
__CPROVER_requires(len <= XC_MAXS && __CPROVER_r_ok(data, len))
__CPROVER_assigns()
__CPROVER_ensures(__CPROVER_return_value.len == len && __CPROVER_is_fresh(__CPROVER_return_value.data, len))
__CPROVER_ensures(g_k < len ==> __CPROVER_return_value.data[g_k] == data[g_k]);
static void xc_amap_SetAttribute(xc_opaque *map, string_view key, const xc_opaque *value)
{ g_amap_calls++; g_amap_self = map; g_amap_key_data = key.data_; g_amap_key_len = key.length_; g_amap_value = value; }
/* AttributeMap(const KeyValueIterable &): the map built from the caller's attributes (its own contract: see AttributeMap proofs) */
static xc_opaque xc_amap_from_iterable(const xc_opaque *attributes) { xc_opaque m; g_attr_ctor_calls++; g_attr_ctor_src = attributes; m.xc_unused = 0; return m; }
#ifndef XC_HAVE_LINK
int g_ln_ctx;
#endif
#ifdef XC_HAVE_EVENT
static void xc_vec_push_back_SpanDataEvent(xc_opaque *vec, SpanDataEvent e)
{ g_push_calls++; g_push_vec = vec; g_ev_name_data = e.name_.data; g_ev_name_len = e.name_.len; g_ev_ts = e.timestamp_.nanos_since_epoch_; g_ev_attrs = g_attr_ctor_src; }
#endif
#ifdef XC_HAVE_LINK
SpanContext g_ln_ctx;
static void xc_vec_push_back_SpanDataLink(xc_opaque *vec, SpanDataLink l)
{ g_push_calls++; g_push_vec = vec; g_ln_ctx = l.span_context_; g_ev_attrs = g_attr_ctor_src; }
#endif
"""


def _sd_str_ctor(em, node, args):
    real = [a for a in args if a.get("kind") != "CXXDefaultArgExpr"]
    if len(real) == 2:
        return "xc_string_copy(%s, %s)" % (em.expr(real[0]), em.expr(real[1]))
    if len(real) == 1:
        t = em.ctype(real[0]["type"])
        if t.base == "xc_str":
            return em.expr(real[0])           # copy/move of a std::string value: the value itself (a std::string owns its bytes)
        if t.base == "string_view":
            sv = em.expr(real[0])
            return "xc_string_copy((%s).data_, (%s).length_)" % (sv, sv)
    if not real:
        return "((xc_str){\"\", 0})"
    raise common.ExtractionError("std::string construction from %s" % [a.get("type", {}).get("qualType") for a in real])


def _configure_sd(cfg):
    common.sdk_trace_boundary(cfg)
    common.chrono_boundary(cfg)
    cfg.value_classes |= {"string_view", "TraceId", "SpanId", "TraceFlags", "SpanContext", "SystemTimestamp"}
    for n in ("std::basic_string", "std::__cxx11::basic_string"):
        cfg.ctor_ext[n] = _sd_str_ctor
        cfg.ext_methods[n + "::operator="] = lambda em, recv, args, n: "%s = %s" % (recv, _sd_str_ctor(em, n, args))
        cfg.ext_methods[n + "::assign"] = lambda em, recv, args, n: "%s = %s" % (recv, _sd_str_ctor(em, n, args))
        cfg.ext_methods[n + "::clear"] = lambda em, recv, args, n: "%s = ((xc_str){\"\", 0})" % recv
    cfg.opaque_records["sdk::common::AttributeMap"] = "xc_opaque"
    cfg.opaque_records["sdk::resource::Resource"] = "xc_opaque"
    cfg.opaque_records["sdk::instrumentationscope::InstrumentationScope"] = "xc_opaque"
    cfg.opaque_records["common::KeyValueIterable"] = "xc_opaque"
    cfg.type_handlers.insert(0, common._variant_opaque)
    unp = lambda r: (r["node"] if isinstance(r, dict) and r.get("xc_is_ptr") else r)
    cfg.ctor_ext["AttributeMap"] = lambda em, node, args: "xc_amap_from_iterable(%s)" % (em.addr_of(args[0]) if args else "NULL")
    cfg.ext_methods["std::vector::push_back"] = lambda em, recv, args, n: "xc_vec_push_back_%s(&(%s), %s)" % (em.ctype(args[0]["type"]).base, recv, em.expr(args[0]))
    cfg.ext_q["AttributeMap::SetAttribute"] = lambda em, node, recv, args: "xc_amap_SetAttribute(%s, %s, %s)" % (em.addr_of(unp(recv)), em.expr(args[0]), em.addr_of(args[1]))


contracts_sd = {}


def _setter(fields_post, extra_req="", assigns="", ghosts=False):
    return {"pre": "__CPROVER_requires(__CPROVER_is_fresh(self, sizeof(SpanData))" + extra_req + ")\n"
            "__CPROVER_assigns(" + assigns + ")\n" + "".join("__CPROVER_ensures(%s)\n" % p for p in fields_post)}


contracts_sd["SpanData_SetStatus"] = _setter(
    ["self->status_code_ == code", "OWNED_COPY(self->status_desc_, description)"], " && SV_OK(description)", "self->status_code_, self->status_desc_")
contracts_sd["SpanData_SetName"] = _setter(["OWNED_COPY(self->name_, name)"], " && SV_OK(name)", "self->name_")
contracts_sd["SpanData_SetSpanKind"] = _setter(["self->span_kind_ == span_kind"], "", "self->span_kind_")
contracts_sd["SpanData_SetTraceFlags"] = _setter(["self->flags_.rep_ == flags.rep_"], "", "self->flags_")
contracts_sd["SpanData_SetStartTime"] = _setter(["self->start_time_.nanos_since_epoch_ == start_time.nanos_since_epoch_"], "", "self->start_time_")
contracts_sd["SpanData_SetDuration"] = _setter(["self->duration_ == duration"], "", "self->duration_")
contracts_sd["SpanData_SetResource"] = _setter(["self->resource_ == resource"], "", "self->resource_")
contracts_sd["SpanData_SetInstrumentationScope"] = _setter(["self->instrumentation_scope_ == instrumentation_scope"], "", "self->instrumentation_scope_")

contracts_sd["SpanData_SetAttribute"] = {"pre":
    "__CPROVER_requires(__CPROVER_is_fresh(self, sizeof(SpanData)) && SV_OK(key) && __CPROVER_is_fresh(value, sizeof(*value)))\n"
    "__CPROVER_assigns(g_amap_calls, g_amap_self, g_amap_key_data, g_amap_key_len, g_amap_value)\n"
    # passed on to the span's own attribute map exactly once, with the caller's key and value
    "__CPROVER_ensures(g_amap_calls == __CPROVER_old(g_amap_calls) + 1 && g_amap_self == &self->attribute_map_ && g_amap_key_data == key.data_ && g_amap_key_len == key.length_ && g_amap_value == value)\n"}
EV_GHOSTS = "g_push_calls, g_push_vec, g_ev_name_data, g_ev_name_len, g_ev_ts, g_ev_attrs, g_attr_ctor_calls, g_attr_ctor_src, g_ln_ctx"
contracts_sd["SpanData_AddEvent"] = {"pre":
    "__CPROVER_requires(__CPROVER_is_fresh(self, sizeof(SpanData)) && SV_OK(name) && __CPROVER_is_fresh(attributes, sizeof(*attributes)))\n"
    "__CPROVER_assigns(" + EV_GHOSTS + ")\n"
    # exactly one element is appended to the span's own event list (std::vector::push_back appends at the end: call order is kept); it holds an
    # owned copy of the name, the given timestamp and an attribute map built once from the caller's attributes
    "__CPROVER_ensures(g_push_calls == __CPROVER_old(g_push_calls) + 1 && g_push_vec == &self->events_)\n"
    "__CPROVER_ensures(g_ev_name_len == name.length_ && g_ev_name_data != name.data_ && g_ev_ts == timestamp.nanos_since_epoch_)\n"
    "__CPROVER_ensures(g_k < name.length_ ==> g_ev_name_data[g_k] == name.data_[g_k])\n"
    "__CPROVER_ensures(g_attr_ctor_calls == __CPROVER_old(g_attr_ctor_calls) + 1 && g_attr_ctor_src == attributes && g_ev_attrs == attributes)\n"}
contracts_sd["SpanData_AddLink"] = {"pre":
    "__CPROVER_requires(__CPROVER_is_fresh(self, sizeof(SpanData)) && __CPROVER_is_fresh(attributes, sizeof(*attributes)))\n"
    "__CPROVER_assigns(" + EV_GHOSTS + ")\n"
    "__CPROVER_ensures(g_push_calls == __CPROVER_old(g_push_calls) + 1 && g_push_vec == &self->links_)\n"
    "__CPROVER_ensures(g_k < 16 ==> g_ln_ctx.trace_id_.rep_[g_k] == span_context.trace_id_.rep_[g_k])\n"
    "__CPROVER_ensures(g_k < 8 ==> g_ln_ctx.span_id_.rep_[g_k] == span_context.span_id_.rep_[g_k])\n"
    "__CPROVER_ensures(g_attr_ctor_calls == __CPROVER_old(g_attr_ctor_calls) + 1 && g_attr_ctor_src == attributes && g_ev_attrs == attributes)\n"}
contracts_sd["SpanData_SetIdentity"] = {"pre":
    "__CPROVER_requires(__CPROVER_is_fresh(self, sizeof(SpanData)))\n"
    "__CPROVER_assigns(self->span_context_, self->parent_span_id_)\n"
    "__CPROVER_ensures(g_k < 16 ==> self->span_context_.trace_id_.rep_[g_k] == span_context.trace_id_.rep_[g_k])\n"
    "__CPROVER_ensures(g_k < 8 ==> (self->span_context_.span_id_.rep_[g_k] == span_context.span_id_.rep_[g_k] && self->parent_span_id_.rep_[g_k] == parent_span_id.rep_[g_k]))\n"
    "__CPROVER_ensures(self->span_context_.trace_flags_.rep_ == span_context.trace_flags_.rep_ && self->span_context_.is_remote_ == span_context.is_remote_)\n"}

proofs_sd = [
    Proof("SpanData_SetAttribute", [("SpanData::SetAttribute", 2)], enforce="SpanData_SetAttribute"),
    Proof("SpanData_AddEvent", [("SpanData::AddEvent", 3)], enforce="SpanData_AddEvent", replace=["xc_string_copy"]),
    Proof("SpanData_AddLink", [("SpanData::AddLink", 2)], enforce="SpanData_AddLink"),
    Proof("SpanData_SetIdentity", [("SpanData::SetIdentity", 2)], enforce="SpanData_SetIdentity"),
    Proof("SpanData_SetStatus", [("SpanData::SetStatus", 2)], enforce="SpanData_SetStatus", replace=["xc_string_copy"]),
    Proof("SpanData_SetName", [("SpanData::SetName", 1)], enforce="SpanData_SetName", replace=["xc_string_copy"]),
    Proof("SpanData_SetSpanKind", [("SpanData::SetSpanKind", 1)], enforce="SpanData_SetSpanKind"),
    Proof("SpanData_SetTraceFlags", [("SpanData::SetTraceFlags", 1)], enforce="SpanData_SetTraceFlags"),
    Proof("SpanData_SetStartTime", [("SpanData::SetStartTime", 1)], enforce="SpanData_SetStartTime"),
    Proof("SpanData_SetDuration", [("SpanData::SetDuration", 1)], enforce="SpanData_SetDuration"),
    Proof("SpanData_SetResource", [("SpanData::SetResource", 1)], enforce="SpanData_SetResource"),
    Proof("SpanData_SetInstrumentationScope", [("SpanData::SetInstrumentationScope", 1)], enforce="SpanData_SetInstrumentationScope"),
]
for _p in proofs_sd:
    _p.tu = TU_SD
    _p.pre_c = SD_PRE
    _p.post_struct_c = SD_POST
    _p.spec_headers = ("xc_trace_boundary.h",)
    _p.force_records = ("nostd::string_view",)
    _p.configure = _configure_sd
    _p.contracts = contracts_sd
    _p.timeout = 300
    if _p.name == "SpanData_AddEvent":
        _p.defines_c = "#define XC_HAVE_EVENT 1\n"
    if _p.name == "SpanData_AddLink":
        _p.defines_c = "#define XC_HAVE_LINK 1\n"
proofs += proofs_sd
assumed_contracts = dict(globals().get("assumed_contracts", {}))
assumed_contracts["xc_string_copy"] = "std::string(const char *, size_t) / std::string(string_view): a copy of the bytes in storage of its own (C++ standard)"


def refute_spandata(mod, proof, violations, ix, workdir, seed):
    """directed native search on the real SpanData: every sequence of up to 3 setter / AddEvent / SetAttribute calls (arguments in buffers that
    die after the call), final content compared with a model"""
    import re as _re, subprocess
    binpath = R.build_native("c04_spandata_native", [_os.path.join(R.core.HERE, "replay", "c04_spandata_native.cc")], ["-O1"])
    full = subprocess.run([binpath, "search"], stdout=subprocess.PIPE, stderr=subprocess.STDOUT, text=True, timeout=300).stdout
    m = _re.findall(r"^FOUND (.*)$", full, _re.M)
    if not m:
        return None
    args = m[-1].split(" ")
    r = R.native_check("c04_spandata_native", ["c04_spandata_native.cc"], args, ["-O1"])
    r["input"] = {"driver_args": args, "meaning": "seq <ops>: st:<code>:<description> SetStatus, nm:<name> SetName, at:<key>:<int> SetAttribute, ev:<name>[:k=v,...] AddEvent, ki:<kind> SetSpanKind",
                  "found_by": "directed native search (refute mode)"}
    return r if r["reproduced"] else None


for _p in proofs_sd:
    refuters[_p.name] = refute_spandata


# ---------------------------------------------------------------------------------------------
# AttributeMap (sdk/include/opentelemetry/sdk/common/attribute_utils.h), the attribute store of spans, events and links: "the attributes with
# last-write-wins per key": SetAttribute leaves the value just given under the key, whether or not the key was present; the constructors from a
# KeyValueIterable do exactly that for every pair the iterable delivers (inductive step: arbitrary map state before one callback invocation).
TU_AM = ("tu_attribute_map", '#include "opentelemetry/sdk/common/attribute_utils.h"\n')
AM_PRE = r"""
const char *g_key_data; unsigned long g_key_len; unsigned long g_keys_made;
unsigned long g_fe_calls; const void *g_fe_src; unsigned long g_cb_calls;
static void xc_havoc_ghosts(void);
#define SV_OK(sv) ((sv).length_ <= 4096 && __CPROVER_is_fresh((sv).data_, (sv).length_))
#define AM_GHOSTS g_slot_present, g_slot_val, g_slot_key, g_umap_ops, g_key_data, g_key_len, g_keys_made
"""
AM_POST = r"""
static void xc_havoc_ghosts(void) { int p; xc_attrval v; unsigned long a, b, c, d; g_slot_present = p; g_slot_val = v; g_slot_key = a; g_umap_ops = b; g_key_data = 0; g_key_len = 0; g_keys_made = 0; g_fe_calls = c; g_cb_calls = d; g_fe_src = 0; }
/* std::string(key): the map key is identified by the bytes it is built from */
static xc_key xc_mkkey_sv(string_view sv) { xc_key k; g_keys_made++; k.id = g_keys_made; g_key_data = sv.data_; g_key_len = sv.length_; return k; }
static xc_attrval xc_convert(const xc_attrval *v) { return *v; }
/* the pair the iterable delivers in the callback invocation under consideration: arbitrary */
char g_cb_keybuf[8]; string_view g_cb_key; xc_attrval g_cb_val;
"""


def _am_key(em, node):
    s = em._strip_all(node)
    while s.get("kind") in ("CXXFunctionalCastExpr", "CXXBindTemporaryExpr", "MaterializeTemporaryExpr", "ImplicitCastExpr", "CXXStaticCastExpr") and s.get("inner"):
        s = em._strip_all(s["inner"][0])
    if s.get("kind") in ("CXXConstructExpr", "CXXTemporaryObjectExpr", "CXXMemberCallExpr"):
        # std::string(key) / key.operator std::string()
        inner = [a for a in s.get("inner", []) if a.get("kind") != "CXXDefaultArgExpr"]
        if s["kind"] == "CXXMemberCallExpr":
            return "xc_mkkey_sv(%s)" % em.expr(inner[0]["inner"][0])
        if len(inner) == 1 and em.ctype(inner[0]["type"]).base == "string_view":
            return "xc_mkkey_sv(%s)" % em.expr(inner[0])
        if len(inner) == 1:
            return _am_key(em, inner[0])
        if len(inner) == 2:
            return "xc_mkkey_sv((string_view){.data_ = %s, .length_ = %s})" % (em.expr(inner[0]), em.expr(inner[1]))
    raise common.ExtractionError("map key is not built from the string_view key: %s" % s.get("kind"))


def _am_attr_type(em, base, targs, name):
    if base in ("nostd::variant", "variant", "absl::otel_v1::variant") and targs and len(targs) > 4:
        return common.CT("xc_attrval")
    return None


def _am_foreach(em, node, recv, args):
    lam = em._find_lambda(args[0])
    if lam is None:
        raise common.ExtractionError("ForEachKeyValue without a lambda argument")
    li = em.lambda_info(lam, None)
    caps = [em.capture_arg(c) for c in li["captures"]]
    r = recv["node"] if isinstance(recv, dict) and recv.get("xc_is_ptr") else recv
    src = em.expr(r) if (isinstance(recv, dict) and recv.get("xc_is_ptr")) else em.addr_of(r)
    em.report["KeyValueIterable::ForEachKeyValue(callback) -> one callback invocation on an arbitrary pair from an arbitrary map state (inductive step)"] += 1
    return "(g_fe_calls++, g_fe_src = (const void *)(%s), g_cb_calls++, %s(%s))" % (src, li["cname"], ", ".join(caps + ["g_cb_key", "g_cb_val"]))


def _configure_am(cfg):
    cfg.value_classes |= {"string_view"}
    cfg.type_handlers.insert(0, _am_attr_type)
    common.umap_boundary(cfg, _am_key)
    cfg.opaque_records["common::KeyValueIterable"] = "xc_opaque"
    cfg.ext["visit"] = lambda em, node, recv, args: "xc_convert(%s)" % em.addr_of(args[1])
    # the map is the base class sub-object of AttributeMap: the receiver is *this
    cfg.ext_methods["std::unordered_map::operator[]"] = lambda em, recv, args, n: "(*xc_umap_index((xc_umap *)0, %s))" % _am_key(em, args[0])
    cfg.ext_methods["std::unordered_map::emplace"] = lambda em, recv, args, n: "xc_umap_emplace((xc_umap *)0, %s, %s)" % (_am_key(em, args[0]), em.expr(args[1]))
    cfg.ext_methods["std::unordered_map::try_emplace"] = cfg.ext_methods["std::unordered_map::emplace"]
    cfg.ext_methods["std::unordered_map::insert_or_assign"] = lambda em, recv, args, n: "xc_umap_insert_or_assign((xc_umap *)0, %s, %s)" % (_am_key(em, args[0]), em.expr(args[1]))
    cfg.ext_methods["std::unordered_map::reserve"] = lambda em, recv, args, n: "(void)0"
    cfg.ext_q["KeyValueIterable::ForEachKeyValue"] = _am_foreach
    for k in ("absl::otel_v1::variant", "nostd::variant", "variant"):
        cfg.ext_methods[k + "::operator="] = lambda em, recv, args, n: "%s = %s" % (recv, em.expr(args[0]))
    cfg.ext_q["KeyValueIterable::size"] = lambda em, node, recv, args: "0UL"


SET_POST = ("__CPROVER_ensures(g_slot_present && g_slot_val.id == %(v)s)\n"
            "__CPROVER_ensures(g_keys_made == 1 && g_slot_key == 1 && g_key_data == %(k)s.data_ && g_key_len == %(k)s.length_)\n")
contracts_am = {
    "AttributeMap_SetAttribute": {"pre":
        "__CPROVER_requires(__CPROVER_is_fresh(self, sizeof(*self)) && __CPROVER_is_fresh(value, sizeof(*value)))\n"
        "__CPROVER_assigns(AM_GHOSTS)\n" + SET_POST % {"v": "value->id", "k": "key"} +
        "__CPROVER_ensures(g_umap_ops == __CPROVER_old(g_umap_ops) + 1)\n"},
}
AM_CTOR = "AttributeMap_ctor_1_ccommon_KeyValueIterable"
AM_LAM = AM_CTOR + "__l1"
for _ln in (AM_LAM,):
    contracts_am[_ln] = {"pre":
        "__CPROVER_requires(__CPROVER_is_fresh(self, sizeof(*self)) && g_keys_made == 0)\n"
        "__CPROVER_assigns(AM_GHOSTS)\n" + SET_POST % {"v": "value.id", "k": "key"} +
        "__CPROVER_ensures(__CPROVER_return_value)\n"}   # the iteration goes on: no pair is skipped

contracts_am[AM_CTOR] = {"pre":
    "__CPROVER_requires(__CPROVER_is_fresh(attributes, sizeof(*attributes)) && g_keys_made == 0)\n"
    "__CPROVER_assigns(AM_GHOSTS, g_fe_calls, g_fe_src, g_cb_calls)\n"
    # the caller's iterable is walked exactly once with a callback that stores the delivered pair
    "__CPROVER_ensures(g_fe_calls == __CPROVER_old(g_fe_calls) + 1 && g_fe_src == attributes && g_cb_calls == __CPROVER_old(g_cb_calls) + 1)\n" +
    SET_POST % {"v": "g_cb_val.id", "k": "g_cb_key"}}

proofs_am = [
    Proof("AttributeMap_ctor_iterable", [("AttributeMap::AttributeMap", 1, "const common::KeyValueIterable &")], enforce=AM_CTOR, replace=[AM_LAM],
          desc="AttributeMap(const KeyValueIterable &) walks the caller's iterable exactly once with the storing callback"),
    Proof("AttributeMap_ctor_iterable_ptr", [("AttributeMap::AttributeMap", 1, "const common::KeyValueIterable *")], enforce=AM_CTOR, replace=[AM_LAM],
          desc="AttributeMap(const KeyValueIterable *), non-null argument: same"),
    Proof("AttributeMap_SetAttribute", [("AttributeMap::SetAttribute", 2)], enforce="AttributeMap_SetAttribute",
          desc="after SetAttribute(key, value) the map holds (the owned form of) value under key, whether or not key was present"),
    Proof("AttributeMap_ctor_iterable_callback", [("AttributeMap::AttributeMap", 1, "const common::KeyValueIterable &")], enforce=AM_LAM,
          desc="AttributeMap(const KeyValueIterable &): each pair delivered by the iterable is stored under its key, replacing an earlier value (last write wins), and the iteration continues"),
    Proof("AttributeMap_ctor_iterable_ptr_callback", [("AttributeMap::AttributeMap", 1, "const common::KeyValueIterable *")], enforce=AM_LAM,
          desc="AttributeMap(const KeyValueIterable *): same"),
]
for _p in proofs_am:
    _p.tu = TU_AM
    _p.pre_c = AM_PRE
    _p.post_struct_c = AM_POST
    _p.spec_headers = ()
    _p.force_records = ("nostd::string_view",)
    _p.configure = _configure_am
    _p.contracts = contracts_am
    _p.umap = True
    # an attribute value (AttributeValue / OwnedAttributeValue) is its identity; the conversion to the owned form keeps it
    _p.defines_c = "typedef struct xc_attrval { unsigned long id; } xc_attrval;\n#define XC_UMAP_VAL xc_attrval\n#define XC_UMAP_ZERO {0}\n"
    _p.timeout = 300
    refuters[_p.name] = refute_spandata
proofs += proofs_am


# ---------------------------------------------------------------------------------------------
# MultiRecordable (sdk/include/opentelemetry/sdk/trace/multi_recordable.h): "with several processors each receives its own identical copy": every
# operation on the multi recordable is passed on, with the caller's arguments, to the recordable of EVERY processor exactly once (loop invariant over
# the map of per-processor recordables, any number of processors).
TU_MR = ("tu_multi_recordable", '#include "opentelemetry/sdk/trace/multi_recordable.h"\n')
MR_PRE = r"""
size_t g_k;
enum { MOP_SetName = 1, MOP_SetStatus, MOP_SetAttribute, MOP_AddEvent, MOP_SetStartTime, MOP_SetSpanKind, MOP_SetDuration, MOP_AddLink, MOP_SetResource, MOP_SetInstrumentationScope, MOP_SetTraceFlags, MOP_SetIdentity };
unsigned long g_calls, g_w_h; int g_w_op; const char *g_w_sv; long g_w_i; const void *g_w_p;      /* number of calls on member recordables; the call number g_k */
static void xc_havoc_ghosts(void) { size_t a; g_k = a; g_calls = 0; g_w_h = 0; g_w_op = 0; g_w_sv = 0; g_w_i = 0; g_w_p = 0; }
typedef struct xc_recpair { unsigned long first; xc_handle second; } xc_recpair;       /* value_type of std::map<size_t, std::unique_ptr<Recordable>> */
typedef struct xc_recmap { xc_recpair *items; size_t count; } xc_recmap;
#define XC_ID8(s) ((long)(((unsigned long)(s).rep_[0]) | ((unsigned long)(s).rep_[1] << 8) | ((unsigned long)(s).rep_[2] << 16) | ((unsigned long)(s).rep_[3] << 24) | ((unsigned long)(s).rep_[4] << 32) | ((unsigned long)(s).rep_[5] << 40) | ((unsigned long)(s).rep_[6] << 48) | ((unsigned long)(s).rep_[7] << 56)))
#define MR_GHOSTS g_calls, g_w_h, g_w_op, g_w_sv, g_w_i, g_w_p
"""
MR_POST = r"""
static void xc_mrec(xc_handle r, int op, string_view sv, long i, const void *p) { if (g_calls == g_k) { g_w_h = r.id; g_w_op = op; g_w_sv = sv.data_; g_w_i = i; g_w_p = p; } g_calls++; }
"""


def _mr_types(em, base, targs, name):
    if base == "std::map" and targs and "Recordable" in targs[-1]:
        return common.CT("xc_recmap")
    if base == "std::pair" and targs and "Recordable" in targs[-1]:
        return common.CT("xc_recpair")
    if base == "std::unique_ptr" and targs and targs[0].strip().split("::")[-1] == "Recordable":
        return common.CT("xc_handle")
    return None


def _configure_mr(cfg):
    common.sdk_trace_boundary(cfg)
    common.chrono_boundary(cfg)
    cfg.value_classes |= {"string_view", "SystemTimestamp"}
    cfg.type_handlers.insert(0, common._variant_opaque)
    cfg.type_handlers.insert(0, _mr_types)
    cfg.opaque_records["common::KeyValueIterable"] = "xc_opaque"
    if not hasattr(cfg, "seq_handlers"):
        cfg.seq_handlers = {}
    cfg.seq_handlers["std::map"] = lambda em, seq, targs: ("(%s).items" % seq, "(%s).count" % seq)
    cfg.seq_handlers["xc_recmap"] = cfg.seq_handlers["std::map"]
    cfg.ext_methods["std::unique_ptr::operator->"] = lambda em, recv, args, n: recv
    unp = lambda r: (r["node"] if isinstance(r, dict) and r.get("xc_is_ptr") else r)
    cfg.ext_q["Recordable::SetName"] = lambda em, node, recv, args: "xc_mrec(%s, MOP_SetName, %s, 0, 0)" % (em.expr(unp(recv)), em.expr(args[0]))
    cfg.ext_q["Recordable::SetStatus"] = lambda em, node, recv, args: "xc_mrec(%s, MOP_SetStatus, %s, (long)(%s), 0)" % (em.expr(unp(recv)), em.expr(args[1]), em.expr(args[0]))
    cfg.ext_q["Recordable::SetAttribute"] = lambda em, node, recv, args: "xc_mrec(%s, MOP_SetAttribute, %s, 0, (const void *)%s)" % (em.expr(unp(recv)), em.expr(args[0]), em.addr_of(args[1]))
    cfg.ext_q["Recordable::AddLink"] = lambda em, node, recv, args: "xc_mrec(%s, MOP_AddLink, (string_view){0}, (long)%s, (const void *)%s)" % (em.expr(unp(recv)), em.addr_of(args[1]), em.addr_of(args[0]))
    cfg.ext_q["Recordable::SetTraceFlags"] = lambda em, node, recv, args: "xc_mrec(%s, MOP_SetTraceFlags, (string_view){0}, (long)(%s).rep_, 0)" % (em.expr(unp(recv)), em.expr(args[0]))
    cfg.ext_q["Recordable::SetIdentity"] = lambda em, node, recv, args: "xc_mrec(%s, MOP_SetIdentity, (string_view){0}, XC_ID8(%s), (const void *)%s)" % (em.expr(unp(recv)), em.expr(args[1]), em.addr_of(args[0]))
    cfg.ext_q["Recordable::SetResource"] = lambda em, node, recv, args: "xc_mrec(%s, MOP_SetResource, (string_view){0}, 0, (const void *)%s)" % (em.expr(unp(recv)), em.addr_of(args[0]))
    cfg.ext_q["Recordable::SetInstrumentationScope"] = lambda em, node, recv, args: "xc_mrec(%s, MOP_SetInstrumentationScope, (string_view){0}, 0, (const void *)%s)" % (em.expr(unp(recv)), em.addr_of(args[0]))
    cfg.opaque_records["sdk::resource::Resource"] = "xc_opaque"
    cfg.opaque_records["sdk::instrumentationscope::InstrumentationScope"] = "xc_opaque"
    cfg.ext_q["Recordable::SetStartTime"] = lambda em, node, recv, args: "xc_mrec(%s, MOP_SetStartTime, (string_view){0}, (%s).nanos_since_epoch_, 0)" % (em.expr(unp(recv)), em.expr(args[0]))
    cfg.ext_q["Recordable::SetSpanKind"] = lambda em, node, recv, args: "xc_mrec(%s, MOP_SetSpanKind, (string_view){0}, (long)(%s), 0)" % (em.expr(unp(recv)), em.expr(args[0]))
    cfg.ext_q["Recordable::SetDuration"] = lambda em, node, recv, args: "xc_mrec(%s, MOP_SetDuration, (string_view){0}, (long)(%s), 0)" % (em.expr(unp(recv)), em.expr(args[0]))
    cfg.ext_q["Recordable::AddEvent"] = lambda em, node, recv, args: "xc_mrec(%s, MOP_AddEvent, %s, (%s).nanos_since_epoch_, (const void *)%s)" % (em.expr(unp(recv)), em.expr(args[0]), em.expr(args[1]), em.addr_of(args[2]))


def mr_contract(op, sv, extra_req, witness):
    inv = "(g_k < %%s ==> (g_w_h == self->recordables_.items[g_k].second.id && g_w_op == %s && %s && %s))" % (op, ("g_w_sv == %s.data_" % sv) if sv else "1", witness)
    return {"pre":
        "__CPROVER_requires(__CPROVER_is_fresh(self, sizeof(*self)) && self->recordables_.count <= 64 && __CPROVER_is_fresh(self->recordables_.items, self->recordables_.count * sizeof(xc_recpair))" + extra_req + ")\n"
        "__CPROVER_assigns(MR_GHOSTS)\n"
        # one call per processor's recordable, in order, each with the caller's arguments
        "__CPROVER_ensures(g_calls == self->recordables_.count && " + inv % "self->recordables_.count" + ")\n",
        "loops": {1: "__CPROVER_assigns(xc_i1, MR_GHOSTS)\n"
                     "__CPROVER_loop_invariant(xc_i1 <= self->recordables_.count && g_calls == xc_i1 && " + inv % "xc_i1" + ")\n"
                     "__CPROVER_decreases(self->recordables_.count - xc_i1)\n"}}


contracts_mr = {
    "MultiRecordable_SetName": mr_contract("MOP_SetName", "name", "", "1"),
    "MultiRecordable_SetStatus": mr_contract("MOP_SetStatus", "description", "", "g_w_i == (long)code"),
    "MultiRecordable_SetAttribute": mr_contract("MOP_SetAttribute", "key", " && __CPROVER_is_fresh(value, sizeof(*value))", "g_w_p == value"),
    "MultiRecordable_AddLink": mr_contract("MOP_AddLink", None, " && __CPROVER_is_fresh(span_context, sizeof(*span_context)) && __CPROVER_is_fresh(attributes, sizeof(*attributes))", "g_w_p == span_context && g_w_i == (long)attributes"),
    "MultiRecordable_SetResource": mr_contract("MOP_SetResource", None, " && __CPROVER_is_fresh(resource, sizeof(*resource))", "g_w_p == resource"),
    "MultiRecordable_SetInstrumentationScope": mr_contract("MOP_SetInstrumentationScope", None, " && __CPROVER_is_fresh(instrumentation_scope, sizeof(*instrumentation_scope))", "g_w_p == instrumentation_scope"),
    "MultiRecordable_SetTraceFlags": mr_contract("MOP_SetTraceFlags", None, "", "g_w_i == (long)flags.rep_"),
    "MultiRecordable_SetIdentity": mr_contract("MOP_SetIdentity", None, " && __CPROVER_is_fresh(span_context, sizeof(*span_context))", "g_w_p == span_context && g_w_i == XC_ID8(parent_span_id)"),
    "MultiRecordable_SetStartTime": mr_contract("MOP_SetStartTime", None, "", "g_w_i == start_time.nanos_since_epoch_"),
    "MultiRecordable_SetSpanKind": mr_contract("MOP_SetSpanKind", None, "", "g_w_i == (long)span_kind"),
    "MultiRecordable_SetDuration": mr_contract("MOP_SetDuration", None, "", "g_w_i == (long)duration"),
    "MultiRecordable_AddEvent": mr_contract("MOP_AddEvent", "name", " && __CPROVER_is_fresh(attributes, sizeof(*attributes))", "g_w_i == timestamp.nanos_since_epoch_ && g_w_p == attributes"),
}
proofs_mr = [Proof("MultiRecordable_" + m, [("MultiRecordable::" + m, n)], enforce="MultiRecordable_" + m, timeout=300,
                   desc="the operation reaches the recordable of every processor exactly once with the caller's arguments")
             for m, n in (("SetName", 1), ("SetStatus", 2), ("SetAttribute", 2), ("AddEvent", 3), ("SetStartTime", 1), ("SetSpanKind", 1), ("SetDuration", 1), ("AddLink", 2), ("SetResource", 1), ("SetInstrumentationScope", 1), ("SetTraceFlags", 1), ("SetIdentity", 2))]
for _p in proofs_mr:
    _p.tu = TU_MR
    _p.pre_c = MR_PRE.replace("typedef struct xc_recpair", "#include \"xc_trace_boundary.h\"\ntypedef struct xc_recpair")
    _p.post_struct_c = MR_POST
    _p.spec_headers = ()
    _p.force_records = ("nostd::string_view", "common::SystemTimestamp")
    _p.configure = _configure_mr
    _p.own_config = True
    _p.contracts = contracts_mr
proofs += proofs_mr


# ---------------------------------------------------------------------------------------------
# MultiSpanProcessor::OnEnd: "with several processors each ... is notified exactly once": bounded stand-in over the linked list of processors (0..3
# nodes, everything inlined; dfcc has no shape predicate for an unbounded list): every processor, in order, gets the recordable made for it released
# from the multi recordable exactly once and, if there is one, is notified with exactly that recordable, once.
TU_MSPE = ("tu_multi_span_processor", '#include "%s/sdk/include/opentelemetry/sdk/trace/multi_span_processor.h"\n' % R.core.REPO)
MSPE_PRE = r"""
unsigned long g_rel_calls, g_end_calls, g_deleted, g_rel_proc[4], g_rel_h[4], g_end_proc[4], g_end_h[4], g_rel_mr;
static void xc_havoc_ghosts(void) { g_rel_calls = g_end_calls = g_deleted = g_rel_mr = 0; }
static xc_opaque *xc_mr_Release(const xc_opaque *mr, const xc_opaque *proc) { unsigned long id; unsigned long i = g_rel_calls < 3 ? g_rel_calls : 3; g_rel_mr = (unsigned long)mr; g_rel_proc[i] = (unsigned long)proc; g_rel_h[i] = id; g_rel_calls++; return (xc_opaque *)id; }
static void xc_proc_OnEnd(const xc_opaque *proc, const xc_opaque *r) { unsigned long i = g_end_calls < 3 ? g_end_calls : 3; g_end_proc[i] = (unsigned long)proc; g_end_h[i] = (unsigned long)r; g_end_calls++; }
static void xc_delete_mr(const xc_opaque *mr) { g_deleted++; }
/* MultiRecordable::GetRecordable(processor): a reference to the per-processor slot (possibly empty); SpanProcessor::OnStart: ghost-recorded */
unsigned long g_get_calls, g_get_mr, g_get_proc[4], g_start_calls, g_start_proc[4], g_start_h[4], g_start_parent; xc_opaque *g_slot[4];
static xc_opaque **xc_mr_Get(const xc_opaque *mr, const xc_opaque *proc) { unsigned long i = g_get_calls < 3 ? g_get_calls : 3; g_get_mr = (unsigned long)mr; g_get_proc[i] = (unsigned long)proc; g_get_calls++; return &g_slot[i]; }
static void xc_proc_OnStart(const xc_opaque *proc, const xc_opaque *r, const void *parent) { unsigned long i = g_start_calls < 3 ? g_start_calls : 3; g_start_proc[i] = (unsigned long)proc; g_start_h[i] = (unsigned long)r; g_start_parent = (unsigned long)parent; g_start_calls++; }
"""


def _mspe_types(em, base, targs, name):
    if base == "std::unique_ptr" and targs and targs[0].strip().split("::")[-1] in ("SpanProcessor", "Recordable", "MultiRecordable"):
        return common.CT("xc_opaque", 1)
    return None


def _configure_mspe(cfg):
    common.sdk_trace_boundary(cfg)
    common.chrono_boundary(cfg)
    cfg.type_handlers.insert(0, _mspe_types)
    for r in ("sdk::trace::SpanProcessor", "sdk::trace::Recordable", "sdk::trace::MultiRecordable"):
        cfg.type_map[r] = "xc_opaque"
    unp = lambda r: (r["node"] if isinstance(r, dict) and r.get("xc_is_ptr") else r)
    cfg.ext_methods["std::unique_ptr::get"] = lambda em, recv, args, n: recv
    cfg.ext_methods["std::unique_ptr::release"] = lambda em, recv, args, n: recv
    cfg.ext_methods["std::unique_ptr::operator->"] = lambda em, recv, args, n: recv
    for k in ("std::unique_ptr::operator!=", "std::unique_ptr::operator=="):
        cfg.ext_methods[k] = (lambda o: (lambda em, recv, args, n: "(%s %s NULL)" % (recv, o)))(k[-2:])
    cfg.ext_q["std::operator!="] = lambda em, node, recv, args: "(%s != NULL)" % em.expr(args[0])
    cfg.ext_q["std::operator=="] = lambda em, node, recv, args: "(%s == NULL)" % em.expr(args[0])
    cfg.ctor_ext["std::unique_ptr"] = lambda em, node, args: (em.expr(args[0]) if args else "NULL")
    cfg.ext_q["MultiRecordable::ReleaseRecordable"] = lambda em, node, recv, args: "xc_mr_Release(%s, %s)" % (em.expr(unp(recv)), em.addr_of(args[0]))
    cfg.ext_q["SpanProcessor::OnEnd"] = lambda em, node, recv, args: "xc_proc_OnEnd(%s, %s)" % (em.expr(unp(recv)), em.expr(args[0]))
    cfg.ext["delete"] = lambda em, n: "xc_delete_mr(%s)" % em.expr(n["inner"][0])
    cfg.ext_methods["std::unique_ptr::operator*"] = lambda em, recv, args, n: "(*%s)" % recv
    cfg.ext_q["MultiRecordable::GetRecordable"] = lambda em, node, recv, args: "(*xc_mr_Get(%s, %s))" % (em.expr(unp(recv)), em.addr_of(args[0]))
    cfg.ext_q["SpanProcessor::OnStart"] = lambda em, node, recv, args: "xc_proc_OnStart(%s, %s, (const void *)%s)" % (em.expr(unp(recv)), em.addr_of(args[0]), em.addr_of(args[1]))


H_MSPE = r"""
void h_MultiSpanProcessor_OnEnd_bounded(void)
{
  xc_havoc_ghosts();
  unsigned long n; __CPROVER_assume(n <= 3);
  ProcessorNode nodes[3]; MultiSpanProcessor msp; xc_opaque *span = (xc_opaque *)77;
  for (unsigned long i = 0; i < 3; i++) { nodes[i].value_ = (xc_opaque *)(100 + i); nodes[i].next_ = (i + 1 < n) ? &nodes[i + 1] : NULL; nodes[i].prev_ = i ? &nodes[i - 1] : NULL; }
  msp.head_ = n ? &nodes[0] : NULL; msp.tail_ = n ? &nodes[n - 1] : NULL; msp.count_ = n;
  MultiSpanProcessor_OnEnd(&msp, &span);
  __CPROVER_assert(g_rel_calls == n && (n == 0 || g_rel_mr == 77), "every processor's recordable is released from the span's multi recordable exactly once");
  unsigned long e = 0;
  for (unsigned long i = 0; i < 3; i++) if (i < n)
  {
    __CPROVER_assert(g_rel_proc[i] == 100 + i, "... in registration order, for that processor");
    if (g_rel_h[i] != 0) { __CPROVER_assert(e < g_end_calls && g_end_proc[e] == 100 + i && g_end_h[e] == g_rel_h[i], "a processor is notified with the recordable made for it"); e++; }
  }
  __CPROVER_assert(g_end_calls == e, "nobody is notified twice or without a recordable");
  __CPROVER_assert(g_deleted == 1, "the multi recordable is destroyed once");
  __CPROVER_assert(0, "XC_CANARY end of harness reachable");
}
"""
H_MSPS = r"""
void h_MultiSpanProcessor_OnStart_bounded(void)
{
  xc_havoc_ghosts();
  unsigned long n; __CPROVER_assume(n <= 3);
  ProcessorNode nodes[3]; MultiSpanProcessor msp; xc_opaque *span = (xc_opaque *)77; SpanContext parent;
  for (unsigned long i = 0; i < 3; i++) { nodes[i].value_ = (xc_opaque *)(100 + i); nodes[i].next_ = (i + 1 < n) ? &nodes[i + 1] : NULL; nodes[i].prev_ = i ? &nodes[i - 1] : NULL; }
  msp.head_ = n ? &nodes[0] : NULL; msp.tail_ = n ? &nodes[n - 1] : NULL; msp.count_ = n;
  g_get_calls = g_start_calls = 0;
  xc_opaque *slots[4]; for (unsigned long i = 0; i < 4; i++) { unsigned long id; g_slot[i] = (xc_opaque *)id; slots[i] = g_slot[i]; }
  MultiSpanProcessor_OnStart(&msp, span, &parent);
  __CPROVER_assert(g_get_calls == n && (n == 0 || g_get_mr == 77), "the recordable of every processor is looked up in the span's multi recordable exactly once");
  unsigned long e = 0;
  for (unsigned long i = 0; i < 3; i++) if (i < n)
  {
    __CPROVER_assert(g_get_proc[i] == 100 + i, "... in registration order, for that processor");
    __CPROVER_assert(g_slot[i] == slots[i], "the per-processor recordable stays with the multi recordable");
    if (slots[i] != 0) { __CPROVER_assert(e < g_start_calls && g_start_proc[e] == 100 + i && g_start_h[e] == (unsigned long)slots[i] && g_start_parent == (unsigned long)&parent, "a processor is notified of the start with the recordable made for it and the caller's parent context"); e++; }
  }
  __CPROVER_assert(g_start_calls == e, "nobody is notified twice or without a recordable");
  __CPROVER_assert(g_deleted == 0 && g_rel_calls == 0 && g_end_calls == 0, "OnStart neither releases nor ends anything");
  __CPROVER_assert(0, "XC_CANARY end of harness reachable");
}
"""
_pmsps = Proof("MultiSpanProcessor_OnStart_bounded", [("MultiSpanProcessor::OnStart", 2)], harness=H_MSPS, loop_contracts=False, unwind=5, level="bounded", timeout=300,
               bound_note="0..3 processors in the list, arbitrary (possibly missing) per-processor recordables; everything inlined", desc="fan-out of OnStart: every processor notified exactly once with its own recordable and the caller's parent context")
_pmspe = Proof("MultiSpanProcessor_OnEnd_bounded", [("MultiSpanProcessor::OnEnd", 1)], harness=H_MSPE, loop_contracts=False, unwind=5, level="bounded", timeout=300,
               bound_note="0..3 processors in the list, arbitrary (possibly missing) per-processor recordables; everything inlined", desc="fan-out of OnEnd: every processor notified exactly once with its own recordable")
_pmspe.tu = TU_MSPE
_pmspe.pre_c = MSPE_PRE
_pmspe.post_struct_c = ""
_pmspe.spec_headers = ("xc_trace_boundary.h",)
_pmspe.force_records = ()
_pmspe.configure = _configure_mspe
_pmspe.own_config = True
proofs.append(_pmspe)
_pmsps.tu = TU_MSPE
_pmsps.pre_c = MSPE_PRE
_pmsps.post_struct_c = ""
_pmsps.spec_headers = ("xc_trace_boundary.h",)
_pmsps.force_records = ()
_pmsps.configure = _configure_mspe
_pmsps.own_config = True
proofs.append(_pmsps)
