"""C20 - nostd vocabulary types: string_view, span, unique_ptr (api/include/opentelemetry/nostd/*.h)."""
from ..core import Proof
from .. import refute as R
from . import common

prop_id = "C20"
tu_name = "tu_nostd"
tu_text = r'''#include "opentelemetry/nostd/string_view.h"
#include "opentelemetry/nostd/span.h"
#include "opentelemetry/nostd/unique_ptr.h"
// explicit instantiations: the member functions of the class templates get instantiated bodies in the AST
template class opentelemetry::nostd::span<unsigned char, 4>;
template class opentelemetry::nostd::span<char, opentelemetry::nostd::dynamic_extent>;
template class opentelemetry::nostd::unique_ptr<int>;
'''
spec_headers = ()
force_records = ("nostd::string_view",)
pre_c = r"""
size_t g_k; size_t g_off; size_t g_diff; int g_thrown; unsigned long g_deleted;
static void xc_havoc_ghosts(void) { size_t a, b; g_k = a; g_off = b; }
#define POFF(p) ((size_t)__CPROVER_POINTER_OFFSET(p))
#define PTR_OBJ_AT(p, o) (*((p) - POFF(p) + (o)))
#define XC_MAXLEN 65536UL
#define SVR(v) ((v).length_ <= XC_MAXLEN && __CPROVER_is_fresh((v).data_, (v).length_))
#define UC(c) ((unsigned char)(c))
#define MINL(a, b) ((a) < (b) ? (a) : (b))
"""
post_struct_c = r"""
/* std::char_traits<char>::compare / find: assumed contracts (C++ standard: memcmp / memchr semantics) */
int xc_traits_compare(const char *a, const char *b, size_t n)
__CPROVER_requires(__CPROVER_r_ok(a, n) && __CPROVER_r_ok(b, n))
__CPROVER_assigns(g_diff)
__CPROVER_ensures(__CPROVER_return_value == 0 ==> (g_k < n ==> a[g_k] == b[g_k]))
__CPROVER_ensures(__CPROVER_return_value != 0 ==> (g_diff < n && a[g_diff] != b[g_diff] && (g_k < g_diff ==> a[g_k] == b[g_k]) &&
                  ((__CPROVER_return_value < 0) == (UC(a[g_diff]) < UC(b[g_diff])))));

/* std::lexicographical_compare over plain char ranges: element comparison is the built-in (signed) char < (assumed contract) */
bool xc_lex_compare_cc(const char *f1, const char *l1, const char *f2, const char *l2)
__CPROVER_requires(__CPROVER_r_ok(f1, l1 - f1) && __CPROVER_r_ok(f2, l2 - f2))
__CPROVER_assigns(g_diff)
__CPROVER_ensures(__CPROVER_return_value ==> ((g_diff < (size_t)(l1 - f1) && g_diff < (size_t)(l2 - f2) && f1[g_diff] < f2[g_diff] && (g_k < g_diff ==> f1[g_k] == f2[g_k])) ||
                  ((l1 - f1) < (l2 - f2) && (g_k < (size_t)(l1 - f1) ==> f1[g_k] == f2[g_k]))));

const char *xc_traits_find(const char *p, size_t n, char ch)
__CPROVER_requires(__CPROVER_r_ok(p, n))
__CPROVER_assigns()
__CPROVER_ensures(__CPROVER_return_value == NULL ==> ((POFF(p) <= g_off && g_off < POFF(p) + n) ==> PTR_OBJ_AT(p, g_off) != ch))
__CPROVER_ensures(__CPROVER_return_value != NULL ==> __CPROVER_pointer_in_range_dfcc(p, __CPROVER_return_value, p + n))
__CPROVER_ensures(__CPROVER_return_value != NULL ==> (__CPROVER_return_value < p + n && *__CPROVER_return_value == ch &&
                  ((POFF(p) <= g_off && g_off < POFF(__CPROVER_return_value)) ==> PTR_OBJ_AT(p, g_off) != ch)));
"""
assumed_contracts = {"xc_lex_compare_cc": "std::lexicographical_compare with the built-in char comparison (C++ standard)", "xc_traits_compare": "std::char_traits<char>::compare == memcmp (C++ standard)",
                     "xc_traits_find": "std::char_traits<char>::find == memchr (C++ standard)"}


def configure(cfg):
    cfg.value_classes |= {"string_view"}
    cfg.throw_mode = "record"
    cfg.cnames["unique_ptr<int>::operator=/1"] = "unique_ptr_int_move_assign"
    cfg.cnames_sig = [("string_view::compare", "int (nostd::string_view", "string_view_compare"),
                      ("span<unsigned char, 4>::span", "unsigned char *, size_t", "span_u8_4_ctor"),
                      ("span<char, -1>::span", "(char *, size_t", "span_char_dyn_ctor")]


RET = "__CPROVER_return_value"
UP_OK = "__CPROVER_is_fresh(self, sizeof(*self)) && (self->ptr_ == NULL || __CPROVER_is_fresh(self->ptr_, sizeof(int)))"
contracts = dict(common.SV_CONTRACTS)
contracts.update({
    # std::string_view::substr: out_of_range exactly when pos > size(), else the view [pos, pos + min(n, size - pos))
    "string_view_substr": {"pre": "__CPROVER_requires(SVR(self) && g_thrown == 0)\n__CPROVER_assigns(g_thrown)\n"
        "__CPROVER_ensures(g_thrown == (pos > self.length_))\n"
        "__CPROVER_ensures(!g_thrown ==> (%(r)s.data_ == self.data_ + pos && %(r)s.length_ == MINL(n, self.length_ - pos)))\n" % {"r": RET}},
    # compare: sign of the first differing byte (as unsigned char), else sign of the length difference
    "string_view_compare": {"pre": "__CPROVER_requires(SVR(self) && SVR(v))\n__CPROVER_assigns(g_diff)\n"
        "__CPROVER_ensures(%(r)s == 0 ==> (self.length_ == v.length_ && (g_k < self.length_ ==> self.data_[g_k] == v.data_[g_k])))\n"
        "__CPROVER_ensures(%(r)s != 0 ==> ((g_diff < MINL(self.length_, v.length_) && self.data_[g_diff] != v.data_[g_diff] && "
        "(g_k < g_diff ==> self.data_[g_k] == v.data_[g_k]) && ((%(r)s < 0) == (UC(self.data_[g_diff]) < UC(v.data_[g_diff])))) || "
        "(self.length_ != v.length_ && (g_k < MINL(self.length_, v.length_) ==> self.data_[g_k] == v.data_[g_k]) && ((%(r)s < 0) == (self.length_ < v.length_)))))\n"
        "__CPROVER_ensures(%(r)s == 0 || %(r)s == -1 || %(r)s == 1 || g_diff < MINL(self.length_, v.length_))\n" % {"r": RET}},
    "string_view_op_lt": {"pre": "__CPROVER_requires(SVR(self) && SVR(v))\n__CPROVER_assigns(g_diff)\n"
        "__CPROVER_ensures(%(r)s ==> ((g_diff < MINL(self.length_, v.length_) && UC(self.data_[g_diff]) < UC(v.data_[g_diff]) && (g_k < g_diff ==> self.data_[g_k] == v.data_[g_k])) || "
        "(self.length_ < v.length_ && (g_k < self.length_ ==> self.data_[g_k] == v.data_[g_k]))))\n" % {"r": RET}},
    # find(ch, pos): smallest index >= pos holding ch, else npos
    "string_view_find": {"pre": "__CPROVER_requires(SVR(self))\n__CPROVER_assigns()\n"
        "__CPROVER_ensures(%(r)s == (unsigned long)-1 ==> ((pos <= g_off && g_off < self.length_) ==> self.data_[g_off] != ch))\n"
        "__CPROVER_ensures(%(r)s != (unsigned long)-1 ==> (pos <= %(r)s && %(r)s < self.length_ && self.data_[%(r)s] == ch && "
        "((pos <= g_off && g_off < %(r)s) ==> self.data_[g_off] != ch)))\n" % {"r": RET}},
    # span: the fixed-extent constructor terminates exactly when count != Extent; operator[] is data[index], index < extent kept as an obligation
    "span_u8_4_ctor": {"pre": "__CPROVER_requires(g_thrown == 0)\n__CPROVER_assigns(g_thrown)\n"
        "__CPROVER_ensures(g_thrown == (count != 4))\n__CPROVER_ensures(!g_thrown ==> %(r)s.data_ == data)\n" % {"r": RET}},
    "span_u8_4_op_index": {"pre": "__CPROVER_requires(__CPROVER_is_fresh(self, sizeof(*self)) && __CPROVER_is_fresh(self->data_, 4) && index < 4)\n__CPROVER_assigns()\n"
        "__CPROVER_ensures(%(r)s == self->data_ + index)\n" % {"r": RET}},
    "span_char_dyn_ctor": {"pre": "__CPROVER_assigns()\n__CPROVER_ensures(%(r)s.data_ == data && %(r)s.extent_ == count)\n" % {"r": RET}},
    "span_char_1_op_index": {"pre": "__CPROVER_requires(__CPROVER_is_fresh(self, sizeof(*self)) && self->extent_ <= XC_MAXLEN && __CPROVER_is_fresh(self->data_, self->extent_) && index < self->extent_)\n"
        "__CPROVER_assigns()\n__CPROVER_ensures(%(r)s == self->data_ + index)\n" % {"r": RET}},
    # unique_ptr: null or the unique owner; every operation destroys at most the previously owned object, exactly once
    "unique_ptr_int_reset": {"pre": "__CPROVER_requires(%s)\n" % UP_OK +
        "__CPROVER_assigns(self->ptr_, g_deleted)\n__CPROVER_frees(self->ptr_)\n"
        "__CPROVER_ensures(self->ptr_ == ptr)\n"
        "__CPROVER_ensures(g_deleted == __CPROVER_old(g_deleted) + (__CPROVER_old(self->ptr_) != NULL ? 1 : 0))\n"},
    "unique_ptr_int_release": {"pre": "__CPROVER_requires(%s)\n" % UP_OK +
        "__CPROVER_assigns(self->ptr_)\n__CPROVER_frees()\n"
        "__CPROVER_ensures(%(r)s == __CPROVER_old(self->ptr_) && self->ptr_ == NULL && g_deleted == __CPROVER_old(g_deleted))\n" % {"r": RET}},
    "unique_ptr_int_swap": {"pre": "__CPROVER_requires(%s && __CPROVER_is_fresh(other, sizeof(*other)))\n" % UP_OK +
        "__CPROVER_assigns(self->ptr_, other->ptr_)\n__CPROVER_frees()\n"
        "__CPROVER_ensures(self->ptr_ == __CPROVER_old(other->ptr_) && other->ptr_ == __CPROVER_old(self->ptr_) && g_deleted == __CPROVER_old(g_deleted))\n"},
    "unique_ptr_int_move_assign": {"pre": "__CPROVER_requires(%s && __CPROVER_is_fresh(other, sizeof(*other)) && (other->ptr_ == NULL || __CPROVER_is_fresh(other->ptr_, sizeof(int))))\n" % UP_OK +
        "__CPROVER_assigns(self->ptr_, other->ptr_, g_deleted)\n__CPROVER_frees(self->ptr_)\n"
        "__CPROVER_ensures(self->ptr_ == __CPROVER_old(other->ptr_) && other->ptr_ == NULL && %(r)s == self)\n"
        "__CPROVER_ensures(g_deleted == __CPROVER_old(g_deleted) + (__CPROVER_old(self->ptr_) != NULL ? 1 : 0))\n"
        "__CPROVER_ensures(__CPROVER_old(self->ptr_) != NULL ==> __CPROVER_was_freed(__CPROVER_old(self->ptr_)))\n" % {"r": RET}},
})

SH = ["xc_traits_compare", "xc_traits_find", "xc_lex_compare_cc"]
proofs = [
    Proof("sv_eq", [("nostd::operator==", 2, "bool (nostd::string_view, nostd::string_view)")], enforce=common.SV_EQ),
    Proof("sv_substr", [("string_view::substr", 2)], enforce="string_view_substr"),
    Proof("sv_compare", [("string_view::compare", 1, "int (nostd::string_view")], enforce="string_view_compare", replace=SH),
    Proof("sv_lt", [("string_view::operator<", 1)], enforce="string_view_op_lt", replace=["string_view_compare"] + SH),
    Proof("sv_find", [("string_view::find", 2)], enforce="string_view_find", replace=SH),
    Proof("span_fixed_ctor", [("span<unsigned char, 4>::span", 2, "unsigned char *, size_t")], enforce="span_u8_4_ctor"),
    Proof("span_fixed_index", [("span<unsigned char, 4>::operator[]", 1)], enforce="span_u8_4_op_index"),
    Proof("span_dyn_ctor", [("span<char, -1>::span", 2, "(char *, size_t")], enforce="span_char_dyn_ctor"),
    Proof("span_dyn_index", [("span<char, -1>::operator[]", 1)], enforce="span_char_1_op_index"),
    Proof("up_reset", [("unique_ptr<int>::reset", 1)], enforce="unique_ptr_int_reset"),
    Proof("up_release", [("unique_ptr<int>::release", 0)], enforce="unique_ptr_int_release"),
    Proof("up_swap", [("unique_ptr<int>::swap", 1)], enforce="unique_ptr_int_swap"),
    Proof("up_move_assign", [("unique_ptr<int>::operator=", 1, "unique_ptr<int> &&")], enforce="unique_ptr_int_move_assign"),
]
trusted = ("delete modelled as free plus a ghost counter (xc_delete)",)
assumptions = (
    "std::char_traits<char>::compare/find have memcmp/memchr semantics (assumed contracts)",
    "a string_view argument points to a valid object of its length (the (nullptr,0) view is not exercised)",
    "unique_ptr is instantiated for int (trivial destructor); `delete` is free + a ghost counter of destructions",
    "exactly-one-destruction over operation sequences is by induction over the per-operation contracts (each preserves 'null or unique owner' and frees only the previously owned object); the induction itself is not machine-checked",
)
not_covered = ("nostd::shared_ptr (wraps std::shared_ptr in a placement buffer)", "nostd::variant (absl)", "nostd::function_ref", "std::hash<string_view>",
               "unique_ptr<T[]>, converting constructors")

DRIVER = ("c20_native", ["c20_native.cc"])


def refute_search(mod, proof, violations, ix, workdir, seed):
    """directed native search: nostd::unique_ptr / nostd::string_view in lock step with their std:: counterparts"""
    import os, re as _re, subprocess
    binpath = R.build_native(DRIVER[0], [os.path.join(R.core.HERE, "replay", s) for s in DRIVER[1]])
    full = subprocess.run([binpath, "search"], stdout=subprocess.PIPE, stderr=subprocess.STDOUT, text=True, timeout=300).stdout
    m = _re.findall(r"^FOUND (.*)$", full, _re.M)
    if not m:
        return None
    args = m[-1].split()
    r = R.native_check(DRIVER[0], DRIVER[1], args)
    r["input"] = {"driver_args": args, "meaning": "uptr | sv: scripted lock-step comparison with std::unique_ptr / std::string_view", "found_by": "directed native search (refute mode)"}
    return r if r["reproduced"] else None


refuters = {p.name: refute_search for p in proofs}
