"""C13 - log records: trace correlation at creation and hand-over at emission (sdk/src/logs/logger.cc).
Only Logger::CreateLogRecord and Logger::EmitLogRecord are under contract; the recordable, the processors and the API-level argument handling
(explicit identity wins, body/attribute ownership) are boundary / not covered."""
from ..core import Proof
from .. import refute as R
from . import common
from ..xc.emit import CT, ExtractionError

prop_id = "C13"
tu_name = "tu_sdk_logger"
tu_text = '#include "%s/sdk/src/logs/logger.cc"\n' % R.core.REPO
spec_headers = ("xc_trace_boundary.h",)
force_records = ("trace::SpanContext", "common::SystemTimestamp")
pre_c = r"""
size_t g_k;
/* the logger configuration and the current runtime context as the call finds them (arbitrary) */
int g_enabled;                 /* logger_config_.IsEnabled() */
int g_ctx_has_span_key;        /* RuntimeContext::GetCurrent().HasKey(kSpanKey) */
int g_ctx_kind;                /* alternative held under kSpanKey: 0 something else, 1 shared_ptr<Span>, 2 shared_ptr<SpanContext> */
unsigned long g_ctx_ptr;       /* the shared_ptr's pointer (0 = null) */
/* ghost record of boundary calls */
unsigned long g_noop_create, g_noop_emit, g_made, g_made_id, g_proc_id;
unsigned long g_obs_calls, g_obs_h; long g_obs_ts, g_now;
unsigned long g_tid_calls, g_sid_calls, g_fl_calls, g_tid_h, g_sid_h, g_fl_h;
unsigned char g_tid[16], g_sid[8], g_fl;
unsigned long g_res_calls, g_res_h, g_scope_calls, g_scope_h, g_emit_calls, g_emit_h, g_emit_proc, g_emit_after_res, g_emit_after_scope;
const void *g_res_arg, *g_scope_arg, *g_ctx_resource;
static void xc_havoc_ghosts(void)
{
  size_t k; int a, b, c; unsigned long p, q, r, s; long t;
  g_k = k; g_enabled = a; g_ctx_has_span_key = b; g_ctx_kind = c; g_ctx_ptr = p; g_made_id = q; g_proc_id = r; g_now = t;
  g_noop_create = g_noop_emit = g_made = g_obs_calls = g_obs_h = g_tid_calls = g_sid_calls = g_fl_calls = g_tid_h = g_sid_h = g_fl_h = 0; g_obs_ts = 0; g_fl = 0;
  g_res_calls = g_res_h = g_scope_calls = g_scope_h = g_emit_calls = g_emit_h = g_emit_proc = g_emit_after_res = g_emit_after_scope = 0; g_res_arg = g_scope_arg = 0; g_ctx_resource = 0;
}
#define GHOSTS g_noop_create, g_noop_emit, g_made, g_obs_calls, g_obs_h, g_obs_ts, g_tid_calls, g_sid_calls, g_fl_calls, g_tid_h, g_sid_h, g_fl_h, g_fl, \
  __CPROVER_object_whole(g_tid), __CPROVER_object_whole(g_sid), g_res_calls, g_res_h, g_scope_calls, g_scope_h, g_emit_calls, g_emit_h, g_emit_proc, \
  g_emit_after_res, g_emit_after_scope, g_res_arg, g_scope_arg
"""
post_struct_c = r"""
SpanContext g_active;          /* the span context of the span / the SpanContext stored under kSpanKey (arbitrary) */
static bool xc_cfg_IsEnabled(void) { return g_enabled != 0; }
static xc_handle xc_noop_CreateLogRecord(void) { xc_handle h; g_noop_create++; h.id = 0; return h; }
static void xc_noop_EmitLogRecord(xc_handle r) { g_noop_emit++; }
static xc_opaque *xc_proc_ptr(void) { return (xc_opaque *)g_proc_id; }       /* context_->GetProcessor(): the provider's processor, identified by its address */
static xc_handle xc_proc_MakeRecordable(const xc_opaque *proc) { xc_handle h; g_made++; h.id = g_made_id; return h; }
static long xc_now(void) { return g_now; }
static void xc_rec_SetObservedTimestamp(xc_handle r, SystemTimestamp ts) { g_obs_calls++; g_obs_h = r.id; g_obs_ts = ts.nanos_since_epoch_; }
static void xc_rec_SetTraceId(xc_handle r, TraceId id) { g_tid_calls++; g_tid_h = r.id; g_tid[0]=id.rep_[0]; g_tid[1]=id.rep_[1]; g_tid[2]=id.rep_[2]; g_tid[3]=id.rep_[3]; g_tid[4]=id.rep_[4]; g_tid[5]=id.rep_[5]; g_tid[6]=id.rep_[6]; g_tid[7]=id.rep_[7]; g_tid[8]=id.rep_[8]; g_tid[9]=id.rep_[9]; g_tid[10]=id.rep_[10]; g_tid[11]=id.rep_[11]; g_tid[12]=id.rep_[12]; g_tid[13]=id.rep_[13]; g_tid[14]=id.rep_[14]; g_tid[15]=id.rep_[15]; }
static void xc_rec_SetSpanId(xc_handle r, SpanId id) { g_sid_calls++; g_sid_h = r.id; g_sid[0]=id.rep_[0]; g_sid[1]=id.rep_[1]; g_sid[2]=id.rep_[2]; g_sid[3]=id.rep_[3]; g_sid[4]=id.rep_[4]; g_sid[5]=id.rep_[5]; g_sid[6]=id.rep_[6]; g_sid[7]=id.rep_[7]; }
static void xc_rec_SetTraceFlags(xc_handle r, TraceFlags f) { g_fl_calls++; g_fl_h = r.id; g_fl = f.rep_; }
static void xc_rec_SetResource(xc_handle r, const void *res) { g_res_calls++; g_res_h = r.id; g_res_arg = res; }
static void xc_rec_SetInstrumentationScope(xc_handle r, const void *scope) { g_scope_calls++; g_scope_h = r.id; g_scope_arg = scope; }
static void xc_proc_OnEmit(const xc_opaque *proc, xc_handle r) { g_emit_calls++; g_emit_h = r.id; g_emit_proc = (unsigned long)proc; g_emit_after_res = g_res_calls; g_emit_after_scope = g_scope_calls; }
static const void *xc_ctx_GetResource(void) { return g_ctx_resource; }
static const xc_opaque *xc_logger_scope(xc_handle scope) { return (const xc_opaque *)scope.id; }      /* *instrumentation_scope_ */
/* RuntimeContext::GetCurrent().HasKey(kSpanKey) / GetValue(kSpanKey): what is active on the calling thread */
static bool xc_cur_HasKey(void) { return g_ctx_has_span_key != 0; }
typedef struct xc_ctxvalue { int kind; unsigned long ptr; } xc_ctxvalue;
static xc_ctxvalue xc_cur_GetValue(void) { xc_ctxvalue v; v.kind = g_ctx_kind; v.ptr = g_ctx_ptr; return v; }
static SpanContext xc_span_GetContext(xc_handle span) { return g_active; }
"""


def _holds(em, node, recv, args):
    src = common._node_source(em, node)
    kind = 1 if "trace::Span>" in src.replace(" ", "") and "SpanContext" not in src else 2 if "SpanContext" in src else None
    if kind is None:
        raise ExtractionError("holds_alternative of an unexpected alternative: %s" % src[:100])
    return "(%s.kind == %d)" % (em.pexpr_post(args[0]), kind)


def _get_alt(em, node, recv, args):
    # nostd::get<shared_ptr<T>>(context_value): the stored shared_ptr (a handle)
    return "((xc_handle){%s.ptr})" % em.pexpr_post(args[0])


def _ctxvalue_type(em, base, targs, name):
    if base in ("nostd::variant", "variant", "absl::otel_v1::variant") and targs and len(targs) == 8:
        return CT("xc_ctxvalue")
    return None


def configure(cfg):
    common.sdk_trace_boundary(cfg)
    common.chrono_boundary(cfg)
    cfg.src_file = R.core.REPO + "/sdk/src/logs/logger.cc"
    cfg.handle_ptr_records = ("Recordable", "LogRecord")
    cfg.cnames["sdk::logs::Logger"] = "Logger"
    cfg.cnames["logs::Logger"] = "ApiLogger"
    cfg.value_classes |= {"string_view", "TraceId", "SpanId", "TraceFlags", "SpanContext"}
    cfg.type_handlers.insert(0, _ctxvalue_type)
    cfg.type_handlers.insert(0, common._handle_type)
    unp = lambda r: (r["node"] if isinstance(r, dict) and r.get("xc_is_ptr") else r)

    def _uptr(em, base, targs, name):
        if base in ("std::unique_ptr", "nostd::unique_ptr", "unique_ptr", "std::shared_ptr") and targs:
            return CT("xc_handle")
        return None
    cfg.type_handlers.insert(0, _uptr)
    for k in ("std::unique_ptr", "nostd::unique_ptr", "nostd::shared_ptr", "std::shared_ptr"):
        cfg.ctor_ext[k] = common._handle_ctor
    for pre in ("std::unique_ptr::", "nostd::unique_ptr::", "unique_ptr<logs::LogRecord>::", "nostd::unique_ptr<logs::LogRecord>::"):
        cfg.ext_methods[pre + "release"] = lambda em, recv, args, n: "({ xc_handle xc_r = %s; %s.id = 0; xc_r; })" % (recv, recv)
        cfg.ext_methods[pre + "operator bool"] = lambda em, recv, args, n: "(%s.id != 0)" % recv
        cfg.ext_methods[pre + "operator->"] = lambda em, recv, args, n: recv
    cfg.ext_q["unique_ptr<logs::LogRecord>::release"] = lambda em, node, recv, args: "({ xc_handle xc_r = %s; %s.id = 0; xc_r; })" % (em.expr(unp(recv)), em.expr(unp(recv)))
    cfg.ext_q["unique_ptr<logs::LogRecord>::operator bool"] = lambda em, node, recv, args: "(%s.id != 0)" % em.expr(unp(recv))
    cfg.ext_q["shared_ptr<trace::Span>::operator bool"] = lambda em, node, recv, args: "(%s.id != 0)" % em.expr(unp(recv))
    cfg.ext_q["shared_ptr<trace::SpanContext>::operator bool"] = lambda em, node, recv, args: "(%s.id != 0)" % em.expr(unp(recv))
    cfg.ext_q["shared_ptr<trace::Span>::operator->"] = lambda em, node, recv, args: em.expr(unp(recv))
    # a stored shared_ptr<SpanContext> is dereferenced: the context it points to is the ghost g_active
    cfg.ext_q["shared_ptr<trace::SpanContext>::operator->"] = lambda em, node, recv, args: "(&g_active)"
    cfg.ext_q["LoggerConfig::IsEnabled"] = lambda em, node, recv, args: "xc_cfg_IsEnabled()"
    cfg.ext_q["NoopLogger::CreateLogRecord"] = lambda em, node, recv, args: "xc_noop_CreateLogRecord()"
    cfg.ext_q["NoopLogger::EmitLogRecord"] = lambda em, node, recv, args: "xc_noop_EmitLogRecord(%s)" % em.expr(args[0])
    cfg.ext_q["LoggerContext::GetProcessor"] = lambda em, node, recv, args: "(*xc_proc_ptr())"
    cfg.ext_q["LoggerContext::GetResource"] = lambda em, node, recv, args: "xc_ctx_GetResource()"
    pr = lambda em, recv: (em.expr(recv["node"]) if isinstance(recv, dict) and recv.get("xc_is_ptr") else em.addr_of(recv))
    cfg.ext_q["LogRecordProcessor::MakeRecordable"] = lambda em, node, recv, args: "xc_proc_MakeRecordable(%s)" % pr(em, recv)
    cfg.ext_q["LogRecordProcessor::OnEmit"] = lambda em, node, recv, args: "xc_proc_OnEmit(%s, %s)" % (pr(em, recv), em.expr(args[0]))
    for mth in ("SetObservedTimestamp", "SetTraceId", "SetSpanId", "SetTraceFlags"):
        cfg.ext_q["LogRecord::" + mth] = (lambda mm: (lambda em, node, recv, args: "xc_rec_%s(%s, %s)" % (mm, em.expr(unp(recv)), em.expr(args[0]))))(mth)
        cfg.ext_q["Recordable::" + mth] = (lambda mm: (lambda em, node, recv, args: "xc_rec_%s(%s, %s)" % (mm, em.expr(unp(recv)), em.expr(args[0]))))(mth)
    cfg.ext_q["Recordable::SetResource"] = lambda em, node, recv, args: "xc_rec_SetResource(%s, (const void *)%s)" % (em.expr(unp(recv)), em.expr(args[0]))
    cfg.ext_q["Recordable::SetInstrumentationScope"] = lambda em, node, recv, args: "xc_rec_SetInstrumentationScope(%s, (const void *)%s)" % (em.expr(unp(recv)), em.addr_of(args[0]))
    cfg.ext["now"] = lambda em, node, recv, args: "xc_now()"
    cfg.ext_q["Logger::GetInstrumentationScope"] = lambda em, node, recv, args: "(*xc_logger_scope(self->instrumentation_scope_))"
    cfg.ext_q["RuntimeContext::GetCurrent"] = lambda em, node, recv, args: "0"
    cfg.ext_q["Context::HasKey"] = lambda em, node, recv, args: "xc_cur_HasKey()"
    cfg.ext_q["Context::GetValue"] = lambda em, node, recv, args: "xc_cur_GetValue()"
    cfg.ext["holds_alternative"] = _holds
    cfg.ext_q["nostd::get"] = _get_alt
    cfg.ext["get"] = _get_alt
    cfg.ext_q["Span::GetContext"] = lambda em, node, recv, args: "xc_span_GetContext(%s)" % em.expr(unp(recv))
    cfg.ext["global:kNoopLogger"] = ""
    for r in ("sdk::logs::LoggerContext", "sdk::logs::LoggerConfig", "sdk::instrumentationscope::InstrumentationScope", "sdk::resource::Resource", "logs::NoopLogger", "sdk::logs::LogRecordProcessor"):
        cfg.opaque_records[r] = "xc_opaque"


CORR = ("(g_tid_calls == 1 && g_sid_calls == 1 && g_fl_calls == 1 && g_tid_h == g_made_id && g_sid_h == g_made_id && g_fl_h == g_made_id && g_fl == g_active.trace_flags_.rep_ && "
        "(g_k < 16 ==> g_tid[g_k] == g_active.trace_id_.rep_[g_k]) && (g_k < 8 ==> g_sid[g_k] == g_active.span_id_.rep_[g_k]))")
NOCORR = "(g_tid_calls == 0 && g_sid_calls == 0 && g_fl_calls == 0)"
ACTIVE = "(g_ctx_has_span_key && (g_ctx_kind == 1 || g_ctx_kind == 2) && g_ctx_ptr != 0)"
contracts = {
    "Logger_CreateLogRecord": {"pre":
        "__CPROVER_requires(__CPROVER_is_fresh(self, sizeof(*self)))\n"
        "__CPROVER_assigns(GHOSTS)\n"
        # a disabled logger creates nothing through the SDK (the no-op logger answers)
        "__CPROVER_ensures(!g_enabled ==> (g_made == 0 && g_noop_create == 1 && g_obs_calls == 0 && " + NOCORR + "))\n"
        # an enabled logger: one recordable from the processor, observed timestamp = now, returned to the caller
        "__CPROVER_ensures(g_enabled ==> (g_made == 1 && g_noop_create == 0 && __CPROVER_return_value.id == g_made_id && g_obs_calls == 1 && g_obs_h == g_made_id && g_obs_ts == g_now))\n"
        # created while a span (or span context) is active on the calling thread: it carries exactly that trace id, span id and flags ...
        "__CPROVER_ensures((g_enabled && " + ACTIVE + ") ==> " + CORR + ")\n"
        # ... and with nothing active no identity is set (the recordable keeps its all-zero default)
        "__CPROVER_ensures((g_enabled && !" + ACTIVE + ") ==> " + NOCORR + ")\n"},
    "Logger_EmitLogRecord": {"pre":
        "__CPROVER_requires(__CPROVER_is_fresh(self, sizeof(*self)) && __CPROVER_is_fresh(log_record, sizeof(*log_record)))\n"
        "__CPROVER_assigns(GHOSTS, *log_record)\n"
        # a disabled logger emits nothing; a null record is ignored
        "__CPROVER_ensures(!g_enabled ==> (g_emit_calls == 0 && g_res_calls == 0 && g_scope_calls == 0 && g_noop_emit == 1))\n"
        "__CPROVER_ensures((g_enabled && __CPROVER_old(log_record->id) == 0) ==> (g_emit_calls == 0 && g_res_calls == 0 && g_scope_calls == 0))\n"
        # otherwise the record reaches the provider's processor exactly once, after its resource and instrumentation scope were set
        "__CPROVER_ensures((g_enabled && __CPROVER_old(log_record->id) != 0) ==> (g_emit_calls == 1 && g_emit_h == __CPROVER_old(log_record->id) && g_emit_proc == g_proc_id && "
        "g_res_calls == 1 && g_res_h == g_emit_h && g_res_arg == g_ctx_resource && g_scope_calls == 1 && g_scope_h == g_emit_h && g_scope_arg == (const void *)self->instrumentation_scope_.id && "
        "g_emit_after_res == 1 && g_emit_after_scope == 1 && log_record->id == 0))\n"},
}
proofs = [
    Proof("Logger_CreateLogRecord", [("sdk::logs::Logger::CreateLogRecord", 0)], enforce="Logger_CreateLogRecord", timeout=300,
          desc="trace correlation at creation: the active span's trace id, span id and flags, or nothing; a disabled logger creates nothing"),
    Proof("Logger_EmitLogRecord", [("sdk::logs::Logger::EmitLogRecord", 1)], enforce="Logger_EmitLogRecord", timeout=300,
          desc="emission: null ignored, disabled logger emits nothing, otherwise resource + scope set and the processor notified exactly once"),
]
trusted = ("recordable / processor / logger context as handles with ghost-recorded calls", "the calling thread's current context as a ghost (has kSpanKey, which alternative, null or not)")
assumptions = (
    "only sdk::logs::Logger::CreateLogRecord and EmitLogRecord are under contract: trace correlation at creation and the hand-over to the processor",
    "NOT covered: what ReadWriteLogRecord stores (severity, body, attributes, owned copies), the API-level EmitLogRecord argument handling (explicitly supplied identity "
    "wins because it is applied after CreateLogRecord), MultiRecordable / MultiLogRecordProcessor fan-out, simple and batch processors, nested spans on several threads",
)
not_covered = ("ReadWriteLogRecord", "api logs::Logger::EmitLogRecord(args...) and logger_type_traits.h", "MultiLogRecordProcessor / MultiRecordable", "processors and exporters")
refuters = {}


# ---------------------------------------------------------------------------------------------
# ReadWriteLogRecord (sdk/src/logs/read_write_log_record.cc), the recordable the SDK's exporters receive: every setter stores exactly its
# argument and touches nothing else; the trace identity lives in a lazily created TraceState whose other members a setter leaves alone
# (a fresh one is all-zero); SetAttribute leaves the value under the key (last write wins); the event name is an owned copy.
from . import c04 as _c04
TU_RW = ("tu_rw_log_record", '#include "%s/sdk/src/logs/read_write_log_record.cc"\n' % R.core.REPO)
RW_PRE = r"""
size_t g_k; long g_now;
const char *g_key_data; unsigned long g_key_len; unsigned long g_keys_made;
static void xc_havoc_ghosts(void);
#define XC_MAXS 4096UL
#define SV_OK(sv) ((sv).length_ <= XC_MAXS && __CPROVER_is_fresh((sv).data_, (sv).length_))
#define OWNED_COPY(s, sv) ((s).len == (sv).length_ && __CPROVER_is_fresh((s).data, (s).len) && (g_k < (s).len ==> (s).data[g_k] == (sv).data_[g_k]))
#define RW_OK(r) ((r)->trace_state_ == NULL || __CPROVER_is_fresh((r)->trace_state_, sizeof(TraceState)))
"""
RW_POST = r"""
static void xc_havoc_ghosts(void) { size_t a; int p; xc_attrval v; unsigned long b, c; g_k = a; g_slot_present = p; g_slot_val = v; g_slot_key = b; g_umap_ops = c; g_key_data = 0; g_key_len = 0; g_keys_made = 0; }
static xc_key xc_mkkey_sv(string_view sv) { xc_key k; g_keys_made++; k.id = g_keys_made; g_key_data = sv.data_; g_key_len = sv.length_; return k; }
xc_str xc_string_copy(const char *data, size_t len)
__CPROVER_requires(len <= XC_MAXS && __CPROVER_r_ok(data, len))
__CPROVER_assigns()
__CPROVER_ensures(__CPROVER_return_value.len == len && __CPROVER_is_fresh(__CPROVER_return_value.data, len))
__CPROVER_ensures(g_k < len ==> __CPROVER_return_value.data[g_k] == data[g_k]);
static long xc_now(void) { return g_now; }
"""


def _configure_rw(cfg):
    common.sdk_trace_boundary(cfg)
    common.chrono_boundary(cfg)
    cfg.value_classes |= {"string_view", "TraceId", "SpanId", "TraceFlags", "SystemTimestamp"}
    cfg.type_handlers.insert(0, _c04._am_attr_type)
    common.umap_boundary(cfg, _c04._am_key)
    for n in ("std::basic_string", "std::__cxx11::basic_string"):
        cfg.ctor_ext[n] = _c04._sd_str_ctor
        cfg.ext_methods[n + "::operator="] = lambda em, recv, args, n: "%s = %s" % (recv, _c04._sd_str_ctor(em, n, args))
    for k in ("absl::otel_v1::variant", "nostd::variant", "variant"):
        cfg.ext_methods[k + "::operator="] = lambda em, recv, args, n: "%s = %s" % (recv, em.expr(args[0]))
    for r in ("sdk::resource::Resource", "sdk::instrumentationscope::InstrumentationScope"):
        cfg.opaque_records[r] = "xc_opaque"

    def _up(em, base, targs, name):
        if base == "std::unique_ptr" and targs and targs[0].strip().endswith("TraceState"):
            inner = em._ctype(targs[0])
            return CT(inner.base, inner.ptr + 1)
        return None
    cfg.type_handlers.insert(0, _up)
    cfg.ctor_ext["std::unique_ptr"] = lambda em, node, args: (em.expr(args[0]) if args else "NULL")
    U = "std::unique_ptr::"
    cfg.ext_methods[U + "operator bool"] = lambda em, recv, args, n: "(%s != NULL)" % recv
    cfg.ext_methods[U + "operator->"] = lambda em, recv, args, n: recv
    cfg.ext_methods[U + "operator="] = lambda em, recv, args, n: "%s = %s" % (recv, em.expr(args[0]))
    cfg.ext["new"] = common._kv_new
    cfg.ext["now"] = lambda em, node, recv, args: "xc_now()"


def _ts_contract(field, arg, n):
    others = [f for f in ("trace_id", "span_id", "trace_flags") if f != field]
    zero = lambda f: ("self->trace_state_->trace_flags.rep_ == 0" if f == "trace_flags" else "(g_k < %d ==> self->trace_state_->%s.rep_[g_k] == 0)" % (16 if f == "trace_id" else 8, f))
    keep = lambda f: ("self->trace_state_->trace_flags.rep_ == __CPROVER_old(self->trace_state_->trace_flags.rep_)" if f == "trace_flags" else
                      "(g_k < %d ==> self->trace_state_->%s.rep_[g_k] == __CPROVER_old(self->trace_state_->%s.rep_[g_k * (g_k < %d)]))" % (16 if f == "trace_id" else 8, f, f, 16 if f == "trace_id" else 8))
    stored = ("self->trace_state_->trace_flags.rep_ == %s.rep_" % arg) if field == "trace_flags" else "(g_k < %d ==> self->trace_state_->%s.rep_[g_k] == %s.rep_[g_k])" % (n, field, arg)
    return {"pre":
        "__CPROVER_requires(__CPROVER_is_fresh(self, sizeof(*self)) && RW_OK(self))\n"
        "__CPROVER_assigns(self->trace_state_; self->trace_state_ != NULL: __CPROVER_object_whole(self->trace_state_))\n"
        "__CPROVER_ensures(self->trace_state_ != NULL && " + stored + ")\n"
        # an identity that existed keeps its other members; one created now is all-zero apart from the member just set
        "__CPROVER_ensures(__CPROVER_old(self->trace_state_) != NULL ==> (self->trace_state_ == __CPROVER_old(self->trace_state_) && " + " && ".join(keep(f) for f in others) + "))\n"
        "__CPROVER_ensures(__CPROVER_old(self->trace_state_) == NULL ==> (__CPROVER_is_fresh(self->trace_state_, sizeof(TraceState)) && " + " && ".join(zero(f) for f in others) + "))\n"}


RW = "ReadWriteLogRecord"
_fresh = "__CPROVER_requires(__CPROVER_is_fresh(self, sizeof(*self)))\n"
contracts_rw = {
    RW + "_SetTimestamp": {"pre": _fresh + "__CPROVER_assigns(self->timestamp_)\n__CPROVER_ensures(self->timestamp_.nanos_since_epoch_ == timestamp.nanos_since_epoch_)\n"},
    RW + "_SetObservedTimestamp": {"pre": _fresh + "__CPROVER_assigns(self->observed_timestamp_)\n__CPROVER_ensures(self->observed_timestamp_.nanos_since_epoch_ == timestamp.nanos_since_epoch_)\n"},
    RW + "_SetSeverity": {"pre": _fresh + "__CPROVER_assigns(self->severity_)\n__CPROVER_ensures(self->severity_ == severity)\n"},
    RW + "_SetBody": {"pre": _fresh + "__CPROVER_requires(__CPROVER_is_fresh(message, sizeof(*message)))\n__CPROVER_assigns(self->body_)\n__CPROVER_ensures(self->body_.id == message->id)\n"},
    RW + "_SetEventId": {"pre": _fresh + "__CPROVER_requires(SV_OK(name))\n__CPROVER_assigns(self->event_id_, self->event_name_)\n"
                         "__CPROVER_ensures(self->event_id_ == id && OWNED_COPY(self->event_name_, name))\n"},
    RW + "_SetResource": {"pre": _fresh + "__CPROVER_assigns(self->resource_)\n__CPROVER_ensures(self->resource_ == resource)\n"},
    RW + "_SetInstrumentationScope": {"pre": _fresh + "__CPROVER_assigns(self->instrumentation_scope_)\n__CPROVER_ensures(self->instrumentation_scope_ == instrumentation_scope)\n"},
    RW + "_SetTraceId": _ts_contract("trace_id", "trace_id", 16),
    RW + "_SetSpanId": _ts_contract("span_id", "span_id", 8),
    RW + "_SetTraceFlags": _ts_contract("trace_flags", "trace_flags", 1),
    RW + "_SetAttribute": {"pre": _fresh + "__CPROVER_requires(__CPROVER_is_fresh(value, sizeof(*value)))\n"
        "__CPROVER_assigns(g_slot_present, g_slot_val, g_slot_key, g_umap_ops, g_key_data, g_key_len, g_keys_made)\n"
        "__CPROVER_ensures(g_slot_present && g_slot_val.id == value->id && g_umap_ops == __CPROVER_old(g_umap_ops) + 1)\n"
        "__CPROVER_ensures(g_keys_made == 1 && g_key_data == key.data_ && g_key_len == key.length_)\n"},
}
proofs_rw = []
for _m, _np in (("SetTimestamp", 1), ("SetObservedTimestamp", 1), ("SetSeverity", 1), ("SetBody", 1), ("SetEventId", 2), ("SetResource", 1), ("SetInstrumentationScope", 1),
                ("SetTraceId", 1), ("SetSpanId", 1), ("SetTraceFlags", 1), ("SetAttribute", 2)):
    _p = Proof("LogRecord_" + _m, [(RW + "::" + _m, _np)], enforce=RW + "_" + _m, replace=(["xc_string_copy"] if _m == "SetEventId" else []), timeout=300,
               desc="ReadWriteLogRecord::%s stores exactly its argument and nothing else changes" % _m)
    _p.tu = TU_RW
    _p.pre_c = RW_PRE
    _p.post_struct_c = RW_POST
    _p.spec_headers = ("xc_trace_boundary.h",)
    _p.force_records = ("nostd::string_view",)
    _p.configure = _configure_rw
    _p.own_config = True
    _p.contracts = contracts_rw
    _p.umap = True
    _p.defines_c = "typedef struct xc_attrval { unsigned long id; } xc_attrval;\n#define XC_UMAP_VAL xc_attrval\n#define XC_UMAP_ZERO {0}\n"
    proofs_rw.append(_p)
proofs += proofs_rw
assumed_contracts = {"xc_string_copy": "std::string{string_view}: a copy of the bytes in storage of its own (C++ standard)"}


RW_SRCS = ["sdk/src/logs/read_write_log_record.cc", "sdk/src/logs/readable_log_record.cc", "sdk/src/common/global_log_handler.cc", "sdk/src/common/env_variables.cc",
           "sdk/src/resource/resource.cc", "sdk/src/resource/resource_detector.cc", "sdk/src/version/version.cc"]


def refute_rw(mod, proof, violations, ix, workdir, seed):
    """directed native search on the real ReadWriteLogRecord: every sequence of up to 4 identity / severity / event / attribute setters"""
    import os, re as _re, subprocess
    binpath = R.build_native("c13_native", [os.path.join(R.core.HERE, "replay", "c13_native.cc")] + [os.path.join(R.core.REPO, s) for s in RW_SRCS], ["-O1"])
    full = subprocess.run([binpath, "search"], stdout=subprocess.PIPE, stderr=subprocess.STDOUT, text=True, timeout=300).stdout
    m = _re.findall(r"^FOUND (.*)$", full, _re.M)
    if not m:
        return None
    args = m[-1].split()
    r = R.native_check("c13_native", ["c13_native.cc"], args, ["-O1"], repo_sources=RW_SRCS)
    r["input"] = {"driver_args": args, "meaning": "seq <ops>: T/t SetTraceId(non-zero/zero), S/s SetSpanId, F/f SetTraceFlags(1/0), V SetSeverity, E SetEventId, A/B SetAttribute(k,1/2)",
                  "found_by": "directed native search (refute mode)"}
    return r if r["reproduced"] else None


for _p in proofs_rw:
    refuters[_p.name] = refute_rw


# ---------------------------------------------------------------------------------------------
# MultiLogRecordProcessor::OnEmit (sdk/src/logs/multi_log_record_processor.cc): "reaches every configured processor ... exactly once": for every
# processor, in order, the recordable made for THAT processor is released from the multi recordable exactly once and, if there is one, handed to that
# processor's OnEmit exactly once (loop invariant, any number of processors); a null record is ignored.
from . import c02 as _c02
TU_MLPE = _c02.TU_MLP
MLPE_PRE = r"""
size_t g_k;
unsigned long g_rel_calls, g_emit_calls, g_w_rel_proc, g_w_rel_h, g_w_emit_proc, g_w_emit_h, g_w_emits, g_rel_mr;
static void xc_havoc_ghosts(void) { size_t a; g_k = a; g_rel_calls = g_emit_calls = g_w_rel_proc = g_w_rel_h = g_w_emit_proc = g_w_emit_h = g_w_emits = g_rel_mr = 0; }
typedef struct xc_procvec { xc_opaque **items; size_t count; } xc_procvec;
#define MLPE_GHOSTS g_rel_calls, g_emit_calls, g_w_rel_proc, g_w_rel_h, g_w_emit_proc, g_w_emit_h, g_w_emits, g_rel_mr
"""
MLPE_POST = r"""
/* MultiRecordable::ReleaseRecordable(processor): the recordable made for that processor (or none): any handle */
static xc_opaque *xc_mr_Release(const xc_opaque *mr, const xc_opaque *proc) { unsigned long id; g_rel_mr = (unsigned long)mr; if (g_rel_calls == g_k) { g_w_rel_proc = (unsigned long)proc; g_w_rel_h = id; } g_rel_calls++; return (xc_opaque *)id; }
static void xc_proc_OnEmit(const xc_opaque *proc, const xc_opaque *r) { if (g_rel_calls == g_k + 1) { g_w_emit_proc = (unsigned long)proc; g_w_emit_h = (unsigned long)r; g_w_emits++; } g_emit_calls++; }
"""


def _mlpe_types(em, base, targs, name):
    if base == "std::vector" and targs and "LogRecordProcessor" in targs[0]:
        return CT("xc_procvec")
    if base == "std::unique_ptr" and targs:
        last = targs[0].strip().split("::")[-1]
        if last == "LogRecordProcessor":
            return CT("xc_opaque", 1)
        if last in ("Recordable", "MultiRecordable"):
            return CT("xc_opaque", 1)       # recordables are identified by their address here
    return None


def _configure_mlpe(cfg):
    common.sdk_trace_boundary(cfg)
    common.chrono_boundary(cfg)
    cfg.type_handlers.insert(0, _mlpe_types)
    cfg.type_map["sdk::logs::MultiRecordable"] = "xc_opaque"
    cfg.type_map["sdk::logs::Recordable"] = "xc_opaque"
    cfg.opaque_records["sdk::logs::LogRecordProcessor"] = "xc_opaque"
    if not hasattr(cfg, "seq_handlers"):
        cfg.seq_handlers = {}
    cfg.seq_handlers["std::vector"] = lambda em, seq, targs: ("(%s).items" % seq, "(%s).count" % seq)
    cfg.seq_handlers["xc_procvec"] = cfg.seq_handlers["std::vector"]
    unp = lambda r: (r["node"] if isinstance(r, dict) and r.get("xc_is_ptr") else r)
    cfg.ext_methods["std::unique_ptr::get"] = lambda em, recv, args, n: recv
    cfg.ext_methods["std::unique_ptr::operator->"] = lambda em, recv, args, n: recv
    cfg.ext_methods["std::unique_ptr::operator*"] = lambda em, recv, args, n: "(*%s)" % recv
    cfg.ext_methods["std::unique_ptr::operator bool"] = lambda em, recv, args, n: "(%s != NULL)" % recv
    cfg.ctor_ext["std::unique_ptr"] = lambda em, node, args: (em.expr(args[0]) if args else "NULL")
    cfg.ext_q["MultiRecordable::ReleaseRecordable"] = lambda em, node, recv, args: "xc_mr_Release(%s, %s)" % (em.expr(unp(recv)), em.addr_of(args[0]))
    cfg.ext_q["LogRecordProcessor::OnEmit"] = lambda em, node, recv, args: "xc_proc_OnEmit(%s, %s)" % (em.expr(unp(recv)), em.expr(args[0]))


MLPE = "MultiLogRecordProcessor_OnEmit"
contracts_mlpe = {MLPE: {"pre":
    "__CPROVER_requires(__CPROVER_is_fresh(self, sizeof(*self)) && self->processors_.count <= 64 && __CPROVER_is_fresh(self->processors_.items, self->processors_.count * sizeof(xc_opaque *)) && __CPROVER_is_fresh(record, sizeof(*record)))\n"
    "__CPROVER_assigns(MLPE_GHOSTS)\n"
    # a null record is ignored
    "__CPROVER_ensures(*record == NULL ==> (g_rel_calls == 0 && g_emit_calls == 0))\n"
    # otherwise every processor, in order, gets its own recordable released from THIS multi recordable exactly once ...
    "__CPROVER_ensures(*record != NULL ==> (g_rel_calls == self->processors_.count && g_emit_calls <= g_rel_calls && (self->processors_.count > 0 ==> g_rel_mr == (unsigned long)*record)))\n"
    "__CPROVER_ensures((*record != NULL && g_k < self->processors_.count) ==> g_w_rel_proc == (unsigned long)self->processors_.items[g_k])\n"
    # ... and is handed exactly that recordable, exactly once, if there is one
    "__CPROVER_ensures((*record != NULL && g_k < self->processors_.count) ==> (g_w_rel_h != 0 ? (g_w_emits == 1 && g_w_emit_proc == g_w_rel_proc && g_w_emit_h == g_w_rel_h) : g_w_emits == 0))\n",
    "loops": {1: "__CPROVER_assigns(xc_i1, MLPE_GHOSTS)\n"
                 "__CPROVER_loop_invariant(xc_i1 <= self->processors_.count && g_rel_calls == xc_i1 && g_emit_calls <= g_rel_calls && (xc_i1 > 0 ==> g_rel_mr == (unsigned long)*record))\n"
                 "__CPROVER_loop_invariant(g_k < xc_i1 ==> (g_w_rel_proc == (unsigned long)self->processors_.items[g_k] && (g_w_rel_h != 0 ? (g_w_emits == 1 && g_w_emit_proc == g_w_rel_proc && g_w_emit_h == g_w_rel_h) : g_w_emits == 0)))\n"
                 "__CPROVER_loop_invariant(g_k >= xc_i1 ==> g_w_emits == 0)\n"
                 "__CPROVER_decreases(self->processors_.count - xc_i1)\n"}}}
_pe = Proof("MultiLogRecordProcessor_OnEmit", [("MultiLogRecordProcessor::OnEmit", 1)], enforce=MLPE, timeout=300,
            desc="fan-out of a log record: every processor gets the recordable made for it exactly once")
_pe.tu = TU_MLPE
_pe.pre_c = MLPE_PRE
_pe.post_struct_c = MLPE_POST
_pe.spec_headers = ("xc_trace_boundary.h",)
_pe.force_records = ()
_pe.configure = _configure_mlpe
_pe.own_config = True
_pe.contracts = contracts_mlpe
proofs.append(_pe)
