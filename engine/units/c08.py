"""C08 - cardinality limit of AttributesHashMap (sdk/include/opentelemetry/sdk/metrics/state/attributes_hashmap.h)."""
from ..core import Proof
from .. import refute as R
from . import common
from ..xc.emit import CT, ExtractionError

prop_id = "C08"
tu_name = "tu_attrhashmap"
tu_text = ('#include "%s/sdk/include/opentelemetry/sdk/metrics/state/attributes_hashmap.h"\n'
           'template class opentelemetry::sdk::metrics::AttributesHashMapWithCustomHash<>;\n' % R.core.REPO)
spec_headers = ()
# std::unordered_map<MetricAttributes, std::unique_ptr<Aggregation>> seen through two slots - the key the call is about (g_K) and the
# overflow key - plus the number of other entries. Assumed contracts = the C++ standard (find/end/emplace/operator[]/size).
pre_c = r"""
struct Aggregation;
typedef struct xc_key { unsigned long id; } xc_key;               /* a MetricAttributes value, identified by its content */
#define XC_OVERFLOW_ID 1UL
typedef struct xc_node { xc_key first; struct Aggregation *second; } xc_node;
typedef struct xc_amap { xc_node node[2]; int present[2]; unsigned long others; } xc_amap;   /* slot 0: key g_K, slot 1: overflow key */
typedef struct xc_it { int slot; } xc_it;                          /* -1 = end() */
typedef struct xc_emplaced { xc_it first; bool second; } xc_emplaced;
unsigned long g_K;              /* the key the operation under contract is called with */
unsigned long g_cb_calls;       /* calls of the aggregation factory callback */
struct Aggregation *g_cb_ret;   /* what it returned last */
unsigned long g_merge_calls; const struct Aggregation *g_merge_self, *g_merge_arg; struct Aggregation *g_merge_ret;   /* Aggregation::Merge boundary */
static void xc_havoc_ghosts(void) { unsigned long a, b, c; g_K = a; g_cb_calls = b; g_merge_calls = c; g_cb_ret = 0; g_merge_self = 0; g_merge_arg = 0; g_merge_ret = 0; }
#define SLOT(k) ((k).id == XC_OVERFLOW_ID ? 1 : 0)
#define AMAP_SIZE(m) ((m)->others + (unsigned long)(m)->present[0] + (unsigned long)(m)->present[1])
/* the map as the class keeps it: slot 0 is unused when the call is about the overflow key itself; entries hold an aggregation */
#define AMAP_OK(m) ((m)->others <= 100000 && ((m)->present[0] == 0 || (m)->present[0] == 1) && ((m)->present[1] == 0 || (m)->present[1] == 1) && \
   (g_K != XC_OVERFLOW_ID || !(m)->present[0]) && \
   (!(m)->present[0] || (m)->node[0].second != 0) && (!(m)->present[1] || (m)->node[1].second != 0))
/* the cardinality invariant: never more series than the limit; a full table has its overflow series */
#define WF_CAP(s) ((s)->attributes_limit_ >= 1 && (s)->attributes_limit_ <= 100000 && AMAP_SIZE(&(s)->hash_map_) <= (s)->attributes_limit_ && \
   (AMAP_SIZE(&(s)->hash_map_) == (s)->attributes_limit_ ==> (s)->hash_map_.present[1] == 1))
"""
post_struct_c = r"""
static const xc_key kOverflowAttributes = {XC_OVERFLOW_ID};
static xc_it xc_amap_find(const xc_amap *m, xc_key k) { xc_it it; it.slot = m->present[SLOT(k)] ? SLOT(k) : -1; return it; }
static xc_it xc_amap_end(const xc_amap *m) { xc_it it; it.slot = -1; return it; }
static xc_node *xc_amap_node(xc_amap *m, xc_it it) { __CPROVER_assert(it.slot >= 0, "XC_MODEL dereference of end()"); return &m->node[it.slot >= 0 ? it.slot : 0]; }
static xc_emplaced xc_amap_emplace(xc_amap *m, xc_key k, Aggregation *v)
{
  xc_emplaced r; int s = SLOT(k);
  r.second = !m->present[s];
  if (!m->present[s]) { m->present[s] = 1; m->node[s].first = k; m->node[s].second = v; }
  r.first.slot = s;
  return r;
}
static Aggregation **xc_amap_index(xc_amap *m, xc_key k)
{
  int s = SLOT(k);
  if (!m->present[s]) { m->present[s] = 1; m->node[s].first = k; m->node[s].second = 0; }
  return &m->node[s].second;
}
static unsigned long xc_amap_size(const xc_amap *m) { return AMAP_SIZE(m); }
static Aggregation *xc_callback(void) { g_cb_calls++; g_cb_ret = (Aggregation *)malloc(sizeof(Aggregation)); __CPROVER_assume(g_cb_ret != 0); return g_cb_ret; }
static Aggregation *xc_aggr_Merge(const Aggregation *self, const Aggregation *other)
{
  g_merge_calls++; g_merge_self = self; g_merge_arg = other; g_merge_ret = (Aggregation *)malloc(sizeof(Aggregation)); __CPROVER_assume(g_merge_ret != 0); return g_merge_ret;
}
static xc_key xc_mkkey(void) { xc_key k; k.id = g_K; return k; }    /* MetricAttributes{attributes, processor}: the key of this call */
"""
force_records = ("sdk::metrics::Aggregation",)
H = "AttributesHashMapWithCustomHash"


def _amap_type(em, base, targs, name):
    if base == "std::unordered_map":
        return CT("xc_amap")
    if base in ("std::__detail::_Node_iterator", "std::__detail::_Node_const_iterator", "std::__detail::_Node_iterator_base"):
        return CT("xc_it")
    if base == "std::pair" and targs and "_Node_iterator" in targs[0]:
        return CT("xc_emplaced")
    if base == "std::function":
        return CT("xc_opaque")
    if base in ("sdk::metrics::FilteredOrderedAttributeMap", "FilteredOrderedAttributeMap", "sdk::metrics::MetricAttributes", "MetricAttributes"):
        return CT("xc_key")
    return None


def configure(cfg):
    common.sdk_trace_boundary(cfg)
    cfg.type_handlers.insert(0, _amap_type)
    cfg.type_handlers.insert(0, common._aggr_ptr_type)
    cfg.value_classes |= {"xc_key", "FilteredOrderedAttributeMap", "MetricAttributes"}
    M = "std::unordered_map::"
    cfg.ext_methods[M + "find"] = lambda em, recv, args, n: "xc_amap_find(&(%s), %s)" % (recv, em.expr(args[0]))
    cfg.ext_methods[M + "end"] = lambda em, recv, args, n: "xc_amap_end(&(%s))" % recv
    cfg.ext_methods[M + "size"] = lambda em, recv, args, n: "xc_amap_size(&(%s))" % recv
    cfg.ext_methods[M + "emplace"] = lambda em, recv, args, n: "xc_amap_emplace(&(%s), %s, %s)" % (recv, em.expr(args[0]), em.expr(args[1]))
    cfg.ext_methods[M + "operator[]"] = lambda em, recv, args, n: "(*xc_amap_index(&(%s), %s))" % (recv, em.expr(args[0]))
    for it in ("std::__detail::_Node_iterator", "std::__detail::_Node_const_iterator", "std::__detail::_Node_iterator_base"):
        cfg.ext_methods[it + "::operator!="] = lambda em, recv, args, n: "(%s.slot != %s.slot)" % (recv, em.expr(args[0]))
        cfg.ext_methods[it + "::operator=="] = lambda em, recv, args, n: "(%s.slot == %s.slot)" % (recv, em.expr(args[0]))
        cfg.ext_methods[it + "::operator->"] = lambda em, recv, args, n: "xc_amap_node(&(self->hash_map_), %s)" % recv
    cfg.ctor_ext["std::unordered_map"] = lambda em, node, args: "((xc_amap){0})"
    cfg.ext_methods["std::function::operator()"] = lambda em, recv, args, n: "xc_callback()"
    cfg.ctor_ext["std::function"] = lambda em, node, args: "((xc_opaque){0})"
    cfg.ctor_ext["std::unique_ptr"] = lambda em, node, args: (em.expr(args[0]) if args else "NULL")
    cfg.ext_methods["std::unique_ptr::get"] = lambda em, recv, args, n: recv
    cfg.ext_methods["std::unique_ptr::operator="] = lambda em, recv, args, n: "%s = %s" % (recv, em.expr(args[0]))
    cfg.ext_methods["std::unique_ptr::operator->"] = lambda em, recv, args, n: recv
    cfg.ext_methods["std::unique_ptr::operator*"] = lambda em, recv, args, n: "(*%s)" % recv
    cfg.ext_q["Aggregation::Merge"] = lambda em, node, recv, args: "xc_aggr_Merge(%s, %s)" % (
        em.expr(recv["node"] if isinstance(recv, dict) and recv.get("xc_is_ptr") else recv), em.addr_of(args[0]))
    cfg.ext["global:kOverflowAttributes"] = ""
    for k in ("FilteredOrderedAttributeMap", "sdk::metrics::FilteredOrderedAttributeMap"):
        cfg.ctor_ext[k] = lambda em, node, args: (em.expr(args[0]) if len(args) == 1 and em.ctype(args[0]["type"]).base == "xc_key" else "xc_mkkey()")


Q = "AttributesHashMapWithCustomHash<sdk::metrics::FilteredOrderedAttributeMapHash>"
_conf0 = configure


def configure(cfg):   # noqa: F811
    _conf0(cfg)
    cfg.cnames[Q] = "AHM"
    cfg.cnames_sig = tuple(getattr(cfg, "cnames_sig", ())) + (
        (Q + "::GetOrSetDefault", "(const common::KeyValueIterable", "AHM_GetOrSetDefault_kv"),
        (Q + "::GetOrSetDefault", "(const sdk::metrics::MetricAttributes &", "AHM_GetOrSetDefault_cref"),
        (Q + "::GetOrSetDefault", "(sdk::metrics::MetricAttributes &&", "AHM_GetOrSetDefault_rref"),
        (Q + "::Set", "(const common::KeyValueIterable", "AHM_Set_kv"),
        (Q + "::Set", "(const sdk::metrics::MetricAttributes &", "AHM_Set_cref"),
        (Q + "::Set", "(sdk::metrics::MetricAttributes &&", "AHM_Set_rref"),
        (Q + "::GetOrSetOveflowAttributes", "(std::function", "AHM_GetOrSetOverflow_cb"),
        (Q + "::GetOrSetOveflowAttributes", "(std::unique_ptr", "AHM_GetOrSetOverflow_agg"),
        (Q + "::IsOverflowAttributes", "bool ()", "AHM_IsOverflowAttributes"),
        (Q + "::Get", "Aggregation *(const", "AHM_Get"),
        (Q + "::Has", "bool (const", "AHM_Has"),
    )


O = lambda e: "__CPROVER_old(%s)" % e
HM = "self->hash_map_"
P0, P1, OTH = HM + ".present[0]", HM + ".present[1]", HM + ".others"
V0, V1 = HM + ".node[0].second", HM + ".node[1].second"
SIZE = "(%s + (unsigned long)%s + (unsigned long)%s)" % (OTH, P0, P1)
OSIZE = "(%s + (unsigned long)%s + (unsigned long)%s)" % (O(OTH), O(P0), O(P1))
CAP = "(%s + 1 >= self->attributes_limit_)" % OSIZE
# the slot of the key the call is about: the overflow slot when the caller passes the overflow attributes themselves
KP, KV = "(g_K == XC_OVERFLOW_ID ? %s : %s)" % (P1, P0), "(g_K == XC_OVERFLOW_ID ? %s : %s)" % (V1, V0)
OKP = "(g_K == XC_OVERFLOW_ID ? %s : %s)" % (O(P1), O(P0))
OKV = "(g_K == XC_OVERFLOW_ID ? %s : %s)" % (O(V1), O(V0))
SUB = {"OTH": OTH, "oOTH": O(OTH), "OKP": OKP, "OKV": OKV, "P0": P0, "P1": P1, "oP0": O(P0), "oP1": O(P1), "V0": V0, "V1": V1,
       "oV0": O(V0), "oV1": O(V1), "CAP": CAP, "KP": KP, "KV": KV, "SIZE": SIZE, "OSIZE": OSIZE}


def pre(key):
    keyreq = {"cref": "attributes.id == g_K", "rref": "__CPROVER_is_fresh(attributes, sizeof(xc_key)) && attributes->id == g_K",
              "kv": "1", None: "1"}[key]
    return ("__CPROVER_requires(__CPROVER_is_fresh(self, sizeof(AHM)) && AMAP_OK(&self->hash_map_) && WF_CAP(self) && %s)\n" % keyreq)


def getorset(key):
    # property: the number of series stays within the limit; what does not fit is folded into the single overflow series
    return {"pre": pre(key) + (
        "__CPROVER_assigns(self->hash_map_, g_cb_calls, g_cb_ret)\n"
        "__CPROVER_ensures(AMAP_OK(&self->hash_map_) && WF_CAP(self) && %(OTH)s == %(oOTH)s && __CPROVER_return_value != 0)\n"
        # key present: its series, nothing changes, no aggregation is created
        "__CPROVER_ensures(%(OKP)s ==> (__CPROVER_return_value == %(OKV)s && %(P0)s == %(oP0)s && %(P1)s == %(oP1)s && %(V0)s == %(oV0)s && %(V1)s == %(oV1)s && g_cb_calls == __CPROVER_old(g_cb_calls)))\n"
        # key absent, room left: a new series for the key
        "__CPROVER_ensures((!%(OKP)s && !%(CAP)s) ==> (%(KP)s && __CPROVER_return_value == %(KV)s && __CPROVER_return_value == g_cb_ret && g_cb_calls == __CPROVER_old(g_cb_calls) + 1 && %(SIZE)s == %(OSIZE)s + 1))\n"
        # key absent, table at the limit: the overflow series (created if need be), never a series for the key
        "__CPROVER_ensures((!%(OKP)s && %(CAP)s) ==> (%(P1)s == 1 && __CPROVER_return_value == %(V1)s && (g_K != XC_OVERFLOW_ID ==> %(P0)s == 0) && "
        "(%(oP1)s ? (%(V1)s == %(oV1)s && %(SIZE)s == %(OSIZE)s) : (%(V1)s == g_cb_ret && %(SIZE)s == %(OSIZE)s + 1))))\n") % SUB}


def setc(key):
    # property: "the excess is folded into the single overflow series, so that the total over all reported series still equals everything
    # recorded": storing an aggregation for a key that has no series when the table is at the limit must MERGE it into the overflow series
    return {"pre": pre(key) + (
        "__CPROVER_requires(aggr != 0)\n"
        "__CPROVER_assigns(self->hash_map_, g_merge_calls, g_merge_self, g_merge_arg, g_merge_ret)\n"
        "__CPROVER_ensures(AMAP_OK(&self->hash_map_) && WF_CAP(self) && %(OTH)s == %(oOTH)s)\n"
        "__CPROVER_ensures(%(OKP)s ==> (%(KV)s == aggr && %(P0)s == %(oP0)s && %(P1)s == %(oP1)s && g_merge_calls == __CPROVER_old(g_merge_calls)))\n"
        "__CPROVER_ensures((!%(OKP)s && !%(CAP)s) ==> (%(KP)s && %(KV)s == aggr && %(SIZE)s == %(OSIZE)s + 1 && g_merge_calls == __CPROVER_old(g_merge_calls)))\n"
        "__CPROVER_ensures((!%(OKP)s && %(CAP)s && !%(oP1)s) ==> (%(P1)s == 1 && %(V1)s == aggr && (g_K != XC_OVERFLOW_ID ==> %(P0)s == 0) && %(SIZE)s == %(OSIZE)s + 1))\n"
        "__CPROVER_ensures((!%(OKP)s && %(CAP)s && %(oP1)s) ==> (%(P1)s == 1 && %(P0)s == 0 && %(SIZE)s == %(OSIZE)s && g_merge_calls == __CPROVER_old(g_merge_calls) + 1 && %(V1)s == g_merge_ret && "
        "((g_merge_self == %(oV1)s && g_merge_arg == aggr) || (g_merge_self == aggr && g_merge_arg == %(oV1)s))))\n") % SUB}


contracts = {
    "AHM_GetOrSetDefault_kv": getorset("kv"), "AHM_GetOrSetDefault_cref": getorset("cref"), "AHM_GetOrSetDefault_rref": getorset("rref"),
    "AHM_Set_kv": setc("kv"), "AHM_Set_cref": setc("cref"), "AHM_Set_rref": setc("rref"),
    "AHM_IsOverflowAttributes": {"pre": pre(None) + "__CPROVER_assigns()\n__CPROVER_ensures(__CPROVER_return_value == (%s + 1 >= self->attributes_limit_))\n" % SIZE},
    "AHM_Get": {"pre": pre("cref") + "__CPROVER_assigns()\n__CPROVER_ensures(__CPROVER_return_value == (%s ? %s : (Aggregation *)0))\n" % (KP, KV)},
    "AHM_Has": {"pre": pre("cref") + "__CPROVER_assigns()\n__CPROVER_ensures(__CPROVER_return_value == (%s != 0))\n" % KP},
}
proofs = [
    Proof("GetOrSetDefault_kv", [(Q + "::GetOrSetDefault", 3)], enforce="AHM_GetOrSetDefault_kv"),
    Proof("GetOrSetDefault_cref", [(Q + "::GetOrSetDefault", 2, "(const sdk::metrics::MetricAttributes &")], enforce="AHM_GetOrSetDefault_cref"),
    Proof("GetOrSetDefault_rref", [(Q + "::GetOrSetDefault", 2, "(sdk::metrics::MetricAttributes &&")], enforce="AHM_GetOrSetDefault_rref"),
    Proof("Set_kv", [(Q + "::Set", 3)], enforce="AHM_Set_kv"),
    Proof("Set_cref", [(Q + "::Set", 2, "(const sdk::metrics::MetricAttributes &")], enforce="AHM_Set_cref"),
    Proof("Set_rref", [(Q + "::Set", 2, "(sdk::metrics::MetricAttributes &&")], enforce="AHM_Set_rref"),
    Proof("IsOverflowAttributes", [(Q + "::IsOverflowAttributes", 0)], enforce="AHM_IsOverflowAttributes"),
    Proof("Get", [(Q + "::Get", 1)], enforce="AHM_Get"),
    Proof("Has", [(Q + "::Has", 1)], enforce="AHM_Has"),
]
trusted = ("std::unordered_map<MetricAttributes, unique_ptr<Aggregation>> as a two-slot abstraction (the key of the call, the overflow key, a count of other entries) with "
           "find/end/emplace/operator[]/size per the C++ standard (assumed contracts)", "MetricAttributes values as identities (equal ids = equal attribute sets; hashing and "
           "equality of FilteredOrderedAttributeMap are not examined)", "std::function callback and Aggregation::Merge as ghost-recorded boundary calls; unique_ptr<Aggregation> as a plain pointer")
assumptions = (
    "only the cardinality-limit logic of AttributesHashMap is under contract (GetOrSetDefault x3, Set x3, IsOverflowAttributes, Get, Has); 'keyed by attribute-set value' "
    "(ordering/duplicates/hash of attribute sets), the attribute filter, and how the storages use the map across collection cycles are NOT covered",
    "limits between 1 and 100000; the representation invariant WF_CAP (size <= limit, a full table has its overflow series) is assumed on entry and proved on exit of every operation",
)
not_covered = ("FilteredOrderedAttributeMap / OrderedAttributeMap ordering and hashing", "FilteringAttributesProcessor", "SyncMetricStorage / TemporalMetricStorage use of the map",
               "GetAllEnteries")

import glob as _glob
import os as _os


def _repo_sources():
    r = R.core.REPO
    pats = ["sdk/src/metrics/*.cc", "sdk/src/metrics/*/*.cc", "sdk/src/common/*.cc", "sdk/src/common/platform/fork_unix.cc", "sdk/src/resource/*.cc", "sdk/src/version/*.cc"]
    out = []
    for p in pats:
        out += sorted(_os.path.relpath(f, r) for f in _glob.glob(_os.path.join(r, p)))
    return out


def refute_search(mod, proof, violations, ix, workdir, seed):
    """directed native search on a real MeterProvider: numbers of distinct attribute sets around the default limit of 2000, over two collections"""
    import re as _re, subprocess
    srcs = _repo_sources()
    binpath = R.build_native("c08_native", [_os.path.join(R.core.HERE, "replay", "c08_native.cc")] + [_os.path.join(R.core.REPO, s) for s in srcs], ["-O1"])
    full = subprocess.run([binpath, "search"], stdout=subprocess.PIPE, stderr=subprocess.STDOUT, text=True, timeout=600).stdout
    m = _re.findall(r"^FOUND (.*)$", full, _re.M)
    if not m:
        return None
    args = m[-1].split()
    r = R.native_check("c08_native", ["c08_native.cc"], args, ["-O1"], repo_sources=srcs)
    r["input"] = {"driver_args": args, "meaning": "overflow <n1> <n2>: n1 distinct attribute sets, Collect, n2 further distinct sets, Collect (UInt64 counter, cumulative reader, default limit)",
                  "found_by": "directed native search (refute mode)"}
    return r if r["reproduced"] else None


refuters = {p.name: refute_search for p in proofs}


# ---------------------------------------------------------------------------------------------
# FilteredOrderedAttributeMap (the series key): "equal sets always hash equally" rests on the representation invariant hash_ == H(content),
# which every constructor has to establish AFTER the content is complete; "after the view's attribute filter has removed the keys it does not
# allow": a delivered pair is stored exactly when there is no processor or the processor allows its key (then: last write wins).
from . import c04 as _c04
TU_FM = ("tu_filtered_map", '#include "%s/sdk/src/metrics/state/filtered_ordered_attribute_map.cc"\n' % R.core.REPO)
FM_PRE = _c04.AM_PRE + r"""
unsigned long g_hash_calls, g_hash_value, g_hash_at_ops;     /* GetHashForAttributeMap boundary: number of calls, the value it returned, map operations made before it */
unsigned long g_isp_calls; const void *g_isp_proc; const char *g_isp_key; int g_isp_ret;   /* AttributesProcessor::isPresent boundary */
unsigned long g_mapeq_calls; int g_mapeq_ret;
#define FM_GHOSTS AM_GHOSTS, g_hash_calls, g_hash_at_ops, g_isp_calls, g_isp_proc, g_isp_key
"""
FM_POST = _c04.AM_POST.replace("g_fe_src = 0; }", "g_fe_src = 0; unsigned long h1, h2, h3; int r1, r2; g_hash_calls = h1; g_hash_value = h2; g_isp_calls = h3; g_isp_ret = r1; g_mapeq_ret = r2; g_hash_at_ops = 0; g_isp_proc = 0; g_isp_key = 0; g_mapeq_calls = 0; }") + r"""
static unsigned long xc_hash_of_map(const void *m) { g_hash_calls++; g_hash_at_ops = g_umap_ops; return g_hash_value; }
static bool xc_proc_isPresent(const void *proc, string_view key) { g_isp_calls++; g_isp_proc = proc; g_isp_key = key.data_; return g_isp_ret != 0; }
static bool xc_map_equal(const void *a, const void *b) { g_mapeq_calls++; return g_mapeq_ret != 0; }
"""


def _fm_map_type(em, base, targs, name):
    if base == "std::map":
        return CT("xc_umap")
    return None


def _configure_fm(cfg):
    _c04._configure_am(cfg)
    cfg.type_handlers.insert(0, _fm_map_type)
    cfg.ext_methods["std::map::operator[]"] = cfg.ext_methods["std::unordered_map::operator[]"]
    cfg.ext_methods["std::map::emplace"] = cfg.ext_methods["std::unordered_map::emplace"]
    cfg.ext_methods["std::map::insert_or_assign"] = cfg.ext_methods["std::unordered_map::insert_or_assign"]
    cfg.opaque_records["sdk::metrics::AttributesProcessor"] = "xc_opaque"
    unp = lambda r: (r["node"] if isinstance(r, dict) and r.get("xc_is_ptr") else r)
    cfg.ext_q["GetHashForAttributeMap"] = lambda em, node, recv, args: "xc_hash_of_map((const void *)%s)" % em.addr_of(args[0])
    cfg.ext_q["AttributesProcessor::isPresent"] = lambda em, node, recv, args: "xc_proc_isPresent((const void *)%s, %s)" % (em.expr(unp(recv)), em.expr(args[0]))
    cfg.ext_methods["std::map::operator=="] = lambda em, recv, args, n: "xc_map_equal((const void *)&(%s), (const void *)%s)" % (recv, em.addr_of(args[0]))
    cfg.ext_q["std::operator=="] = lambda em, node, recv, args: "xc_map_equal((const void *)%s, (const void *)%s)" % (em.addr_of(args[0]), em.addr_of(args[1]))


FM = "FilteredOrderedAttributeMap"
FM_C2 = FM + "_ctor_2_ccommon_KeyValueIterable_csdk_metrics_AttributesProcessor"
HASH_LAST = "__CPROVER_return_value.hash_ == g_hash_value && g_hash_calls == __CPROVER_old(g_hash_calls) + 1 && g_hash_at_ops == g_umap_ops"
contracts_fm = {
    FM + "_ctor_0": {"pre": "__CPROVER_requires(g_keys_made == 0)\n__CPROVER_assigns(FM_GHOSTS)\n"
        "__CPROVER_ensures(" + HASH_LAST + " && g_umap_ops == __CPROVER_old(g_umap_ops))\n"},
    FM + "_UpdateHash": {"pre": "__CPROVER_requires(__CPROVER_is_fresh(self, sizeof(*self)))\n__CPROVER_assigns(self->hash_, g_hash_calls, g_hash_at_ops)\n"
        "__CPROVER_ensures(self->hash_ == g_hash_value && g_hash_calls == __CPROVER_old(g_hash_calls) + 1)\n"},
    FM + "_op_eq": {"pre": "__CPROVER_requires(__CPROVER_is_fresh(self, sizeof(*self)) && __CPROVER_is_fresh(other, sizeof(*other)))\n__CPROVER_assigns(g_mapeq_calls)\n"
        # equal as series keys exactly when the contents are equal (given the invariant hash_ == H(content), equal contents have equal hashes)
        "__CPROVER_ensures(__CPROVER_return_value == (self->hash_ == other->hash_ && g_mapeq_ret != 0))\n"},
}

FM_LAM = FM_C2 + "__l1"
contracts_fm[FM_LAM] = {"pre":
    "__CPROVER_requires(__CPROVER_is_fresh(self, sizeof(*self)) && __CPROVER_is_fresh(xc_cp_processor, sizeof(*xc_cp_processor)) && g_keys_made == 0)\n"
    "__CPROVER_requires(*xc_cp_processor == NULL || __CPROVER_is_fresh(*xc_cp_processor, sizeof(xc_opaque)))\n"
    "__CPROVER_assigns(AM_GHOSTS, g_isp_calls, g_isp_proc, g_isp_key)\n"
    # the attribute filter: without a processor every pair is stored; with one, the processor is asked about exactly this key and the pair is
    # stored exactly when it allows the key (stored = value under the key, replacing an earlier one); a dropped pair leaves the map alone
    "__CPROVER_ensures(*xc_cp_processor == NULL ==> g_isp_calls == __CPROVER_old(g_isp_calls))\n"
    "__CPROVER_ensures(*xc_cp_processor != NULL ==> (g_isp_calls == __CPROVER_old(g_isp_calls) + 1 && g_isp_proc == *xc_cp_processor && g_isp_key == key.data_))\n"
    "__CPROVER_ensures((*xc_cp_processor == NULL || g_isp_ret) ==> (g_slot_present && g_slot_val.id == value.id && g_umap_ops == __CPROVER_old(g_umap_ops) + 1 && g_key_data == key.data_ && g_key_len == key.length_))\n"
    "__CPROVER_ensures((*xc_cp_processor != NULL && !g_isp_ret) ==> (g_umap_ops == __CPROVER_old(g_umap_ops) && g_slot_present == __CPROVER_old(g_slot_present) && g_slot_val.id == __CPROVER_old(g_slot_val.id)))\n"
    "__CPROVER_ensures(__CPROVER_return_value)\n"}
contracts_fm[FM_C2] = {"pre":
    "__CPROVER_requires(__CPROVER_is_fresh(attributes, sizeof(*attributes)) && (processor == NULL || __CPROVER_is_fresh(processor, sizeof(*processor))) && g_keys_made == 0)\n"
    "__CPROVER_assigns(FM_GHOSTS, g_fe_calls, g_fe_src, g_cb_calls)\n"
    # the iterable is walked once, and the hash is taken from the finished content (no map operation after it)
    "__CPROVER_ensures(g_fe_calls == __CPROVER_old(g_fe_calls) + 1 && g_fe_src == attributes)\n"
    "__CPROVER_ensures(" + HASH_LAST + ")\n"}

proofs_fm = [
    Proof("FilteredMap_ctor_filter_callback", [(FM + "::" + FM, 2, "const common::KeyValueIterable &")], enforce=FM_LAM,
          desc="FilteredOrderedAttributeMap(iterable, processor): a delivered pair is stored exactly when the filter allows its key; last write wins"),
    Proof("FilteredMap_ctor_filter", [(FM + "::" + FM, 2, "const common::KeyValueIterable &")], enforce=FM_C2, replace=[FM_LAM],
          desc="... and the hash is computed once, after the content is complete"),
    Proof("FilteredMap_ctor_default", [(FM + "::" + FM, 0)], enforce=FM + "_ctor_0",
          desc="the default-constructed (empty) attribute set carries the hash of its content"),
    Proof("FilteredMap_UpdateHash", [(FM + "::UpdateHash", 0)], enforce=FM + "_UpdateHash"),
    Proof("FilteredMap_equal", [(FM + "::operator==", 1)], enforce=FM + "_op_eq"),
]
for _p in proofs_fm:
    _p.tu = TU_FM
    _p.pre_c = FM_PRE
    _p.post_struct_c = FM_POST
    _p.spec_headers = ()
    _p.force_records = ("nostd::string_view",)
    _p.configure = _configure_fm
    _p.own_config = True
    _p.contracts = contracts_fm
    _p.umap = True
    _p.defines_c = "typedef struct xc_attrval { unsigned long id; } xc_attrval;\n#define XC_UMAP_VAL xc_attrval\n#define XC_UMAP_ZERO {0}\n"
    _p.timeout = 300
proofs += proofs_fm


def refute_foam(mod, proof, violations, ix, workdir, seed):
    """directed native search: FilteredOrderedAttributeMap objects built along every constructor path (orders, duplicates, filters); equal
    contents must compare equal and hash equally"""
    src = ["sdk/src/metrics/state/filtered_ordered_attribute_map.cc"]
    r = R.native_check("c08_foam_native", ["c08_foam_native.cc"], [], ["-O1"], repo_sources=src)
    r["input"] = {"driver_args": [], "meaning": "no arguments: the driver builds 37 attribute sets along every constructor path and compares all pairs", "found_by": "directed native search (refute mode)"}
    return r if r["reproduced"] else None


for _p in proofs_fm:
    refuters[_p.name] = refute_foam
