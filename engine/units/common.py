"""Boundary shim tables shared by several property modules."""
from ..xc.emit import CT, ExtractionError

VALUE_CLASSES = {"string_view", "TraceId", "SpanId", "TraceFlags", "SpanContext"}


def _handle_type(em, base, targs, name):
    if base in ("nostd::shared_ptr", "shared_ptr") and targs is not None:
        return CT("xc_handle")
    return None


def _handle_ctor(em, node, args):
    if not args:
        return "((xc_handle){0})"
    if len(args) == 1:
        if em._strip_all(args[0]).get("kind") in ("CXXNullPtrLiteralExpr", "GNUNullExpr") or \
                (args[0].get("kind") == "ImplicitCastExpr" and args[0].get("castKind") == "NullToPointer"):
            return "((xc_handle){0})"
        return em.expr(args[0])
    raise ExtractionError("shared_ptr construction with %d args" % len(args))


def _new_handler(em, n):
    t = n["type"].get("qualType", "")
    inner = [c for c in n.get("inner", []) if c.get("kind")]
    if "DefaultSpan" in t:
        cx = inner[-1]
        args = [em.expr(a) for a in cx.get("inner", [])]
        return "xc_new_DefaultSpan(%s)" % ", ".join(args)
    if "SpanContext" in t:
        cx = inner[-1]
        return "xc_new_SpanContext(%s)" % em.expr(cx)
    raise ExtractionError("new-expression of %s not supported" % t)


def trace_boundary(cfg):
    cfg.value_classes |= VALUE_CLASSES
    cfg.type_handlers.append(_handle_type)
    cfg.ctor_ext["nostd::shared_ptr"] = _handle_ctor
    cfg.ext_q["TraceState::FromHeader"] = "xc_TraceState_FromHeader"
    cfg.ext_q["TraceState::GetDefault"] = "xc_TraceState_GetDefault"
    cfg.type_map["context::propagation::TextMapCarrier"] = "xc_carrier"
    cfg.type_map["context::Context"] = "xc_ctx"
    cfg.ext_q["TextMapCarrier::Get"] = lambda em, node, recv, args: "xc_carrier_get(%s)" % em.expr(args[0])
    cfg.ext_q["TextMapCarrier::Set"] = lambda em, node, recv, args: "xc_carrier_set(%s, %s)" % (em.expr(args[0]), em.expr(args[1]))
    cfg.ext_q["trace::GetSpan"] = lambda em, node, recv, args: "xc_GetSpan(%s)" % em.addr_of(args[0])
    cfg.ext_q["trace::SetSpan"] = lambda em, node, recv, args: "xc_SetSpan(%s, %s)" % (em.addr_of(args[0]), em.expr(args[1]))
    cfg.ext_q["shared_ptr<trace::Span>::operator->"] = lambda em, node, recv, args: em.expr(recv)
    cfg.ext_q["shared_ptr<trace::TraceState>::operator->"] = lambda em, node, recv, args: em.expr(recv)
    cfg.ext_q["Span::GetContext"] = lambda em, node, recv, args: "xc_span_GetContext(%s)" % em.expr(recv["node"] if recv.get("xc_is_ptr") else recv)
    cfg.ext["new"] = _new_handler
    cfg.ext_q["TraceState::ToHeader"] = lambda em, node, recv, args: "xc_TraceState_ToHeader(%s)" % em.expr(recv["node"] if recv.get("xc_is_ptr") else recv)


def trace_boundary_c(names):
    """boundary C text for a module whose propagators read the given header names (index = position in the list)"""
    assert len(names) <= 5
    table = "".join("/* header %d: %s */\n" % (i, n) for i, n in enumerate(names))
    look = ""
    for i, n in enumerate(names):
        cond = " && ".join(["key.length_ == %d" % len(n)] + ["key.data_[%d] == '%s'" % (k, c) for k, c in enumerate(n)])
        look += "  if (%s) { g_get_seen[%d]++; return g_get_ret[%d]; }\n" % (cond, i, i)
    return TRACE_BOUNDARY_C.replace("@@HDR_TABLE@@", table).replace("@@HDR_LOOKUP@@", look)


TRACE_BOUNDARY_C = '''
/* ---- carrier boundary: Get returns the next ghost input header, Set copies into a ghost log ---- */
string_view g_get_ret[XC_MAX_GET]; unsigned long g_get_seen[XC_MAX_GET]; unsigned long g_get_calls;
char g_set_key[XC_MAX_SET][XC_KEY_CAP]; unsigned long g_set_key_len[XC_MAX_SET]; char g_set_val[XC_MAX_SET][XC_SET_CAP]; unsigned long g_set_len[XC_MAX_SET]; unsigned long g_set_calls;
/* Get(name) returns the ghost input header registered for that name (by content, independent of the order of reads) */
@@HDR_TABLE@@
string_view xc_carrier_get(string_view key)
{
  g_get_calls++;
@@HDR_LOOKUP@@
  __CPROVER_assert(0, "boundary: carrier.Get of a header name the harness does not model");
  string_view none; none.data_ = ""; none.length_ = 0;
  return none;
}
void xc_carrier_set(string_view key, string_view value)
{
  __CPROVER_assert(g_set_calls < XC_MAX_SET, "boundary: more carrier.Set calls than modelled");
  __CPROVER_assert(value.length_ <= XC_SET_CAP, "boundary: injected value longer than modelled");
  __CPROVER_assert(key.length_ <= XC_KEY_CAP, "boundary: header name longer than modelled");
  g_set_key_len[g_set_calls] = key.length_;
  g_set_key[g_set_calls][0] = 0UL < key.length_ ? key.data_[0] : 0;
  g_set_key[g_set_calls][1] = 1UL < key.length_ ? key.data_[1] : 0;
  g_set_key[g_set_calls][2] = 2UL < key.length_ ? key.data_[2] : 0;
  g_set_key[g_set_calls][3] = 3UL < key.length_ ? key.data_[3] : 0;
  g_set_key[g_set_calls][4] = 4UL < key.length_ ? key.data_[4] : 0;
  g_set_key[g_set_calls][5] = 5UL < key.length_ ? key.data_[5] : 0;
  g_set_key[g_set_calls][6] = 6UL < key.length_ ? key.data_[6] : 0;
  g_set_key[g_set_calls][7] = 7UL < key.length_ ? key.data_[7] : 0;
  g_set_key[g_set_calls][8] = 8UL < key.length_ ? key.data_[8] : 0;
  g_set_key[g_set_calls][9] = 9UL < key.length_ ? key.data_[9] : 0;
  g_set_key[g_set_calls][10] = 10UL < key.length_ ? key.data_[10] : 0;
  g_set_key[g_set_calls][11] = 11UL < key.length_ ? key.data_[11] : 0;
  g_set_key[g_set_calls][12] = 12UL < key.length_ ? key.data_[12] : 0;
  g_set_key[g_set_calls][13] = 13UL < key.length_ ? key.data_[13] : 0;
  g_set_key[g_set_calls][14] = 14UL < key.length_ ? key.data_[14] : 0;
  g_set_key[g_set_calls][15] = 15UL < key.length_ ? key.data_[15] : 0;
  g_set_len[g_set_calls] = value.length_;
  /* snapshot of the value bytes, unrolled (XC_SET_CAP = 64) */
  g_set_val[g_set_calls][0] = 0UL < value.length_ ? value.data_[0] : 0;
  g_set_val[g_set_calls][1] = 1UL < value.length_ ? value.data_[1] : 0;
  g_set_val[g_set_calls][2] = 2UL < value.length_ ? value.data_[2] : 0;
  g_set_val[g_set_calls][3] = 3UL < value.length_ ? value.data_[3] : 0;
  g_set_val[g_set_calls][4] = 4UL < value.length_ ? value.data_[4] : 0;
  g_set_val[g_set_calls][5] = 5UL < value.length_ ? value.data_[5] : 0;
  g_set_val[g_set_calls][6] = 6UL < value.length_ ? value.data_[6] : 0;
  g_set_val[g_set_calls][7] = 7UL < value.length_ ? value.data_[7] : 0;
  g_set_val[g_set_calls][8] = 8UL < value.length_ ? value.data_[8] : 0;
  g_set_val[g_set_calls][9] = 9UL < value.length_ ? value.data_[9] : 0;
  g_set_val[g_set_calls][10] = 10UL < value.length_ ? value.data_[10] : 0;
  g_set_val[g_set_calls][11] = 11UL < value.length_ ? value.data_[11] : 0;
  g_set_val[g_set_calls][12] = 12UL < value.length_ ? value.data_[12] : 0;
  g_set_val[g_set_calls][13] = 13UL < value.length_ ? value.data_[13] : 0;
  g_set_val[g_set_calls][14] = 14UL < value.length_ ? value.data_[14] : 0;
  g_set_val[g_set_calls][15] = 15UL < value.length_ ? value.data_[15] : 0;
  g_set_val[g_set_calls][16] = 16UL < value.length_ ? value.data_[16] : 0;
  g_set_val[g_set_calls][17] = 17UL < value.length_ ? value.data_[17] : 0;
  g_set_val[g_set_calls][18] = 18UL < value.length_ ? value.data_[18] : 0;
  g_set_val[g_set_calls][19] = 19UL < value.length_ ? value.data_[19] : 0;
  g_set_val[g_set_calls][20] = 20UL < value.length_ ? value.data_[20] : 0;
  g_set_val[g_set_calls][21] = 21UL < value.length_ ? value.data_[21] : 0;
  g_set_val[g_set_calls][22] = 22UL < value.length_ ? value.data_[22] : 0;
  g_set_val[g_set_calls][23] = 23UL < value.length_ ? value.data_[23] : 0;
  g_set_val[g_set_calls][24] = 24UL < value.length_ ? value.data_[24] : 0;
  g_set_val[g_set_calls][25] = 25UL < value.length_ ? value.data_[25] : 0;
  g_set_val[g_set_calls][26] = 26UL < value.length_ ? value.data_[26] : 0;
  g_set_val[g_set_calls][27] = 27UL < value.length_ ? value.data_[27] : 0;
  g_set_val[g_set_calls][28] = 28UL < value.length_ ? value.data_[28] : 0;
  g_set_val[g_set_calls][29] = 29UL < value.length_ ? value.data_[29] : 0;
  g_set_val[g_set_calls][30] = 30UL < value.length_ ? value.data_[30] : 0;
  g_set_val[g_set_calls][31] = 31UL < value.length_ ? value.data_[31] : 0;
  g_set_val[g_set_calls][32] = 32UL < value.length_ ? value.data_[32] : 0;
  g_set_val[g_set_calls][33] = 33UL < value.length_ ? value.data_[33] : 0;
  g_set_val[g_set_calls][34] = 34UL < value.length_ ? value.data_[34] : 0;
  g_set_val[g_set_calls][35] = 35UL < value.length_ ? value.data_[35] : 0;
  g_set_val[g_set_calls][36] = 36UL < value.length_ ? value.data_[36] : 0;
  g_set_val[g_set_calls][37] = 37UL < value.length_ ? value.data_[37] : 0;
  g_set_val[g_set_calls][38] = 38UL < value.length_ ? value.data_[38] : 0;
  g_set_val[g_set_calls][39] = 39UL < value.length_ ? value.data_[39] : 0;
  g_set_val[g_set_calls][40] = 40UL < value.length_ ? value.data_[40] : 0;
  g_set_val[g_set_calls][41] = 41UL < value.length_ ? value.data_[41] : 0;
  g_set_val[g_set_calls][42] = 42UL < value.length_ ? value.data_[42] : 0;
  g_set_val[g_set_calls][43] = 43UL < value.length_ ? value.data_[43] : 0;
  g_set_val[g_set_calls][44] = 44UL < value.length_ ? value.data_[44] : 0;
  g_set_val[g_set_calls][45] = 45UL < value.length_ ? value.data_[45] : 0;
  g_set_val[g_set_calls][46] = 46UL < value.length_ ? value.data_[46] : 0;
  g_set_val[g_set_calls][47] = 47UL < value.length_ ? value.data_[47] : 0;
  g_set_val[g_set_calls][48] = 48UL < value.length_ ? value.data_[48] : 0;
  g_set_val[g_set_calls][49] = 49UL < value.length_ ? value.data_[49] : 0;
  g_set_val[g_set_calls][50] = 50UL < value.length_ ? value.data_[50] : 0;
  g_set_val[g_set_calls][51] = 51UL < value.length_ ? value.data_[51] : 0;
  g_set_val[g_set_calls][52] = 52UL < value.length_ ? value.data_[52] : 0;
  g_set_val[g_set_calls][53] = 53UL < value.length_ ? value.data_[53] : 0;
  g_set_val[g_set_calls][54] = 54UL < value.length_ ? value.data_[54] : 0;
  g_set_val[g_set_calls][55] = 55UL < value.length_ ? value.data_[55] : 0;
  g_set_val[g_set_calls][56] = 56UL < value.length_ ? value.data_[56] : 0;
  g_set_val[g_set_calls][57] = 57UL < value.length_ ? value.data_[57] : 0;
  g_set_val[g_set_calls][58] = 58UL < value.length_ ? value.data_[58] : 0;
  g_set_val[g_set_calls][59] = 59UL < value.length_ ? value.data_[59] : 0;
  g_set_val[g_set_calls][60] = 60UL < value.length_ ? value.data_[60] : 0;
  g_set_val[g_set_calls][61] = 61UL < value.length_ ? value.data_[61] : 0;
  g_set_val[g_set_calls][62] = 62UL < value.length_ ? value.data_[62] : 0;
  g_set_val[g_set_calls][63] = 63UL < value.length_ ? value.data_[63] : 0;
  g_set_calls++;
}
xc_str g_ts_to_header_result; unsigned long g_ts_to_header_arg;
xc_str xc_TraceState_ToHeader(xc_handle ts) { g_ts_to_header_arg = ts.id; return g_ts_to_header_result; }
/* ---- context / span boundary ---- */
SpanContext g_in_span_context;        /* the span context found in the context handed to Inject */
SpanContext g_new_span_context; unsigned long g_new_span_calls; unsigned long g_new_span_id;
unsigned long g_setspan_calls; unsigned long g_setspan_ctx_id; unsigned long g_setspan_span_id; unsigned long g_setspan_result_id;
xc_handle xc_GetSpan(const xc_ctx *context) { xc_handle h; h.id = 7; return h; }
SpanContext xc_span_GetContext(xc_handle span) { return g_in_span_context; }
xc_handle xc_new_DefaultSpan(SpanContext sc) { xc_handle h; h.id = g_new_span_id; g_new_span_context = sc; g_new_span_calls++; return h; }
xc_ctx xc_SetSpan(xc_ctx *context, xc_handle span)
{
  xc_ctx r; r.id = g_setspan_result_id; g_setspan_calls++; g_setspan_ctx_id = context->id; g_setspan_span_id = span.id; return r;
}
unsigned long g_ts_from_header_calls; const char *g_ts_header_data; unsigned long g_ts_header_len; unsigned long g_ts_from_header_result;
/* boundary: TraceState::FromHeader is verified under C14; here it records its argument and returns an identity */
xc_handle xc_TraceState_FromHeader(string_view header)
{
  xc_handle h; h.id = g_ts_from_header_result;
  g_ts_from_header_calls++; g_ts_header_data = header.data_; g_ts_header_len = header.length_;
  return h;
}
'''


def sv_lit_eq(v, lit):
    """C expression: string_view v has exactly the bytes of lit"""
    return "(%s.length_ == %d%s)" % (v, len(lit), "".join(" && %s.data_[%d] == '%s'" % (v, i, c) for i, c in enumerate(lit)))


def key_lit_eq(arr, idx, lit):
    """C expression: the recorded header name number idx (ghost snapshot arr/arr_len) equals lit"""
    return "(%s_len[%s] == %d%s)" % (arr, idx, len(lit), "".join(" && %s[%s][%d] == '%s'" % (arr, idx, i, c) for i, c in enumerate(lit)))


ID_MACROS = """
#define ID_NONZERO16(r) (((r)[0] | (r)[1] | (r)[2] | (r)[3] | (r)[4] | (r)[5] | (r)[6] | (r)[7] | (r)[8] | (r)[9] | (r)[10] | (r)[11] | (r)[12] | (r)[13] | (r)[14] | (r)[15]) != 0)
#define ID_NONZERO8(r) (((r)[0] | (r)[1] | (r)[2] | (r)[3] | (r)[4] | (r)[5] | (r)[6] | (r)[7]) != 0)
#define SC_VALID(sc) (ID_NONZERO16((sc).trace_id_.rep_) && ID_NONZERO8((sc).span_id_.rep_))
/* the SpanContext::GetInvalid() value, pointwise in the ghost byte index g_j */
#define SC_IS_INVALID(sc) ((g_j < 16 ==> (sc).trace_id_.rep_[g_j] == 0) && (g_j < 8 ==> (sc).span_id_.rep_[g_j] == 0) && (sc).trace_flags_.rep_ == 0 && !(sc).is_remote_ && (sc).trace_state_.id == XC_TS_DEFAULT_ID)
#define HEXBYTE(a, b) ((uint8_t)((HEXVAL(a) << 4) | HEXVAL(b)))
"""

SV_EQ = "op_eq_2_nostd_string_view_nostd_string_view"
SV_EQ_CSTR = "op_eq_2_nostd_string_view_cchar"


def sv_ok(v):
    return ("__CPROVER_requires(%s.length_ <= XC_MAXLEN)\n"
            "__CPROVER_requires(__CPROVER_is_fresh(%s.data_, %s.length_))\n" % (v, v, v))


SV_CONTRACTS = {
    "xc_equal_cc": {"loops": {1:
        "__CPROVER_assigns(first1, first2)\n"
        "__CPROVER_loop_invariant(__CPROVER_same_object(first1, last1) && __CPROVER_loop_entry(first1) <= first1 && first1 <= last1)\n"
        "__CPROVER_loop_invariant(first2 == __CPROVER_loop_entry(first2) + (first1 - __CPROVER_loop_entry(first1)))\n"
        "__CPROVER_loop_invariant((g_k < (size_t)(first1 - __CPROVER_loop_entry(first1))) ==> __CPROVER_loop_entry(first1)[g_k] == __CPROVER_loop_entry(first2)[g_k])\n"
        "__CPROVER_loop_invariant((0 < (size_t)(first1 - __CPROVER_loop_entry(first1))) ==> __CPROVER_loop_entry(first1)[0] == __CPROVER_loop_entry(first2)[0])\n"
        "__CPROVER_loop_invariant((1 < (size_t)(first1 - __CPROVER_loop_entry(first1))) ==> __CPROVER_loop_entry(first1)[1] == __CPROVER_loop_entry(first2)[1])\n"
        "__CPROVER_decreases(last1 - first1)\n"}},
    SV_EQ: {"pre": sv_ok("lhs") + sv_ok("rhs") +
        "__CPROVER_assigns()\n"
        "__CPROVER_ensures(__CPROVER_return_value ==> (lhs.length_ == rhs.length_ && (g_k < lhs.length_ ==> lhs.data_[g_k] == rhs.data_[g_k])))\n"
        "__CPROVER_ensures(lhs.length_ != rhs.length_ ==> !__CPROVER_return_value)\n"
        "__CPROVER_ensures((lhs.length_ == 0 && rhs.length_ == 0) ==> __CPROVER_return_value)\n"
        # exact for views of at most two bytes (comparisons with short literals such as unit suffixes)
        "__CPROVER_ensures((lhs.length_ == rhs.length_ && lhs.length_ <= 2) ==> (__CPROVER_return_value == "
        "((lhs.length_ < 1 || lhs.data_[0] == rhs.data_[0]) && (lhs.length_ < 2 || lhs.data_[1] == rhs.data_[1]))))\n"},
}


# ---------------------------------------------------------------------------------------------
# metrics SDK boundary
def _vec_type(em, base, targs, name):
    if base == "std::vector" and targs:
        t0 = targs[0].strip()
        if t0 == "double":
            return CT("xc_vec_double")
        if t0 in ("unsigned long", "uint64_t"):
            return CT("xc_vec_u64")
    return None


def _variant_type(em, base, targs, name):
    if base in ("nostd::variant", "variant", "absl::otel_v1::variant") and targs and [t.strip().replace("int64_t", "long") for t in targs] == ["long", "double"]:
        return CT("xc_value")
    return None


def _vget(em, node, recv, args):
    t = em.ctype(node["type"])
    if t.is_ref:
        t = t.pointee()
    f = {"long": "xc_vget_i64", "double": "xc_vget_f64"}.get(t.base)
    if f is None:
        raise ExtractionError("nostd::get on unsupported alternative %s" % t.base)
    return "%s(%s)" % (f, em.expr(args[0]))


def _vassign(em, node, recv, args):
    # variant::operator=(T&&): the alternative is chosen by the argument type
    a = args[0]
    t = em.ctype(a["type"])
    if t.is_ref:
        t = t.pointee()
    f = {"long": "xc_vmake_i64", "double": "xc_vmake_f64", "xc_value": ""}.get(t.base)
    if f is None:
        raise ExtractionError("variant assignment from %s" % t.base)
    return "%s = %s(%s)" % (em.expr(recv), f, em.expr(a))


def _vassign_m(em, recv, args, n):
    a = args[0]
    t = em.ctype(a["type"])
    if t.is_ref:
        t = t.pointee()
    f = {"long": "xc_vmake_i64", "double": "xc_vmake_f64", "xc_value": ""}.get(t.base)
    if f is None:
        raise ExtractionError("variant assignment from %s" % t.base)
    return "%s = %s(%s)" % (recv, f, em.expr(a))


def _iter_type(em, base, targs, name):
    if base == "__gnu_cxx::__normal_iterator" and targs:
        return em._ctype(targs[0])
    return None


def _vec_kind(em, node):
    t = em.ctype(node["type"])
    if t.is_ref:
        t = t.pointee()
    return {"xc_vec_double": "double", "xc_vec_u64": "u64"}.get(t.base)


def _vec_assign(em, recv, args, n):
    a = args[0]
    s = em._strip(a)
    kind = _vec_kind(em, n)
    if s.get("kind") == "CXXStdInitializerListExpr" or "initializer_list" in a["type"].get("qualType", ""):
        # v = {a, b, c}
        lst = s
        while lst.get("kind") != "InitListExpr" and lst.get("inner"):
            lst = lst["inner"][0]
        vals = [em.expr(c) for c in lst.get("inner", [])]
        em.report["std::vector assignment from an initializer list -> xc_vec_*_assign_list (assumed contract)"] += 1
        return "xc_vec_%s_assign_list(&(%s), %d, (const %s[]){%s})" % (kind, recv, len(vals), "double" if kind == "double" else "uint64_t", ", ".join(vals))
    if a.get("valueCategory") in ("prvalue", "xvalue") or s.get("valueCategory") in ("prvalue", "xvalue"):
        em.report["std::vector move assignment -> struct copy (old buffer not modelled)"] += 1
        return "%s = %s" % (recv, em.expr(a))
    em.report["std::vector copy assignment -> xc_vec_*_assign (assumed contract)"] += 1
    return "xc_vec_%s_assign(&(%s), %s)" % (kind, recv, em.expr(a))


def _vec_ctor(em, node, args):
    t = em.ctype(node["type"])
    kind = {"xc_vec_double": "double", "xc_vec_u64": "u64"}.get(t.base)
    real = [a for a in args if a.get("kind") != "CXXDefaultArgExpr"]
    if len(real) == 2:
        em.report["std::vector(n, value) -> xc_vec_*_make (assumed contract)"] += 1
        return "xc_vec_%s_make(%s, %s)" % (kind, em.expr(real[0]), em.expr(real[1]))
    if len(real) == 1:
        at = em.ctype(real[0]["type"])
        if at.base == t.base:
            if real[0].get("valueCategory") in ("prvalue", "xvalue"):
                return em.expr(real[0])
            return "xc_vec_%s_copy(%s)" % (kind, em.expr(real[0]))
    if not real:
        return "((%s){0, 0})" % t.base
    raise ExtractionError("std::vector construction with %d args" % len(real))


def _lower_bound(name):
    def h(em, node, recv, args):
        et = em.ctype(args[0]["type"])
        vt = em.ctype(args[2]["type"])
        if vt.is_ref:
            vt = vt.pointee()
        suf = {"long": "i64", "double": "f64"}.get(vt.base)
        if et.base != "double" or suf is None:
            raise ExtractionError("std::%s over %s / %s" % (name, et.text(), vt.text()))
        em.report["std::%s -> xc_%s_* (assumed contract: C++ standard)" % (name, name)] += 1
        return "xc_%s_%s(%s, %s, %s)" % (name, suf, em.expr(args[0]), em.expr(args[1]), em.expr(args[2]))
    return h


def _variant_ctor(em, node, args):
    real = [a for a in args if a.get("kind") != "CXXDefaultArgExpr"]
    if not real:
        return "xc_vmake_i64(0)"     # value-initialised first alternative
    t = em.ctype(real[0]["type"])
    if t.is_ref:
        t = t.pointee()
    if t.base == "xc_value":
        return em.expr(real[0])
    f = {"long": "xc_vmake_i64", "double": "xc_vmake_f64", "int": "xc_vmake_i64"}.get(t.base)
    if f is None:
        raise ExtractionError("variant construction from %s" % t.base)
    return "%s(%s)" % (f, em.expr(real[0]))


def metrics_boundary(cfg):
    cfg.type_handlers.append(_iter_type)
    cfg.ext_methods["__gnu_cxx::__normal_iterator::operator-"] = lambda em, recv, args, n: "(%s - %s)" % (recv, em.expr(args[0]))
    cfg.ext_methods["std::vector::operator="] = _vec_assign
    cfg.ctor_ext["std::vector"] = _vec_ctor
    cfg.ctor_ext["absl::otel_v1::variant"] = _variant_ctor
    cfg.ext["lower_bound"] = _lower_bound("lower_bound")
    cfg.ext["upper_bound"] = _lower_bound("upper_bound")
    cfg.type_handlers.append(_vec_type)
    cfg.type_handlers.append(_variant_type)
    cfg.ext_q["nostd::get"] = _vget
    cfg.ext["get"] = _vget
    cfg.ext_q["variant<long, double>::operator="] = _vassign
    cfg.ext_methods["absl::otel_v1::variant::operator="] = _vassign_m
    cfg.drop_types = getattr(cfg, "drop_types", set()) | {"std::lock_guard"}
    cfg.opaque_records["sdk::common::OrderedAttributeMap"] = "xc_opaque"
    cfg.opaque_records["OrderedAttributeMap"] = "xc_opaque"
    for n in ("std::vector",):
        cfg.ext_methods[n + "::size"] = lambda em, recv, args, n: "%s.len" % recv
        cfg.ext_methods[n + "::operator[]"] = lambda em, recv, args, n: "%s.data[%s]" % (recv, em.expr(args[0]))
        cfg.ext_methods[n + "::begin"] = lambda em, recv, args, n: "%s.data" % recv
        cfg.ext_methods[n + "::end"] = lambda em, recv, args, n: "(%s.data + %s.len)" % (recv, recv)
        cfg.ext_methods[n + "::empty"] = lambda em, recv, args, n: "(%s.len == 0)" % recv


# ---------------------------------------------------------------------------------------------
# SDK tracing boundary (samplers, tracer)
def _std_handle_type(em, base, targs, name):
    if base in ("std::shared_ptr", "std::unique_ptr") and targs is not None:
        return CT("xc_handle")
    return None


def sdk_trace_boundary(cfg):
    cfg.type_handlers.append(_std_handle_type)
    cfg.ctor_ext["std::unique_ptr"] = _handle_ctor
    cfg.ctor_ext["std::shared_ptr"] = _handle_ctor
    for n in ("common::KeyValueIterable", "trace::SpanContextKeyValueIterable", "KeyValueIterable", "SpanContextKeyValueIterable"):
        cfg.opaque_records[n] = "xc_opaque"
    cfg.ext["ldexp"] = lambda em, node, recv, args: "xc_ldexp(%s, %s)" % (em.expr(args[0]), em.expr(args[1]))
    cfg.ext["modf"] = "modf"
    for k in ("std::__shared_ptr_access::operator->", "std::shared_ptr::operator->", "std::unique_ptr::operator->"):
        cfg.ext_methods[k] = lambda em, recv, args, n: recv
    cfg.ext_q["Sampler::ShouldSample"] = lambda em, node, recv, args: "xc_delegate_ShouldSample(%s)" % ", ".join(
        [em.expr(recv["node"] if recv.get("xc_is_ptr") else recv)] + em.call_args(em.ix.by_id.get(node["inner"][0].get("referencedMemberDecl")) or {}, args))


# ---------------------------------------------------------------------------------------------
# std::chrono durations as plain tick counts
import re as _re


def _ratio_of(tname):
    """(num, den) of a std::chrono::duration<Rep, std::ratio<N, D>> type string"""
    m = _re.search(r"std::ratio<\s*(\d+)\s*(?:,\s*(\d+)\s*)?>", tname)
    if m:
        return int(m.group(1)), int(m.group(2) or 1)
    return 1, 1      # duration<Rep> defaults to seconds


def _dur_type(em, base, targs, name):
    if base == "std::chrono::duration" and targs:
        return em._ctype(targs[0])
    return None


def _duration_cast(em, node, recv, args):
    dst = node["type"].get("desugaredQualType") or node["type"]["qualType"]
    src = args[0]["type"].get("desugaredQualType") or args[0]["type"]["qualType"]
    dn, dd = _ratio_of(dst)
    sn, sd = _ratio_of(src)
    # libstdc++: count * (CF::num) / (CF::den) in the common rep with CF = src_period / dst_period
    from math import gcd
    num, den = sn * dd, sd * dn
    g = gcd(num, den)
    num, den = num // g, den // g
    em.report["std::chrono::duration_cast turned into the integer multiplication/division it performs"] += 1
    e = "(%s)" % em.expr(args[0])
    if num != 1:
        e = "(%s * %dL)" % (e, num)
    if den != 1:
        e = "(%s / %dL)" % (e, den)
    return e


def _time_point_type(em, base, targs, name):
    if base == "std::chrono::time_point":
        return CT("long")
    return None


def chrono_boundary(cfg):
    cfg.type_handlers.append(_dur_type)
    for n in ("system_clock::duration", "steady_clock::duration", "nanoseconds", "microseconds", "milliseconds", "seconds", "minutes", "hours",
              "system_clock::duration::rep", "steady_clock::duration::rep", "system_clock::rep"):
        cfg.type_map["std::chrono::" + n] = "long"
    cfg.ext["duration_cast"] = _duration_cast
    cfg.ctor_ext["std::chrono::duration"] = lambda em, node, args: (em.expr(args[0]) if args else "0")
    cfg.ext_methods["std::chrono::duration::operator="] = lambda em, recv, args, n: "%s = %s" % (recv, em.expr(args[0]))
    cfg.ext_methods["std::chrono::duration::count"] = lambda em, recv, args, n: recv
    for op in (">", "<", ">=", "<=", "==", "!="):
        cfg.ext_methods["std::chrono::duration::operator" + op] = (lambda o: (lambda em, recv, args, n: "(%s %s %s)" % (recv, o, em.expr(args[0]))))(op)
    cfg.type_handlers.append(_time_point_type)
    cfg.type_map["std::chrono::system_clock::time_point"] = "long"
    cfg.type_map["std::chrono::steady_clock::time_point"] = "long"
    cfg.ext_methods["std::chrono::time_point::time_since_epoch"] = lambda em, recv, args, n: recv


# ---------------------------------------------------------------------------------------------
# context boundary: Context is a one-word value (identity of its head node); equality compares that identity
def _uptr_token(em, base, targs, name):
    if base in ("nostd::unique_ptr", "unique_ptr") and targs and targs[0].strip().endswith("Token"):
        inner = em._ctype(targs[0])
        return CT(inner.base, inner.ptr + 1)
    return None


def context_boundary(cfg):
    cfg.type_handlers.append(_uptr_token)
    cfg.ctor_ext["nostd::unique_ptr"] = lambda em, node, args: (em.expr(args[0]) if args else "NULL")
    cfg.type_handlers.append(_handle_type)
    cfg.ctor_ext["nostd::shared_ptr"] = _handle_ctor
    cfg.value_classes |= {"Context", "Token"}
    # nostd::shared_ptr<T>::operator== (a template over two shared_ptr): identity comparison of the handles
    cfg.ext_q["nostd::operator=="] = lambda em, node, recv, args: "(%s.id == %s.id)" % (em.pexpr_post(args[0]), em.pexpr_post(args[1]))
    cfg.ext_q["ThreadLocalContextStorage::GetStack"] = lambda em, node, recv, args: "g_stack"
    cfg.ext["new"] = _ctx_new


def _ctx_new(em, n):
    t = n["type"].get("qualType", "")
    if n.get("isArray") and "Context" in t:
        size = [c for c in n.get("inner", []) if c.get("kind") and c["kind"] != "CXXConstructExpr"]
        em.report["new Context[n] -> xc_new_Context_array (assumed contract: fresh array of default contexts)"] += 1
        return "xc_new_Context_array(%s)" % em.expr(size[0])
    if "Token" in t:
        cx = [c for c in n.get("inner", []) if c.get("kind") == "CXXConstructExpr"][-1]
        return "xc_new_Token(%s)" % ", ".join(em.expr(a) for a in cx.get("inner", []))
    raise ExtractionError("new-expression of %s not supported" % t)


# ---------------------------------------------------------------------------------------------
# Tracer::StartSpan boundary: everything the function only calls through (config, current span, options.parent variant,
# id generator, sampler, span construction) is a recorded ghost call
_SRC_CACHE = {}


def _node_source(em, node):
    """source text of an expression node (used only to read an explicit template argument the JSON AST does not carry)"""
    f = getattr(em.cfg, "src_file", None)
    rng = node.get("range", {})
    b, e = rng.get("begin", {}), rng.get("end", {})
    b = b.get("expansionLoc", b)
    e = e.get("expansionLoc", e)
    if f is None or "offset" not in b or "offset" not in e:
        raise ExtractionError("no source range for template argument lookup")
    if f not in _SRC_CACHE:
        _SRC_CACHE[f] = open(f, "rb").read()
    return _SRC_CACHE[f][b["offset"]:e["offset"] + e.get("tokLen", 1)].decode("latin-1")


def _holds_alternative(em, node, recv, args):
    src = _node_source(em, node)
    m = _re.search(r"holds_alternative\s*<\s*([^>]+?)\s*>", src)
    if not m:
        raise ExtractionError("holds_alternative without explicit template argument: %r" % src[:80])
    alt = m.group(1).split("::")[-1]
    kinds = {"SpanContext": 0, "Context": 1}
    if alt not in kinds:
        raise ExtractionError("holds_alternative<%s> not modelled" % alt)
    em.report["nostd::holds_alternative<T>(options.parent) -> tag test (T read from the source text)"] += 1
    return "(%s.parent_kind == %d)" % (em.pexpr_post(_strip_member(em, args[0])), kinds[alt])


def _strip_member(em, a):
    s = em._strip_all(a)
    if s.get("kind") == "MemberExpr" and s.get("name") == "parent":
        return s["inner"][0]
    raise ExtractionError("variant access on something other than options.parent")


def _opt_parent_get(em, node, recv, args):
    t = em.ctype(node["type"])
    if t.is_ref:
        t = t.pointee()
    base = em.pexpr_post(_strip_member(em, args[0]))
    if t.base == "SpanContext":
        return "xc_opt_parent_sc(&(%s))" % base
    if t.base == "xc_ctx":
        return "xc_opt_parent_ctx(&(%s))" % base
    raise ExtractionError("nostd::get<%s>(options.parent) not modelled" % t.base)


def tracer_boundary(cfg):
    E = lambda name: (lambda em, node, recv, args: "%s(%s)" % (name, ", ".join(em.expr(a) for a in args)))
    cfg.opaque_records["trace::StartSpanOptions"] = "xc_StartSpanOptions"
    cfg.opaque_records["StartSpanOptions"] = "xc_StartSpanOptions"
    cfg.type_map["context::Context"] = "xc_ctx"
    cfg.ext_q["TracerConfig::IsEnabled"] = lambda em, node, recv, args: "g_tracer_enabled"
    cfg.ext_q["NoopTracer::StartSpan"] = lambda em, node, recv, args: "xc_noop_tracer_StartSpan()"
    cfg.ext_q["Tracer::GetCurrentSpan"] = lambda em, node, recv, args: "xc_GetCurrentSpan()"
    cfg.ext_q["trace::Tracer::GetCurrentSpan"] = lambda em, node, recv, args: "xc_GetCurrentSpan()"
    cfg.ext_q["Span::GetContext"] = lambda em, node, recv, args: "xc_span_GetContext(%s)" % em.expr(recv["node"] if recv.get("xc_is_ptr") else recv)
    cfg.ext_q["trace::IsRootSpan"] = lambda em, node, recv, args: "xc_IsRootSpan(%s)" % em.addr_of(args[0])
    cfg.ext_q["Tracer::GetIdGenerator"] = lambda em, node, recv, args: "g_idgen"
    cfg.ext_q["IdGenerator::GenerateSpanId"] = lambda em, node, recv, args: "xc_GenerateSpanId()"
    cfg.ext_q["IdGenerator::GenerateTraceId"] = lambda em, node, recv, args: "xc_GenerateTraceId()"
    cfg.ext_q["IdGenerator::IsRandom"] = lambda em, node, recv, args: "g_idgen_is_random"
    cfg.ext_q["TracerContext::GetSampler"] = lambda em, node, recv, args: "g_sampler"
    cfg.ext_q["Sampler::ShouldSample"] = lambda em, node, recv, args: "xc_sampler_ShouldSample(%s)" % ", ".join(
        em.call_args(em.ix.by_id.get(node["inner"][0].get("referencedMemberDecl")) or {}, args)[:2])
    cfg.ext_q["shared_ptr<trace::TraceState>::operator bool"] = lambda em, node, recv, args: "(%s.id != 0)" % em.pexpr_post(recv)
    cfg.ext["holds_alternative"] = _holds_alternative
    cfg.ext["get"] = _opt_parent_get
    cfg.opaque_records["sdk::trace::IdGenerator"] = "xc_opaque"
    cfg.opaque_records["sdk::trace::Sampler"] = "xc_opaque"


# ---------------------------------------------------------------------------------------------
# TraceState / Baggage: shared_ptr<TraceState> is a plain pointer to a heap object; new -> malloc + constructor
def _kv_ptr_type(em, base, targs, name):
    if base in ("nostd::shared_ptr", "shared_ptr") and targs and targs[0].strip().split("::")[-1] in ("TraceState", "Baggage"):
        inner = em._ctype(targs[0])
        return CT(inner.base, inner.ptr + 1)
    return None


def _kv_new(em, n):
    t = n["type"].get("qualType", "")
    inner = [c for c in n.get("inner", []) if c.get("kind")]
    if n.get("isArray"):
        size = [c for c in inner if c["kind"] != "CXXConstructExpr"]
        et = em.ctype(t)
        elem = et.pointee()
        if elem.base == "char":
            em.report["new char[n] -> xc_new_chars (malloc)"] += 1
            return "xc_new_chars(%s)" % em.expr(size[0])
        cx = [c for c in inner if c["kind"] == "CXXConstructExpr"]
        s2 = dict(cx[0]) if cx else {"type": {"qualType": elem.base}, "inner": []}
        et2 = dict(s2["type"])
        for key in ("qualType", "desugaredQualType"):
            if key in et2:
                et2[key] = _re.sub(r"\s*\[\d*\]$", "", et2[key])
        s2["type"] = et2
        em.report["new T[n] of a class type -> malloc + default construction of each element (XC_NEW_ARRAY)"] += 1
        return "XC_NEW_ARRAY(%s, %s, %s)" % (elem.base, em.expr(size[0]), em.construct_expr(s2))
    cx = [c for c in inner if c["kind"] == "CXXConstructExpr"]
    et = em.ctype(t).pointee()
    em.report["new T(args) -> malloc + constructor (XC_NEW)"] += 1
    return "XC_NEW(%s, %s)" % (et.base, em.construct_expr(cx[-1]))


def kv_boundary(cfg):
    cfg.value_classes |= {"string_view"}
    cfg.type_handlers.append(_kv_ptr_type)
    cfg.ext["new"] = _kv_new
    cfg.ctor_ext["nostd::shared_ptr"] = lambda em, node, args: (em.expr(args[0]) if args else "NULL")
    cfg.ext_q["shared_ptr<trace::TraceState>::operator->"] = lambda em, node, recv, args: em.expr(recv)
    cfg.ext_q["shared_ptr<baggage::Baggage>::operator->"] = lambda em, node, recv, args: em.expr(recv)
    cfg.ext_q["TraceState::GetDefault"] = lambda em, node, recv, args: "xc_TraceState_GetDefault_ptr()"
    cfg.ext_q["TraceState::IsValidKey"] = lambda em, node, recv, args: "xc_IsValidKey(%s)" % em.expr(args[0])
    cfg.ext_q["TraceState::IsValidValue"] = lambda em, node, recv, args: "xc_IsValidValue(%s)" % em.expr(args[0])
    cfg.ctor_ext["std::basic_string"] = _kv_str_ctor
    cfg.ctor_ext["std::__cxx11::basic_string"] = _kv_str_ctor
    for n in ("std::basic_string", "std::__cxx11::basic_string"):
        cfg.ext_methods[n + "::operator="] = lambda em, recv, args, n: "%s = %s" % (recv, em.expr(args[0]))


def _kv_str_ctor(em, node, args):
    real = [a for a in args if a.get("kind") != "CXXDefaultArgExpr"]
    if len(real) == 2:
        return "((xc_str){%s, %s})" % (em.expr(real[0]), em.expr(real[1]))
    if len(real) == 1:
        t = em.ctype(real[0]["type"])
        if t.base == "xc_str":
            return em.expr(real[0])
        lit = em._strip_all(real[0])
        if lit.get("kind") == "StringLiteral":
            import ast as _ast
            return "{%s, %d}" % (lit["value"], len(_ast.literal_eval(lit["value"])))
    if not real:
        return "((xc_str){\"\", 0})"
    raise ExtractionError("std::string construction with %d args" % len(real))


# ---------------------------------------------------------------------------------------------
# batch processors: shared_ptr<SynchronizationData> as a pointer, atomics as plain loads
def _sync_ptr_type(em, base, targs, name):
    if base in ("std::shared_ptr",) and targs and targs[0].strip().endswith("SynchronizationData"):
        inner = em._ctype(targs[0])
        return CT(inner.base, inner.ptr + 1)
    return None


def batch_boundary(cfg):
    cfg.type_handlers.insert(0, _sync_ptr_type)
    for k in ("std::__shared_ptr_access::operator->", "std::shared_ptr::operator->"):
        cfg.ext_methods[k] = lambda em, recv, args, n: recv
    for base in ("std::atomic", "std::__atomic_base"):
        cfg.ext_methods[base + "::load"] = lambda em, recv, args, n: recv
        cfg.ext_methods[base + "::operator unsigned long"] = lambda em, recv, args, n: recv
        cfg.ext_methods[base + "::operator __int_type"] = lambda em, recv, args, n: recv
        cfg.ext_methods[base + "::operator bool"] = lambda em, recv, args, n: recv
        # read-modify-write operations of one call executed alone (sequential semantics of the function under contract)
        cfg.ext_methods[base + "::store"] = lambda em, recv, args, n: "%s = %s" % (recv, em.expr(args[0]))
        cfg.ext_methods[base + "::exchange"] = lambda em, recv, args, n: "XC_EXCHANGE(%s, %s)" % (recv, em.expr(args[0]))
        cfg.ext_methods[base + "::fetch_add"] = lambda em, recv, args, n: "XC_FETCH_ADD(%s, %s)" % (recv, em.expr(args[0]))
    cfg.ext_methods["std::thread::joinable"] = lambda em, recv, args, n: "xc_thread_joinable()"
    cfg.ext_methods["std::thread::join"] = lambda em, recv, args, n: "xc_thread_join()"
    for k in ("std::condition_variable::notify_all", "std::condition_variable::notify_one"):
        cfg.ext_methods[k] = lambda em, recv, args, n: "xc_cv_notify()"
    cfg.drop_types = getattr(cfg, "drop_types", set()) | {"std::lock_guard", "std::unique_lock"}


# ---------------------------------------------------------------------------------------------
# aggregation boundary (Sum / LastValue Merge, Diff, ToPoint): PointType as a tagged union over the four point structs,
# unique_ptr<Aggregation> as a plain pointer, the virtual ToPoint() of the argument resolved to the class of `this`
POINT_ALTS = ["SumPointData", "HistogramPointData", "LastValuePointData", "DropPointData"]
POINT_UNION_C = r"""
/* sdk::metrics::PointType = nostd::variant<SumPointData, HistogramPointData, LastValuePointData, DropPointData> */
typedef struct xc_point { int tag; union { SumPointData a0; HistogramPointData a1; LastValuePointData a2; DropPointData a3; } u; } xc_point;
static inline xc_point xc_point_from_SumPointData(SumPointData x) { xc_point p; p.tag = 0; p.u.a0 = x; return p; }
static inline xc_point xc_point_from_HistogramPointData(HistogramPointData x) { xc_point p; p.tag = 1; p.u.a1 = x; return p; }
static inline xc_point xc_point_from_LastValuePointData(LastValuePointData x) { xc_point p; p.tag = 2; p.u.a2 = x; return p; }
static inline xc_point xc_point_from_DropPointData(DropPointData x) { xc_point p; p.tag = 3; p.u.a3 = x; return p; }
static inline SumPointData xc_point_get_SumPointData(xc_point p) { if (p.tag != 0) XC_THROW(); return p.u.a0; }   /* bad_variant_access */
static inline HistogramPointData xc_point_get_HistogramPointData(xc_point p) { if (p.tag != 1) XC_THROW(); return p.u.a1; }
static inline LastValuePointData xc_point_get_LastValuePointData(xc_point p) { if (p.tag != 2) XC_THROW(); return p.u.a2; }
static inline DropPointData xc_point_get_DropPointData(xc_point p) { if (p.tag != 3) XC_THROW(); return p.u.a3; }
long xc_now(void);   /* std::chrono::system_clock::now(): any value */
"""


def _point_type(em, base, targs, name):
    if base in ("nostd::variant", "variant", "absl::otel_v1::variant") and targs and \
            [t.strip().split("::")[-1] for t in targs] == POINT_ALTS:
        for a in POINT_ALTS:
            rec = em.find_record("sdk::metrics::" + a) or em.find_record(a)
            if rec is None:
                raise ExtractionError("PointType alternative %s not found" % a)
            em.need_struct(rec)
        return CT("xc_point")
    return None


def _aggr_ptr_type(em, base, targs, name):
    if base == "std::unique_ptr" and targs and targs[0].strip().split("::")[-1] == "Aggregation":
        inner = em._ctype(targs[0])
        return CT(inner.base, inner.ptr + 1)
    return None


def _point_get(em, node, recv, args):
    at = em.ctype(args[0]["type"])
    if at.is_ref:
        at = at.pointee()
    if at.base != "xc_point":
        return _vget(em, node, recv, args)
    t = em.ctype(node["type"])
    if t.is_ref:
        t = t.pointee()
    if t.base not in POINT_ALTS:
        raise ExtractionError("nostd::get<%s> on a PointType" % t.base)
    em.report["nostd::get<T>(PointType) -> tag test (bad_variant_access = termination) + member of the union"] += 1
    return "xc_point_get_%s(%s)" % (t.base, em.expr(args[0]))


def _point_ctor(em, node, args):
    t = em.ctype(node["type"])
    if t.base != "xc_point":
        return _variant_ctor(em, node, args)
    real = [a for a in args if a.get("kind") != "CXXDefaultArgExpr"]
    at = em.ctype(real[0]["type"])
    if at.is_ref:
        at = at.pointee()
    if at.base == "xc_point":
        return em.expr(real[0])
    if at.base not in POINT_ALTS:
        raise ExtractionError("PointType construction from %s" % at.base)
    return "xc_point_from_%s(%s)" % (at.base, em.expr(real[0]))


def _virtual_topoint(em, node, recv, args):
    """x.ToPoint() through a `const Aggregation &`: resolved to ToPoint of the class whose member is being extracted (the storages only
    ever merge aggregations of one kind; recorded as an assumption)"""
    rec = em.ix.record_of_method(em.cur["decl"])
    q = em.ix.qual.get(rec["id"], "")
    qn, d = em.ix.find_function(q + "::ToPoint", 0)
    cname = em.need_function(d)
    em.report["virtual Aggregation::ToPoint() of the argument resolved to the class of `this` (same-kind assumption)"] += 1
    r = recv["node"] if isinstance(recv, dict) and "node" in recv else recv
    rt = em.ctype(r["type"])
    e = em.expr(r)
    ptr = e if (rt.ptr or rt.is_ref) and not isinstance(recv, dict) else "&(%s)" % e
    if isinstance(recv, dict) and recv.get("xc_is_ptr"):
        ptr = e
    return "%s((const %s *)(%s))" % (cname, em.record_cname(rec), ptr)


def aggregation_boundary(cfg):
    cfg.type_handlers.insert(0, _point_type)
    cfg.type_handlers.insert(0, _aggr_ptr_type)
    cfg.ext_q["nostd::get"] = _point_get
    cfg.ext["get"] = _point_get
    cfg.ctor_ext["absl::otel_v1::variant"] = _point_ctor
    cfg.ctor_ext["std::unique_ptr"] = lambda em, node, args: (em.expr(args[0]) if args else "NULL")
    cfg.ext_methods["std::unique_ptr::get"] = lambda em, recv, args, n: recv
    cfg.ext["new"] = _kv_new
    cfg.ext_q["Aggregation::ToPoint"] = _virtual_topoint
    cfg.ext_q["system_clock::now"] = lambda em, node, recv, args: "xc_now()"
    cfg.ext["now"] = lambda em, node, recv, args: "xc_now()"


# ---------------------------------------------------------------------------------------------
# sdk::trace::Span boundary: the recordable and the processor are handles; every call made on them is a ghost-recorded call
def _variant_opaque(em, base, targs, name):
    # common::AttributeValue and friends: the span only passes them on
    if base in ("nostd::variant", "variant", "absl::otel_v1::variant") and targs and len(targs) > 4:
        return CT("xc_opaque")
    return None


def _rec_call(method):
    def h(em, node, recv, args):
        r = recv["node"] if isinstance(recv, dict) and recv.get("xc_is_ptr") else recv
        md = em.ix.by_id.get(node["inner"][0].get("referencedMemberDecl")) or {}
        tags = []
        for p in md.get("inner", []):
            if p.get("kind") == "ParmVarDecl":
                t = em.ctype(p["type"])
                tags.append({"string_view": "s", "SystemTimestamp": "t", "xc_opaque": "p", "int": "i", "long": "i"}.get(t.base, "x"))
        em.report["calls on the recordable (virtual Recordable::*) turned into ghost-recorded boundary calls"] += 1
        return "xc_rec_%s_%s(%s)" % (method, "".join(tags) or "v", ", ".join([em.expr(r)] + em.call_args(md, args)))
    return h


def span_boundary(cfg):
    cfg.type_handlers.insert(0, _variant_opaque)
    for k in ("std::unique_ptr::operator==", "std::unique_ptr::operator!="):
        op = k[-2:]
        cfg.ext_methods[k] = (lambda o: (lambda em, recv, args, n: "(%s.id %s 0)" % (recv, o)))(op)
    cfg.ext_methods["std::unique_ptr::reset"] = lambda em, recv, args, n: "%s.id = %s" % (recv, ("(%s).id" % em.expr(args[0])) if [a for a in args if a.get("kind") != "CXXDefaultArgExpr"] else "0")
    for m in ("SetAttribute", "AddEvent", "AddLink", "SetStatus", "SetName", "SetDuration", "SetStartTime", "SetSpanKind", "SetResource",
              "SetInstrumentationScope", "SetIdentity", "SetTraceFlags"):
        cfg.ext_q["Recordable::" + m] = _rec_call(m)
    cfg.ext_q["Tracer::GetProcessor"] = lambda em, node, recv, args: "xc_tracer_GetProcessor(%s)" % em.expr(recv["node"] if isinstance(recv, dict) and recv.get("xc_is_ptr") else recv)
    cfg.ext_q["SpanProcessor::OnEnd"] = lambda em, node, recv, args: "xc_proc_OnEnd(%s, %s)" % (em.expr(recv["node"] if isinstance(recv, dict) and recv.get("xc_is_ptr") else recv), em.expr(args[0]))
    cfg.ext["now"] = lambda em, node, recv, args: ("xc_steady_now()" if "steady" in (node["type"].get("qualType", "") + node["type"].get("desugaredQualType", "")) else "xc_now()")
    cfg.ext_methods["std::chrono::time_point::operator-"] = lambda em, recv, args, n: "(%s - %s)" % (recv, em.expr(args[0]))
    cfg.ctor_ext["std::chrono::time_point"] = lambda em, node, args: (em.expr(args[0]) if args else "0")
    cfg.drop_types = getattr(cfg, "drop_types", set()) | {"std::lock_guard"}


# ---------------------------------------------------------------------------------------------
# baggage codec boundary: std::string as a string builder (xc_strbuild.h), range-for over string_view
def _sb_ctor(em, node, args):
    real = [a for a in args if a.get("kind") != "CXXDefaultArgExpr"]
    if not real:
        return "xc_sb_new()"
    s = em._strip_all(real[0])
    if s.get("kind") == "StringLiteral" and s.get("value") == '""':
        em.report["std::string(\"\") -> empty string builder"] += 1
        return "xc_sb_new()"
    t = em.ctype(real[0]["type"])
    if t.base == "xc_sb":
        return em.expr(real[0])
    if len(real) == 2 and t.base == "char" and t.ptr == 1:
        # std::string(const char *, n): a fresh builder holding a copy (xc_strbuild.h: xc_sb_append; fully unwound harnesses only)
        em.report["std::string(ptr, n) -> fresh string builder + copy"] += 1
        return "({ xc_sb xc_n = xc_sb_new(); xc_sb_append(&xc_n, %s, %s); xc_n; })" % (em.expr(real[0]), em.expr(real[1]))
    raise ExtractionError("std::string construction from %s" % t.text())


def strbuild_boundary(cfg):
    for n in ("std::string", "std::basic_string<char>", "std::basic_string", "std::__cxx11::basic_string"):
        cfg.type_map[n] = "xc_sb"
    for n in ("std::basic_string", "std::__cxx11::basic_string"):
        cfg.ctor_ext[n] = _sb_ctor
        cfg.ext_methods[n + "::push_back"] = lambda em, recv, args, n: "xc_sb_push(&(%s), %s)" % (recv, em.expr(args[0]))
    cfg.value_classes |= {"string_view"}
    if not hasattr(cfg, "seq_handlers"):
        cfg.seq_handlers = {}
    cfg.seq_handlers["nostd::string_view"] = lambda em, seq, targs: ("(%s).data_" % seq, "(%s).length_" % seq)
    cfg.seq_handlers["string_view"] = cfg.seq_handlers["nostd::string_view"]


# ---------------------------------------------------------------------------------------------
# std::unordered_map boundary (assumed contract = the C++ standard): the map is seen through ONE ghost slot, the slot of the key
# the operation under contract writes; whether that key is already present on entry is arbitrary
UMAP_C = r"""
typedef struct xc_umap { char xc_unused; } xc_umap;
typedef struct xc_key { unsigned long id; } xc_key;
int g_slot_present;            /* is the key present in the map */
XC_UMAP_VAL g_slot_val;        /* its mapped value */
unsigned long g_slot_key;      /* the key of the last map operation */
unsigned long g_umap_ops;      /* number of map operations */
/* operator[](key): reference to the mapped value, value-initialised first if the key is absent */
static XC_UMAP_VAL *xc_umap_index(xc_umap *m, xc_key key)
{
  g_umap_ops++; g_slot_key = key.id;
  if (!g_slot_present) { g_slot_present = 1; g_slot_val = (XC_UMAP_VAL)XC_UMAP_ZERO; }
  return &g_slot_val;
}
/* emplace(key, value) / insert({key, value}): inserts only if the key is absent */
static void xc_umap_emplace(xc_umap *m, xc_key key, XC_UMAP_VAL v)
{
  g_umap_ops++; g_slot_key = key.id;
  if (!g_slot_present) { g_slot_present = 1; g_slot_val = v; }
}
/* insert_or_assign(key, value) */
static void xc_umap_insert_or_assign(xc_umap *m, xc_key key, XC_UMAP_VAL v)
{
  g_umap_ops++; g_slot_key = key.id; g_slot_present = 1; g_slot_val = v;
}
"""


def _umap_type(em, base, targs, name):
    if base == "std::unordered_map":
        return CT("xc_umap")
    return None


def umap_boundary(cfg, key_ctor):
    """key_ctor(em, key_arg_node) -> C expression of type xc_key for the key argument of a map operation"""
    cfg.type_handlers.insert(0, _umap_type)
    cfg.ext_methods["std::unordered_map::operator[]"] = lambda em, recv, args, n: "(*xc_umap_index(&(%s), %s))" % (recv, key_ctor(em, args[0]))
    cfg.ext_methods["std::unordered_map::emplace"] = lambda em, recv, args, n: "xc_umap_emplace(&(%s), %s, %s)" % (recv, key_ctor(em, args[0]), em.expr(args[1]))
    cfg.ext_methods["std::unordered_map::try_emplace"] = cfg.ext_methods["std::unordered_map::emplace"]
    cfg.ext_methods["std::unordered_map::insert_or_assign"] = lambda em, recv, args, n: "xc_umap_insert_or_assign(&(%s), %s, %s)" % (recv, key_ctor(em, args[0]), em.expr(args[1]))
