"""C17 - gauges keep the latest value: LastValue aggregation (sdk/src/metrics/aggregation/lastvalue_aggregation.cc)."""
from ..core import Proof
from .. import refute as R
from . import common

prop_id = "C17"
tu_name = "tu_lastvalue"
tu_text = '#include "%s/sdk/src/metrics/aggregation/lastvalue_aggregation.cc"\n' % R.core.REPO
spec_headers = ("xc_metrics_boundary.h",)
pre_c = r"""
long g_now;
static void xc_havoc_ghosts(void) { long a; g_now = a; }
#define FEQ(a, b) ((a) == (b) || (__CPROVER_isnand(a) && __CPROVER_isnand(b)))
/* equality of two ValueType (variant<int64_t,double>) values: same alternative, same content */
#define VEQ(a, b) ((a).tag == (b).tag && ((a).tag == 0 ? (a).u.i == (b).u.i : FEQ((a).u.d, (b).u.d)))
#define WF_V(v) ((v).tag == 0 || (v).tag == 1)
#define TS(p) ((p).sample_ts_.nanos_since_epoch_)
/* two LastValue points carry the same sample */
#define SAME(p, q) (VEQ((p).value_, (q).value_) && (p).is_lastvalue_valid_ == (q).is_lastvalue_valid_ && TS(p) == TS(q))
"""
post_struct_c = common.POINT_UNION_C + r"""
long xc_now(void) { return g_now; }
"""
force_records = ("sdk::metrics::SumPointData", "sdk::metrics::HistogramPointData", "sdk::metrics::LastValuePointData", "sdk::metrics::DropPointData")


def configure(cfg):
    common.metrics_boundary(cfg)
    common.chrono_boundary(cfg)
    common.aggregation_boundary(cfg)


def merge_contract(T, other):
    # property: "report the most recently observed or recorded value": of two samples the one with the later timestamp is kept
    # (equal timestamps: either sample); both operands are left unchanged; the result is a new object
    sub = {"T": T, "o": other, "RES": "(((%s *)__CPROVER_return_value)->point_data_)" % T, "SELF": "(self->point_data_)",
           "OTHER": "(((const %s *)%s)->point_data_)" % (T, other)}
    return {"pre": (
        "__CPROVER_requires(__CPROVER_is_fresh(self, sizeof(%(T)s)) && __CPROVER_is_fresh(%(o)s, sizeof(%(T)s)))\n"
        "__CPROVER_requires(WF_V(%(SELF)s.value_) && WF_V(%(OTHER)s.value_))\n"
        "__CPROVER_assigns()\n"
        "__CPROVER_ensures(__CPROVER_is_fresh(__CPROVER_return_value, sizeof(%(T)s)))\n"
        "__CPROVER_ensures(TS(%(RES)s) == (TS(%(SELF)s) > TS(%(OTHER)s) ? TS(%(SELF)s) : TS(%(OTHER)s)))\n"
        "__CPROVER_ensures(TS(%(SELF)s) > TS(%(OTHER)s) ==> SAME(%(RES)s, %(SELF)s))\n"
        "__CPROVER_ensures(TS(%(OTHER)s) > TS(%(SELF)s) ==> SAME(%(RES)s, %(OTHER)s))\n"
        "__CPROVER_ensures(TS(%(OTHER)s) == TS(%(SELF)s) ==> (SAME(%(RES)s, %(OTHER)s) || SAME(%(RES)s, %(SELF)s)))\n"
        "__CPROVER_ensures(SAME(%(SELF)s, __CPROVER_old(self->point_data_)) && SAME(%(OTHER)s, __CPROVER_old(((const %(T)s *)%(o)s)->point_data_)))\n") % sub}


def aggregate_contract(T, mk):
    return {"pre":
        "__CPROVER_requires(__CPROVER_is_fresh(self, sizeof(%(T)s)))\n"
        "__CPROVER_assigns(self->point_data_)\n"
        "__CPROVER_ensures(self->point_data_.is_lastvalue_valid_ && VEQ(self->point_data_.value_, %(mk)s(value)) && TS(self->point_data_) == g_now)\n" % {"T": T, "mk": mk}}


def topoint_contract(T):
    return {"pre":
        "__CPROVER_requires(__CPROVER_is_fresh(self, sizeof(%(T)s)) && WF_V(self->point_data_.value_))\n"
        "__CPROVER_assigns()\n"
        "__CPROVER_ensures(__CPROVER_return_value.tag == 2 && SAME(__CPROVER_return_value.u.a2, self->point_data_))\n" % {"T": T}}


def ctor_contract():
    return {"pre": "__CPROVER_assigns()\n"
            "__CPROVER_ensures(!__CPROVER_return_value.point_data_.is_lastvalue_valid_ && TS(__CPROVER_return_value.point_data_) == 0)\n"}


L, D = "LongLastValueAggregation", "DoubleLastValueAggregation"
contracts = {
    L + "_Merge": merge_contract(L, "delta"), L + "_Diff": merge_contract(L, "next"),
    D + "_Merge": merge_contract(D, "delta"), D + "_Diff": merge_contract(D, "next"),
    L + "_Aggregate": aggregate_contract(L, "xc_vmake_i64"), D + "_Aggregate": aggregate_contract(D, "xc_vmake_f64"),
    L + "_ToPoint": topoint_contract(L), D + "_ToPoint": topoint_contract(D),
    L + "_ctor_0": ctor_contract(), D + "_ctor_0": ctor_contract(),
}


def configure_names(cfg):
    cfg.cnames_sig = tuple(getattr(cfg, "cnames_sig", ())) + (
        (L + "::Aggregate", "int64_t", L + "_Aggregate"), (D + "::Aggregate", "(double", D + "_Aggregate"))


_conf0 = configure


def configure(cfg):   # noqa: F811
    _conf0(cfg)
    configure_names(cfg)


proofs = [
    Proof("LongLastValue_Merge", [(L + "::Merge", 1)], enforce=L + "_Merge"),
    Proof("LongLastValue_Diff", [(L + "::Diff", 1)], enforce=L + "_Diff"),
    Proof("DoubleLastValue_Merge", [(D + "::Merge", 1)], enforce=D + "_Merge"),
    Proof("DoubleLastValue_Diff", [(D + "::Diff", 1)], enforce=D + "_Diff"),
    Proof("LongLastValue_Aggregate", [(L + "::Aggregate", 2, "int64_t")], enforce=L + "_Aggregate"),
    Proof("DoubleLastValue_Aggregate", [(D + "::Aggregate", 2, "(double")], enforce=D + "_Aggregate"),
    Proof("LongLastValue_ToPoint", [(L + "::ToPoint", 0)], enforce=L + "_ToPoint"),
    Proof("DoubleLastValue_ToPoint", [(D + "::ToPoint", 0)], enforce=D + "_ToPoint"),
    Proof("LongLastValue_ctor", [(L + "::" + L, 0)], enforce=L + "_ctor_0"),
    Proof("DoubleLastValue_ctor", [(D + "::" + D, 0)], enforce=D + "_ctor_0"),
]
trusted = ("std::lock_guard<SpinLockMutex> dropped (sequential semantics of one call)", "system_clock::now() = any value (ghost g_now)",
           "nostd::variant as tagged unions (xc_value, xc_point); unique_ptr<Aggregation> as a plain pointer; new = malloc + constructor")
assumptions = (
    "only the LastValue aggregation algebra is under contract: Aggregate, Merge, Diff, ToPoint and the default constructor of the long and "
    "double variants; the argument of Merge/Diff is assumed to be an aggregation of the same class (the virtual ToPoint() of the argument is "
    "resolved to the class of `this`)",
    "the observable-callback part of C17 (each callback exactly once per collection, removed callbacks never again), AsyncMetricStorage's "
    "delta conversion and per-reader state are NOT covered",
)
not_covered = ("ObservableRegistry / Meter::Collect", "AsyncMetricStorage::Record", "TemporalMetricStorage", "attribute hash maps")


# ---------------------------------------------------------------------------------------------
# ObserverResultT<T>::Observe: "observable ... gauges report, per attribute set, the most recently observed value" starts here: the value
# reported for an attribute set during one callback is the last one observed, whether or not the set was observed before
TU_OBS = ("tu_observer", '#include "%s/sdk/include/opentelemetry/sdk/metrics/observer_result.h"\n'
          'template class opentelemetry::sdk::metrics::ObserverResultT<int64_t>;\n'
          'template class opentelemetry::sdk::metrics::ObserverResultT<double>;\n' % R.core.REPO)
OBS_PRE = r"""
const void *g_key_attrs, *g_key_proc; unsigned long g_keys_made;
static void xc_havoc_ghosts(void) { int p; XC_UMAP_VAL v; unsigned long a, b; g_slot_present = p; g_slot_val = v; g_slot_key = a; g_umap_ops = b; g_key_attrs = 0; g_key_proc = 0; g_keys_made = 0; }
/* MetricAttributes{attributes, processor}: the key is identified by what it is built from */
static xc_key xc_mkkey(const void *attrs, const void *proc) { xc_key k; g_keys_made++; k.id = g_keys_made; g_key_attrs = attrs; g_key_proc = proc; return k; }
#define FEQ(a, b) ((a) == (b) || ((a) != (a) && (b) != (b)))
"""


def _obs_key(em, node):
    s = em._strip_all(node)
    while s.get("kind") in ("CXXFunctionalCastExpr", "CXXBindTemporaryExpr", "MaterializeTemporaryExpr") and s.get("inner"):
        s = em._strip_all(s["inner"][0])
    if s.get("kind") not in ("CXXTemporaryObjectExpr", "CXXConstructExpr"):
        raise common.ExtractionError("map key is not a MetricAttributes{...} temporary: %s" % s.get("kind"))
    args = [a for a in s.get("inner", []) if a.get("kind") != "CXXDefaultArgExpr"]
    out = []
    for a in args[:2]:
        t = None
        try:
            t = em.ctype(a["type"])
        except Exception:
            pass
        if t is not None and (t.ptr or t.is_ref):
            out.append("(const void *)(%s)" % (em.expr(a) if t.ptr and not t.is_ref else em.addr_of(a)))
        elif t is not None and t.base == "xc_opaque":
            out.append("(const void *)(%s)" % em.addr_of(a))
        else:
            out.append("(const void *)0")     # {}: no attributes
    while len(out) < 2:
        out.append("(const void *)0")
    return "xc_mkkey(%s)" % ", ".join(out)


def _configure_obs(cfg):
    common.sdk_trace_boundary(cfg)
    common.umap_boundary(cfg, _obs_key)


def obs_contract(T, with_attrs, eq):
    return {"pre":
        "__CPROVER_requires(__CPROVER_is_fresh(self, sizeof(%s)))\n" % T +
        "__CPROVER_assigns(g_slot_present, g_slot_val, g_slot_key, g_umap_ops, g_key_attrs, g_key_proc, g_keys_made)\n"
        "__CPROVER_ensures(g_slot_present && %s)\n" % (eq % ("g_slot_val", "value")) +
        "__CPROVER_ensures(g_umap_ops == __CPROVER_old(g_umap_ops) + 1 && g_keys_made == 1 && g_slot_key == 1)\n"
        "__CPROVER_ensures(g_key_proc == self->attributes_processor_ && g_key_attrs == %s)\n" % ("attributes" if with_attrs else "0")}


OBS = [("ObserverResult_long_Observe", "ObserverResultT<long>::Observe", 1, "ObserverResultT_long", "long", "0", "(%s == %s)"),
       ("ObserverResult_long_Observe_attrs", "ObserverResultT<long>::Observe", 2, "ObserverResultT_long", "long", "0", "(%s == %s)"),
       ("ObserverResult_double_Observe", "ObserverResultT<double>::Observe", 1, "ObserverResultT_double", "double", "0.0", "FEQ(%s, %s)"),
       ("ObserverResult_double_Observe_attrs", "ObserverResultT<double>::Observe", 2, "ObserverResultT_double", "double", "0.0", "FEQ(%s, %s)")]
for _name, _fn, _np, _T, _vt, _zero, _eq in OBS:
    _c = "%s_Observe_%d" % (_T, _np)
    contracts[_c] = obs_contract(_T, _np == 2, _eq)
    _p = Proof(_name, [(_fn, _np)], enforce=_c, configure=_configure_obs,
               desc="the value reported for the attribute set is the value just observed, also when the set was observed before in this callback")
    _p.tu = TU_OBS
    _p.defines_c = "#define XC_UMAP_VAL %s\n#define XC_UMAP_ZERO %s\n" % (_vt, _zero)
    _p.pre_c = OBS_PRE
    _p.post_struct_c = ""
    _p.spec_headers = ("xc_trace_boundary.h",)
    _p.umap = True
    _p.force_records = ()
    proofs.append(_p)

DRIVER = ("c17_native", ["c17_native.cc"], ["sdk/src/metrics/aggregation/lastvalue_aggregation.cc", "sdk/src/metrics/state/filtered_ordered_attribute_map.cc"])


def refute_search(mod, proof, violations, ix, workdir, seed):
    """directed native search on the real aggregation classes: both classes x Merge/Diff x earlier/later/equal timestamps; Aggregate twice"""
    import os, re as _re, subprocess
    binpath = R.build_native(DRIVER[0], [os.path.join(R.core.HERE, "replay", s) for s in DRIVER[1]] + [os.path.join(R.core.REPO, s) for s in DRIVER[2]])
    full = subprocess.run([binpath, "search"], stdout=subprocess.PIPE, stderr=subprocess.STDOUT, text=True, timeout=300).stdout
    m = _re.findall(r"^FOUND (.*)$", full, _re.M)
    if not m:
        return None
    args = m[-1].split()
    r = R.native_check(DRIVER[0], DRIVER[1], args, repo_sources=DRIVER[2])
    r["input"] = {"driver_args": args, "meaning": "pair <0 long|1 double> <0 Merge|1 Diff> <ts1> <v1> <ts2> <v2>  |  aggregate", "found_by": "directed native search (refute mode)"}
    return r if r["reproduced"] else None


refuters = {p.name: refute_search for p in proofs}


# ---------------------------------------------------------------------------------------------
# AsyncMetricStorage::Record<T> (sdk/include/opentelemetry/sdk/metrics/state/async_metric_storage.h): "a delta reader receives the difference
# from what that same reader was last given": every reported attribute set is looked up in THE cumulative map (the one kept across
# observations), the delta map gets (new - previous) when there is a previous value and the new value otherwise, the cumulative map gets the
# new value; the two maps themselves stay in place (nothing else in them is dropped).
TU_AMS = ("tu_async_storage", '#include "%s/sdk/include/opentelemetry/sdk/metrics/state/async_metric_storage.h"\n'
          'template void opentelemetry::sdk::metrics::AsyncMetricStorage::Record<int64_t>(const std::unordered_map<opentelemetry::sdk::metrics::MetricAttributes, int64_t, opentelemetry::sdk::metrics::AttributeHashGenerator> &, opentelemetry::common::SystemTimestamp) noexcept;\n'
          'template void opentelemetry::sdk::metrics::AsyncMetricStorage::Record<double>(const std::unordered_map<opentelemetry::sdk::metrics::MetricAttributes, double, opentelemetry::sdk::metrics::AttributeHashGenerator> &, opentelemetry::common::SystemTimestamp) noexcept;\n' % R.core.REPO)
AMS_PRE = r"""
size_t g_k;
typedef struct xc_aggr { unsigned long id; } xc_aggr;          /* an Aggregation object: its identity */
typedef struct xc_ahm { char xc_unused; } xc_ahm;              /* an AttributesHashMap: its identity is its address */
/* ghost record of the boundary calls of the iteration g_k (the iteration under consideration) */
unsigned long g_iter;                                           /* iterations started */
unsigned long g_new_calls, g_agg_calls, g_get_calls, g_diff_calls, g_clone_calls, g_setc_calls, g_setd_calls, g_set_other;
const void *g_get_map, *g_get_key; xc_aggr *g_get_ret;          /* Get of iteration g_k: on which map, for which key, what it returned */
xc_aggr *g_new_ret, *g_diff_self, *g_diff_arg, *g_diff_ret, *g_clone_arg, *g_clone_ret;
const void *g_setc_key, *g_setd_key; xc_aggr *g_setc_val, *g_setd_val;
const void *g_cum, *g_delta;                                    /* the storage's two maps at entry */
static void xc_havoc_ghosts(void) { size_t a; g_k = a; g_iter = 0; g_new_calls = g_agg_calls = g_get_calls = g_diff_calls = g_clone_calls = g_setc_calls = g_setd_calls = g_set_other = 0;
  g_get_map = g_get_key = 0; g_get_ret = 0; g_new_ret = g_diff_self = g_diff_arg = g_diff_ret = g_clone_arg = g_clone_ret = 0; g_setc_key = g_setd_key = 0; g_setc_val = g_setd_val = 0; }
#define THIS_ITER (g_iter == g_k + 1)
"""
AMS_POST = r"""
/* DefaultAggregation::CreateAggregation / CloneAggregation, Aggregation::Aggregate / Diff, AttributesHashMap::Get / Set: boundary calls.
   Fresh objects come from malloc; Get returns an arbitrary entry or NULL (the map's content is arbitrary). */
/* (dfcc does not allow allocation inside a loop under a loop contract: the four kinds of object are four distinct static objects, which is all
   the contract needs - it follows identities within one iteration and the code never looks inside) */
static xc_aggr xc_o_new, xc_o_get, xc_o_diff, xc_o_clone;
static xc_aggr *xc_CreateAggregation(void) { xc_aggr *p = &xc_o_new; g_new_calls++; if (THIS_ITER) g_new_ret = p; return p; }
static void xc_Aggregate(xc_aggr *a) { g_agg_calls++; }
static xc_aggr *xc_ahm_Get(const xc_ahm *m, const void *key) { xc_aggr *r; bool present; g_get_calls++; r = present ? &xc_o_get : NULL; if (THIS_ITER) { g_get_map = m; g_get_key = key; g_get_ret = r; } return r; }
static xc_aggr *xc_Diff(xc_aggr *self, xc_aggr *next) { xc_aggr *p = &xc_o_diff; g_diff_calls++; if (THIS_ITER) { g_diff_self = self; g_diff_arg = next; g_diff_ret = p; } return p; }
static xc_aggr *xc_Clone(xc_aggr *a) { xc_aggr *p = &xc_o_clone; g_clone_calls++; if (THIS_ITER) { g_clone_arg = a; g_clone_ret = p; } return p; }
static void xc_ahm_Set(xc_ahm *m, const void *key, xc_aggr *v)
{
  if ((const void *)m == g_cum) { g_setc_calls++; if (THIS_ITER) { g_setc_key = key; g_setc_val = v; } }
  else if ((const void *)m == g_delta) { g_setd_calls++; if (THIS_ITER) { g_setd_key = key; g_setd_val = v; } }
  else g_set_other++;
}
"""


def _ams_types(em, base, targs, name):
    if base == "std::unique_ptr" and targs:
        last = targs[0].strip().split("::")[-1]
        if last == "Aggregation":
            return common.CT("xc_aggr", 1)
        if last.startswith("AttributesHashMap"):
            return common.CT("xc_ahm", 1)
    if base == "std::unordered_map" and targs and len(targs) >= 2:
        vt = em._ctype(targs[1])
        return common.CT("xc_meas_%s" % vt.base)
    if base == "std::pair" and targs and len(targs) == 2 and "FilteredOrderedAttributeMap" in targs[0]:
        vt = em._ctype(targs[1])
        return common.CT("xc_pair_%s" % vt.base)
    return None


def _configure_ams(cfg):
    common.sdk_trace_boundary(cfg)
    common.chrono_boundary(cfg)
    cfg.type_handlers.insert(0, _ams_types)
    cfg.drop_types = getattr(cfg, "drop_types", set()) | {"std::lock_guard"}
    for r in ("sdk::metrics::FilteredOrderedAttributeMap", "sdk::metrics::InstrumentDescriptor", "sdk::metrics::AggregationConfig", "sdk::metrics::TemporalMetricStorage",
              "common::SpinLockMutex", "sdk::metrics::Aggregation"):
        cfg.opaque_records[r] = "xc_opaque"
    cfg.type_map["sdk::metrics::Aggregation"] = "xc_aggr"
    for vt, ct in (("long", "long"), ("double", "double")):
        for ns in ("opentelemetry::sdk::metrics::", "sdk::metrics::", "opentelemetry::v1::sdk::metrics::"):
            cfg.type_map["std::__detail::_Node_const_iterator<std::pair<const %sFilteredOrderedAttributeMap, %s>, false, true>::value_type" % (ns, vt)] = "xc_pair_" + ct
            cfg.type_map["std::pair<const %sFilteredOrderedAttributeMap, %s>" % (ns, vt)] = "xc_pair_" + ct
    if not hasattr(cfg, "seq_handlers"):
        cfg.seq_handlers = {}
    for k in ("xc_meas_long", "xc_meas_double"):
        cfg.seq_handlers[k] = lambda em, seq, targs: ("(%s).items" % seq, "(%s).count" % seq)
    cfg.seq_handlers["std::unordered_map"] = lambda em, seq, targs: ("(%s).items" % seq, "(%s).count" % seq)
    unp = lambda r: (r["node"] if isinstance(r, dict) and r.get("xc_is_ptr") else r)
    cfg.ext_q["DefaultAggregation::CreateAggregation"] = lambda em, node, recv, args: "xc_CreateAggregation()"
    cfg.ext_q["DefaultAggregation::CloneAggregation"] = lambda em, node, recv, args: "xc_Clone(%s)" % em.addr_of(args[2])
    cfg.ext_q["Aggregation::Aggregate"] = lambda em, node, recv, args: "xc_Aggregate(%s)" % em.expr(unp(recv))
    cfg.ext_q["Aggregation::Diff"] = lambda em, node, recv, args: "xc_Diff(%s, %s)" % (em.expr(unp(recv)), em.addr_of(args[0]))
    for cls in ("AttributesHashMapWithCustomHash<sdk::metrics::FilteredOrderedAttributeMapHash>", "AttributesHashMapWithCustomHash", "AttributesHashMap"):
        cfg.ext_q[cls + "::Get"] = lambda em, node, recv, args: "xc_ahm_Get(%s, (const void *)%s)" % (em.expr(unp(recv)), em.addr_of(args[0]))
        cfg.ext_q[cls + "::Set"] = lambda em, node, recv, args: "xc_ahm_Set(%s, (const void *)%s, %s)" % (em.expr(unp(recv)), em.addr_of(args[0]), em.expr(args[1]))
    U = "std::unique_ptr::"
    cfg.ext_methods[U + "operator->"] = lambda em, recv, args, n: recv
    cfg.ext_methods[U + "operator*"] = lambda em, recv, args, n: "(*%s)" % recv
    cfg.ext_methods[U + "get"] = lambda em, recv, args, n: recv
    cfg.ext_methods[U + "operator bool"] = lambda em, recv, args, n: "(%s != NULL)" % recv
    cfg.ext_methods[U + "reset"] = lambda em, recv, args, n: "%s = %s" % (recv, em.expr(args[0]) if [a for a in args if a.get("kind") != "CXXDefaultArgExpr"] else "NULL")
    cfg.ctor_ext["std::unique_ptr"] = lambda em, node, args: (em.expr(args[0]) if args else "NULL")
    cfg.ext["new"] = lambda em, n: "((xc_ahm *)malloc(sizeof(xc_ahm)))"


def _ams_defs(vt):
    return ("typedef struct xc_opaque_fwd xc_opaque_fwd;\n"
            "#define XC_MEAS_T %s\n" % vt)


AMS_STRUCTS = r"""
typedef struct xc_pair_long { xc_opaque first; long second; } xc_pair_long;
typedef struct xc_meas_long { xc_pair_long *items; size_t count; } xc_meas_long;
typedef struct xc_pair_double { xc_opaque first; double second; } xc_pair_double;
typedef struct xc_meas_double { xc_pair_double *items; size_t count; } xc_meas_double;
"""


def record_contract(vt):
    return {"pre":
        "__CPROVER_requires(__CPROVER_is_fresh(self, sizeof(*self)) && __CPROVER_is_fresh(measurements, sizeof(*measurements)) && measurements->count <= 64 && __CPROVER_is_fresh(measurements->items, measurements->count * sizeof(xc_pair_%s)))\n" % vt +
        "__CPROVER_requires(__CPROVER_is_fresh(self->cumulative_hash_map_, sizeof(xc_ahm)) && __CPROVER_is_fresh(self->delta_hash_map_, sizeof(xc_ahm)) && g_cum == self->cumulative_hash_map_ && g_delta == self->delta_hash_map_)\n"
        # frame: the two maps stay where they are (Record does not replace or drop the cumulative baseline), only ghosts change
        "__CPROVER_assigns(g_iter, g_new_calls, g_agg_calls, g_get_calls, g_diff_calls, g_clone_calls, g_setc_calls, g_setd_calls, g_set_other, g_get_map, g_get_key, g_get_ret, g_new_ret, g_diff_self, g_diff_arg, g_diff_ret, g_clone_arg, g_clone_ret, g_setc_key, g_setd_key, g_setc_val, g_setd_val)\n"
        "__CPROVER_ensures(self->cumulative_hash_map_ == g_cum && self->delta_hash_map_ == g_delta && g_set_other == 0)\n"
        # one lookup, one cumulative store and one delta store per reported attribute set
        "__CPROVER_ensures(g_iter == measurements->count && g_get_calls == g_iter && g_setc_calls == g_iter && g_setd_calls == g_iter && g_new_calls == g_iter && g_agg_calls == g_iter)\n"
        # the reported set number g_k: looked up in the cumulative map kept across observations, under its own key
        "__CPROVER_ensures(g_k < measurements->count ==> (g_get_map == g_cum && g_get_key == &measurements->items[g_k].first && g_setc_key == g_get_key && g_setd_key == g_get_key))\n"
        # previous value known: delta = previous.Diff(new), cumulative = new; unknown: delta = new, cumulative = a copy of new
        "__CPROVER_ensures((g_k < measurements->count && g_get_ret != NULL) ==> (g_diff_self == g_get_ret && g_diff_arg == g_new_ret && g_setd_val == g_diff_ret && g_setc_val == g_new_ret))\n"
        "__CPROVER_ensures((g_k < measurements->count && g_get_ret == NULL) ==> (g_setd_val == g_new_ret && g_clone_arg == g_new_ret && g_setc_val == g_clone_ret))\n",
        "loops": {1:
            "__CPROVER_assigns(xc_i1, g_iter, g_new_calls, g_agg_calls, g_get_calls, g_diff_calls, g_clone_calls, g_setc_calls, g_setd_calls, g_set_other, g_get_map, g_get_key, g_get_ret, g_new_ret, g_diff_self, g_diff_arg, g_diff_ret, g_clone_arg, g_clone_ret, g_setc_key, g_setd_key, g_setc_val, g_setd_val)\n"
            "__CPROVER_loop_invariant(xc_i1 <= measurements->count && g_iter == xc_i1 && g_get_calls == xc_i1 && g_setc_calls == xc_i1 && g_setd_calls == xc_i1 && g_new_calls == xc_i1 && g_agg_calls == xc_i1 && g_set_other == 0)\n"
            "__CPROVER_loop_invariant(self->cumulative_hash_map_ == g_cum && self->delta_hash_map_ == g_delta)\n"
            "__CPROVER_loop_invariant(g_k < xc_i1 ==> (g_get_map == g_cum && g_get_key == &measurements->items[g_k].first && g_setc_key == g_get_key && g_setd_key == g_get_key))\n"
            "__CPROVER_loop_invariant((g_k < xc_i1 && g_get_ret != NULL) ==> (g_diff_self == g_get_ret && g_diff_arg == g_new_ret && g_setd_val == g_diff_ret && g_setc_val == g_new_ret))\n"
            "__CPROVER_loop_invariant((g_k < xc_i1 && g_get_ret == NULL) ==> (g_setd_val == g_new_ret && g_clone_arg == g_new_ret && g_setc_val == g_clone_ret))\n"
            "__CPROVER_decreases(measurements->count - xc_i1)\n"},
        "ghost": {(1, "body_start"): "g_iter++;"}}


contracts_ams = {"AsyncMetricStorage_Record_long": record_contract("long"), "AsyncMetricStorage_Record_double": record_contract("double")}
proofs_ams = [
    Proof("AsyncStorage_Record_long", [("AsyncMetricStorage::Record<long>", 2)], enforce="AsyncMetricStorage_Record_long",
          desc="observable counters: per reported attribute set one lookup in the persistent cumulative map, delta = previous.Diff(new) or new, cumulative = new; the maps stay in place"),
    Proof("AsyncStorage_Record_double", [("AsyncMetricStorage::Record<double>", 2)], enforce="AsyncMetricStorage_Record_double", desc="same for double"),
]
for _p in proofs_ams:
    _p.tu = TU_AMS
    _p.pre_c = AMS_PRE + AMS_STRUCTS
    _p.post_struct_c = AMS_POST
    _p.spec_headers = ("xc_trace_boundary.h",)
    _p.force_records = ()
    _p.configure = _configure_ams
    _p.own_config = True
    _p.contracts = contracts_ams
    _p.timeout = 600
proofs += proofs_ams


def refute_async(mod, proof, violations, ix, workdir, seed):
    """directed native search on a real MeterProvider with an observable counter: every plan of up to 4 collections in which each of two attribute
    sets is reported or skipped, cumulative and delta reader"""
    import os, re as _re, subprocess
    from . import c08 as _c08
    srcs = _c08._repo_sources()
    binpath = R.build_native("c17_async_native", [os.path.join(R.core.HERE, "replay", "c17_async_native.cc")] + [os.path.join(R.core.REPO, s) for s in srcs], ["-O1"])
    full = subprocess.run([binpath, "search"], stdout=subprocess.PIPE, stderr=subprocess.STDOUT, text=True, timeout=600).stdout
    m = _re.findall(r"^FOUND (.*)$", full, _re.M)
    if not m:
        return None
    args = m[-1].split()
    r = R.native_check("c17_async_native", ["c17_async_native.cc"], args, ["-O1"], repo_sources=srcs)
    r["input"] = {"driver_args": args, "meaning": "plan <per collection: a = only set A reported, b = only B, x = both, - = none> <0 cumulative | 1 delta reader>", "found_by": "directed native search (refute mode)"}
    return r if r["reproduced"] else None


for _p in proofs_ams:
    refuters[_p.name] = refute_async
