"""C17 - gauges keep the latest value: LastValue aggregation (sdk/src/metrics/aggregation/lastvalue_aggregation.cc)."""
from ..core import Proof
from .. import refute as R
from . import common

prop_id = "C17"
tu_name = "tu_lastvalue"
tu_text = '#include "%s/sdk/src/metrics/aggregation/lastvalue_aggregation.cc"\n' % R.core.REPO
spec_headers = ("xc_metrics_boundary.h",)
pre_c = r"""
long g_now;
static void xc_havoc_ghosts(void) { long a; g_now = a; }
#define FEQ(a, b) ((a) == (b) || (__CPROVER_isnand(a) && __CPROVER_isnand(b)))
/* equality of two ValueType (variant<int64_t,double>) values: same alternative, same content */
#define VEQ(a, b) ((a).tag == (b).tag && ((a).tag == 0 ? (a).u.i == (b).u.i : FEQ((a).u.d, (b).u.d)))
#define WF_V(v) ((v).tag == 0 || (v).tag == 1)
#define TS(p) ((p).sample_ts_.nanos_since_epoch_)
/* two LastValue points carry the same sample */
#define SAME(p, q) (VEQ((p).value_, (q).value_) && (p).is_lastvalue_valid_ == (q).is_lastvalue_valid_ && TS(p) == TS(q))
"""
post_struct_c = common.POINT_UNION_C + r"""
long xc_now(void) { return g_now; }
"""
force_records = ("sdk::metrics::SumPointData", "sdk::metrics::HistogramPointData", "sdk::metrics::LastValuePointData", "sdk::metrics::DropPointData")


def configure(cfg):
    common.metrics_boundary(cfg)
    common.chrono_boundary(cfg)
    common.aggregation_boundary(cfg)


def merge_contract(T, other):
    # property: "report the most recently observed or recorded value": of two samples the one with the later timestamp is kept
    # (equal timestamps: either sample); both operands are left unchanged; the result is a new object
    sub = {"T": T, "o": other, "RES": "(((%s *)__CPROVER_return_value)->point_data_)" % T, "SELF": "(self->point_data_)",
           "OTHER": "(((const %s *)%s)->point_data_)" % (T, other)}
    return {"pre": (
        "__CPROVER_requires(__CPROVER_is_fresh(self, sizeof(%(T)s)) && __CPROVER_is_fresh(%(o)s, sizeof(%(T)s)))\n"
        "__CPROVER_requires(WF_V(%(SELF)s.value_) && WF_V(%(OTHER)s.value_))\n"
        "__CPROVER_assigns()\n"
        "__CPROVER_ensures(__CPROVER_is_fresh(__CPROVER_return_value, sizeof(%(T)s)))\n"
        "__CPROVER_ensures(TS(%(RES)s) == (TS(%(SELF)s) > TS(%(OTHER)s) ? TS(%(SELF)s) : TS(%(OTHER)s)))\n"
        "__CPROVER_ensures(TS(%(SELF)s) > TS(%(OTHER)s) ==> SAME(%(RES)s, %(SELF)s))\n"
        "__CPROVER_ensures(TS(%(OTHER)s) > TS(%(SELF)s) ==> SAME(%(RES)s, %(OTHER)s))\n"
        "__CPROVER_ensures(TS(%(OTHER)s) == TS(%(SELF)s) ==> (SAME(%(RES)s, %(OTHER)s) || SAME(%(RES)s, %(SELF)s)))\n"
        "__CPROVER_ensures(SAME(%(SELF)s, __CPROVER_old(self->point_data_)) && SAME(%(OTHER)s, __CPROVER_old(((const %(T)s *)%(o)s)->point_data_)))\n") % sub}


def aggregate_contract(T, mk):
    return {"pre":
        "__CPROVER_requires(__CPROVER_is_fresh(self, sizeof(%(T)s)))\n"
        "__CPROVER_assigns(self->point_data_)\n"
        "__CPROVER_ensures(self->point_data_.is_lastvalue_valid_ && VEQ(self->point_data_.value_, %(mk)s(value)) && TS(self->point_data_) == g_now)\n" % {"T": T, "mk": mk}}


def topoint_contract(T):
    return {"pre":
        "__CPROVER_requires(__CPROVER_is_fresh(self, sizeof(%(T)s)) && WF_V(self->point_data_.value_))\n"
        "__CPROVER_assigns()\n"
        "__CPROVER_ensures(__CPROVER_return_value.tag == 2 && SAME(__CPROVER_return_value.u.a2, self->point_data_))\n" % {"T": T}}


def ctor_contract():
    return {"pre": "__CPROVER_assigns()\n"
            "__CPROVER_ensures(!__CPROVER_return_value.point_data_.is_lastvalue_valid_ && TS(__CPROVER_return_value.point_data_) == 0)\n"}


L, D = "LongLastValueAggregation", "DoubleLastValueAggregation"
contracts = {
    L + "_Merge": merge_contract(L, "delta"), L + "_Diff": merge_contract(L, "next"),
    D + "_Merge": merge_contract(D, "delta"), D + "_Diff": merge_contract(D, "next"),
    L + "_Aggregate": aggregate_contract(L, "xc_vmake_i64"), D + "_Aggregate": aggregate_contract(D, "xc_vmake_f64"),
    L + "_ToPoint": topoint_contract(L), D + "_ToPoint": topoint_contract(D),
    L + "_ctor_0": ctor_contract(), D + "_ctor_0": ctor_contract(),
}


def configure_names(cfg):
    cfg.cnames_sig = tuple(getattr(cfg, "cnames_sig", ())) + (
        (L + "::Aggregate", "int64_t", L + "_Aggregate"), (D + "::Aggregate", "(double", D + "_Aggregate"))


_conf0 = configure


def configure(cfg):   # noqa: F811
    _conf0(cfg)
    configure_names(cfg)


proofs = [
    Proof("LongLastValue_Merge", [(L + "::Merge", 1)], enforce=L + "_Merge"),
    Proof("LongLastValue_Diff", [(L + "::Diff", 1)], enforce=L + "_Diff"),
    Proof("DoubleLastValue_Merge", [(D + "::Merge", 1)], enforce=D + "_Merge"),
    Proof("DoubleLastValue_Diff", [(D + "::Diff", 1)], enforce=D + "_Diff"),
    Proof("LongLastValue_Aggregate", [(L + "::Aggregate", 2, "int64_t")], enforce=L + "_Aggregate"),
    Proof("DoubleLastValue_Aggregate", [(D + "::Aggregate", 2, "(double")], enforce=D + "_Aggregate"),
    Proof("LongLastValue_ToPoint", [(L + "::ToPoint", 0)], enforce=L + "_ToPoint"),
    Proof("DoubleLastValue_ToPoint", [(D + "::ToPoint", 0)], enforce=D + "_ToPoint"),
    Proof("LongLastValue_ctor", [(L + "::" + L, 0)], enforce=L + "_ctor_0"),
    Proof("DoubleLastValue_ctor", [(D + "::" + D, 0)], enforce=D + "_ctor_0"),
]
trusted = ("std::lock_guard<SpinLockMutex> dropped (sequential semantics of one call)", "system_clock::now() = any value (ghost g_now)",
           "nostd::variant as tagged unions (xc_value, xc_point); unique_ptr<Aggregation> as a plain pointer; new = malloc + constructor")
assumptions = (
    "only the LastValue aggregation algebra is under contract: Aggregate, Merge, Diff, ToPoint and the default constructor of the long and "
    "double variants; the argument of Merge/Diff is assumed to be an aggregation of the same class (the virtual ToPoint() of the argument is "
    "resolved to the class of `this`)",
    "the observable-callback part of C17 (each callback exactly once per collection, removed callbacks never again), AsyncMetricStorage's "
    "delta conversion and per-reader state are NOT covered",
)
not_covered = ("ObservableRegistry / Meter::Collect", "AsyncMetricStorage::Record", "TemporalMetricStorage", "attribute hash maps")


# ---------------------------------------------------------------------------------------------
# ObserverResultT<T>::Observe: "observable ... gauges report, per attribute set, the most recently observed value" starts here: the value
# reported for an attribute set during one callback is the last one observed, whether or not the set was observed before
TU_OBS = ("tu_observer", '#include "%s/sdk/include/opentelemetry/sdk/metrics/observer_result.h"\n'
          'template class opentelemetry::sdk::metrics::ObserverResultT<int64_t>;\n'
          'template class opentelemetry::sdk::metrics::ObserverResultT<double>;\n' % R.core.REPO)
OBS_PRE = r"""
const void *g_key_attrs, *g_key_proc; unsigned long g_keys_made;
static void xc_havoc_ghosts(void) { int p; XC_UMAP_VAL v; unsigned long a, b; g_slot_present = p; g_slot_val = v; g_slot_key = a; g_umap_ops = b; g_key_attrs = 0; g_key_proc = 0; g_keys_made = 0; }
/* MetricAttributes{attributes, processor}: the key is identified by what it is built from */
static xc_key xc_mkkey(const void *attrs, const void *proc) { xc_key k; g_keys_made++; k.id = g_keys_made; g_key_attrs = attrs; g_key_proc = proc; return k; }
#define FEQ(a, b) ((a) == (b) || ((a) != (a) && (b) != (b)))
"""


def _obs_key(em, node):
    s = em._strip_all(node)
    while s.get("kind") in ("CXXFunctionalCastExpr", "CXXBindTemporaryExpr", "MaterializeTemporaryExpr") and s.get("inner"):
        s = em._strip_all(s["inner"][0])
    if s.get("kind") not in ("CXXTemporaryObjectExpr", "CXXConstructExpr"):
        raise common.ExtractionError("map key is not a MetricAttributes{...} temporary: %s" % s.get("kind"))
    args = [a for a in s.get("inner", []) if a.get("kind") != "CXXDefaultArgExpr"]
    out = []
    for a in args[:2]:
        t = None
        try:
            t = em.ctype(a["type"])
        except Exception:
            pass
        if t is not None and (t.ptr or t.is_ref):
            out.append("(const void *)(%s)" % (em.expr(a) if t.ptr and not t.is_ref else em.addr_of(a)))
        elif t is not None and t.base == "xc_opaque":
            out.append("(const void *)(%s)" % em.addr_of(a))
        else:
            out.append("(const void *)0")     # {}: no attributes
    while len(out) < 2:
        out.append("(const void *)0")
    return "xc_mkkey(%s)" % ", ".join(out)


def _configure_obs(cfg):
    common.sdk_trace_boundary(cfg)
    common.umap_boundary(cfg, _obs_key)


def obs_contract(T, with_attrs, eq):
    return {"pre":
        "__CPROVER_requires(__CPROVER_is_fresh(self, sizeof(%s)))\n" % T +
        "__CPROVER_assigns(g_slot_present, g_slot_val, g_slot_key, g_umap_ops, g_key_attrs, g_key_proc, g_keys_made)\n"
        "__CPROVER_ensures(g_slot_present && %s)\n" % (eq % ("g_slot_val", "value")) +
        "__CPROVER_ensures(g_umap_ops == __CPROVER_old(g_umap_ops) + 1 && g_keys_made == 1 && g_slot_key == 1)\n"
        "__CPROVER_ensures(g_key_proc == self->attributes_processor_ && g_key_attrs == %s)\n" % ("attributes" if with_attrs else "0")}


OBS = [("ObserverResult_long_Observe", "ObserverResultT<long>::Observe", 1, "ObserverResultT_long", "long", "0", "(%s == %s)"),
       ("ObserverResult_long_Observe_attrs", "ObserverResultT<long>::Observe", 2, "ObserverResultT_long", "long", "0", "(%s == %s)"),
       ("ObserverResult_double_Observe", "ObserverResultT<double>::Observe", 1, "ObserverResultT_double", "double", "0.0", "FEQ(%s, %s)"),
       ("ObserverResult_double_Observe_attrs", "ObserverResultT<double>::Observe", 2, "ObserverResultT_double", "double", "0.0", "FEQ(%s, %s)")]
for _name, _fn, _np, _T, _vt, _zero, _eq in OBS:
    _c = "%s_Observe_%d" % (_T, _np)
    contracts[_c] = obs_contract(_T, _np == 2, _eq)
    _p = Proof(_name, [(_fn, _np)], enforce=_c, configure=_configure_obs,
               desc="the value reported for the attribute set is the value just observed, also when the set was observed before in this callback")
    _p.tu = TU_OBS
    _p.defines_c = "#define XC_UMAP_VAL %s\n#define XC_UMAP_ZERO %s\n" % (_vt, _zero)
    _p.pre_c = OBS_PRE
    _p.post_struct_c = ""
    _p.spec_headers = ("xc_trace_boundary.h",)
    _p.umap = True
    _p.force_records = ()
    proofs.append(_p)

DRIVER = ("c17_native", ["c17_native.cc"], ["sdk/src/metrics/aggregation/lastvalue_aggregation.cc", "sdk/src/metrics/state/filtered_ordered_attribute_map.cc"])


def refute_search(mod, proof, violations, ix, workdir, seed):
    """directed native search on the real aggregation classes: both classes x Merge/Diff x earlier/later/equal timestamps; Aggregate twice"""
    import os, re as _re, subprocess
    binpath = R.build_native(DRIVER[0], [os.path.join(R.core.HERE, "replay", s) for s in DRIVER[1]] + [os.path.join(R.core.REPO, s) for s in DRIVER[2]])
    full = subprocess.run([binpath, "search"], stdout=subprocess.PIPE, stderr=subprocess.STDOUT, text=True, timeout=300).stdout
    m = _re.findall(r"^FOUND (.*)$", full, _re.M)
    if not m:
        return None
    args = m[-1].split()
    r = R.native_check(DRIVER[0], DRIVER[1], args, repo_sources=DRIVER[2])
    r["input"] = {"driver_args": args, "meaning": "pair <0 long|1 double> <0 Merge|1 Diff> <ts1> <v1> <ts2> <v2>  |  aggregate", "found_by": "directed native search (refute mode)"}
    return r if r["reproduced"] else None


refuters = {p.name: refute_search for p in proofs}
