"""C14 - TraceState / KeyValueProperties / KeyValueStringTokenizer (api/include/opentelemetry/trace/trace_state.h, common/kv_properties.h)."""
from ..core import Proof
from .. import refute as R
from . import common
from . import c09

prop_id = "C14"
tu_name = "tu_tracestate"
tu_text = '#include "opentelemetry/trace/trace_state.h"\n'
spec_headers = ()
force_records = ("nostd::string_view", "trace::TraceState")
pre_c = r"""
size_t g_k; size_t g_off; size_t g_off2; unsigned long g_deleted;
static void xc_havoc_ghosts(void) { size_t a, b, c; g_k = a; g_off = b; g_off2 = c; }
#define XC_MAXLEN 65536UL
#define POFF(p) ((size_t)__CPROVER_POINTER_OFFSET(p))
#define XC_ISSPACE(c) ((c) == ' ' || ((c) >= 9 && (c) <= 13))
#define PTR_OBJ_AT(p, o) (*((p) - POFF(p) + (o)))
#define UC(c) ((unsigned char)(c))
#define SVR(v) ((v).length_ <= XC_MAXLEN && __CPROVER_is_fresh((v).data_, (v).length_))
size_t g_diff; int g_thrown;
#define TR_OFF ((size_t)(__CPROVER_return_value.data_ - str.data_))
"""
post_struct_c = r"""
/* W3C tracestate grammar (assumed contract of the std::regex based IsValidKey/IsValidValue; cross-checked natively by c14_native) */
static bool xc_lcd(char c) { return (c >= 'a' && c <= 'z') || (c >= '0' && c <= '9'); }
static bool xc_keych(char c) { return xc_lcd(c) || c == '_' || c == '-' || c == '*' || c == '/'; }
bool xc_IsValidKey(string_view k)
{
  if (k.length_ == 0 || k.length_ > 256 || !xc_lcd(k.data_[0])) return false;
  unsigned long at = 0, atpos = 0;
  for (unsigned long i = 1; i < k.length_; i++)
  {
    if (k.data_[i] == '@') { at++; atpos = i; if (at > 1) return false; continue; }
    if (!xc_keych(k.data_[i])) return false;
  }
  if (at == 1) return atpos <= 241 && atpos + 1 < k.length_ && k.length_ - atpos - 1 <= 14 && xc_lcd(k.data_[atpos + 1]);
  return true;
}
bool xc_IsValidValue(string_view v)
{
  if (v.length_ == 0 || v.length_ > 256) return false;
  for (unsigned long i = 0; i < v.length_; i++)
    if (v.data_[i] < ' ' || v.data_[i] > '~' || v.data_[i] == ',' || v.data_[i] == '=') return false;
  return v.data_[v.length_ - 1] != ' ';
}
TraceState *g_default_ts;
TraceState *xc_TraceState_GetDefault_ptr(void) { return g_default_ts; }
"""


def configure(cfg):
    common.kv_boundary(cfg)


# ---- unbounded contracts: the tokenizer never reads outside the header, makes progress, and returns sub-views -------------
TOK = "self"
STR_OK = "(self->str_.length_ <= XC_MAXLEN && __CPROVER_is_fresh(self->str_.data_, self->str_.length_))"
contracts = dict(common.SV_CONTRACTS)
contracts.update({k: v for k, v in c09.contracts.items() if k in ("StringUtil_Trim_3",)})
from . import c20 as _c20
contracts["string_view_find"] = _c20.contracts["string_view_find"]
post_struct_c += _c20.post_struct_c
assumed_contracts = dict(_c20.assumed_contracts)
assumed_contracts["string_view_find"] = "discharged by ./check C20 (sv_find)"
contracts.update({
    "KeyValueStringTokenizer_NumTokens": {"pre":
        "__CPROVER_requires(__CPROVER_is_fresh(self, sizeof(*self)) && %s)\n__CPROVER_assigns()\n" % STR_OK +
        "__CPROVER_ensures(__CPROVER_return_value <= self->str_.length_)\n"
        "__CPROVER_ensures(self->str_.length_ > 0 ==> __CPROVER_return_value >= 1)\n",
        "loops": {1: "__CPROVER_assigns(cnt, begin)\n"
                     "__CPROVER_loop_invariant(cnt <= begin && begin <= self->str_.length_ && (cnt == 0 ==> begin == 0))\n"
                     "__CPROVER_decreases(self->str_.length_ + 1 - begin)\n"}},
    "KeyValueStringTokenizer_next": {"pre":
        "__CPROVER_requires(__CPROVER_is_fresh(self, sizeof(*self)) && %s && self->index_ <= self->str_.length_ + 1)\n" % STR_OK +
        "__CPROVER_requires(__CPROVER_is_fresh(valid_kv, 1) && __CPROVER_is_fresh(key, sizeof(string_view)) && __CPROVER_is_fresh(value, sizeof(string_view)))\n"
        "__CPROVER_requires(self->opts_.ignore_empty_members)\n"
        "__CPROVER_assigns(self->index_, *valid_kv, *key, *value)\n"
        # progress (so that FromHeader's loop terminates) and bounds
        "__CPROVER_ensures(__CPROVER_return_value ==> (self->index_ > __CPROVER_old(self->index_) && self->index_ <= self->str_.length_ + 1))\n"
        "__CPROVER_ensures(!__CPROVER_return_value ==> self->index_ >= self->str_.length_)\n"
        # a returned key/value pair consists of sub-views of the header, the key ends right before a key-value separator
        "__CPROVER_ensures((__CPROVER_return_value && *valid_kv) ==> (__CPROVER_same_object(key->data_, self->str_.data_) && POFF(key->data_) + key->length_ <= self->str_.length_ && "
        "__CPROVER_same_object(value->data_, self->str_.data_) && POFF(value->data_) + value->length_ <= self->str_.length_ && "
        "POFF(value->data_) == POFF(key->data_) + key->length_ + 1 && self->str_.data_[POFF(key->data_) + key->length_] == self->opts_.key_value_separator))\n",
        "loops": {1: "__CPROVER_assigns(self->index_, *valid_kv, *key, *value)\n"
                     "__CPROVER_loop_invariant(self->index_ >= __CPROVER_loop_entry(self->index_) && self->index_ <= self->str_.length_ + 1)\n"
                     "__CPROVER_decreases(self->str_.length_ + 1 - self->index_)\n"}},
})

# ---- bounded stand-in for the list semantics of Set / Delete / Get / FromHeader (everything inlined, full unwinding) -----------
H_COMMON = r"""
#define NMAX 3
static char xc_kc(void) { char c; __CPROVER_assume(c == 'a' || c == 'b' || c == 'c'); return c; }
static char xc_vc(void) { char c; __CPROVER_assume(c == 'x' || c == 'y'); return c; }
/* builds a TraceState with n <= NMAX members (distinct one-byte keys) through the real AddEntry */
static TraceState *xc_build(unsigned n, char *keys, char *vals)
{
  TraceState *ts = XC_NEW(TraceState, TraceState_ctor_1_size_t(n));
  for (unsigned i = 0; i < n; i++)
  {
    keys[i] = xc_kc(); vals[i] = xc_vc();
    for (unsigned j = 0; j < i; j++) __CPROVER_assume(keys[j] != keys[i]);
    string_view k = {1, &keys[i]}, v = {1, &vals[i]};
    KeyValueProperties_AddEntry(ts->kv_properties_.ptr_, k, v);
  }
  return ts;
}
static bool xc_entry_is(const TraceState *ts, unsigned i, char k, char v)
{
  const Entry *e = &ts->kv_properties_.ptr_->entries_.ptr_[i];
  return e->key_.ptr_[0] == k && e->key_.ptr_[1] == 0 && e->value_.ptr_[0] == v && e->value_.ptr_[1] == 0;
}
static void xc_init_default(void) { g_default_ts = XC_NEW(TraceState, TraceState_ctor_1_size_t(0)); }
"""
H_SET = H_COMMON + r"""
void h_Set_bounded(void)
{
  xc_havoc_ghosts(); xc_init_default();
  unsigned n; __CPROVER_assume(n <= NMAX);
  char keys[NMAX], vals[NMAX];
  TraceState *ts = xc_build(n, keys, vals);
  char kc = xc_kc(), vc = xc_vc();
  string_view k = {1, &kc}, v = {1, &vc};
  TraceState *r = TraceState_Set(ts, k, v);
  unsigned present = 0; for (unsigned i = 0; i < n; i++) if (keys[i] == kc) present = 1;
  unsigned long rs = r->kv_properties_.ptr_->num_entries_;
  __CPROVER_assert(r != g_default_ts, "SET: a valid key/value never yields the default state");
  __CPROVER_assert(rs == n + 1 - present, "SET: one member more for a new key, the same number for an existing key");
  __CPROVER_assert(rs >= 1 && xc_entry_is(r, 0, kc, vc), "SET: the given key is first, with the new value");
  unsigned pos = 1;
  for (unsigned i = 0; i < n; i++)
    if (keys[i] != kc)
    {
      __CPROVER_assert(pos < rs && xc_entry_is(r, pos, keys[i], vals[i]), "SET: every other member is kept once, in its previous relative order");
      pos++;
    }
  for (unsigned i = 1; i < rs && i <= NMAX; i++)
    __CPROVER_assert(r->kv_properties_.ptr_->entries_.ptr_[i].key_.ptr_[0] != kc, "SET: never a second member with the same key");
  __CPROVER_assert(ts->kv_properties_.ptr_->num_entries_ == n, "SET: the original object is not modified (size)");
  for (unsigned i = 0; i < n; i++) __CPROVER_assert(xc_entry_is(ts, i, keys[i], vals[i]), "SET: the original object is not modified (members)");
  /* invalid key or value: the empty default */
  char bad = 'A'; string_view kb = {1, &bad};
  __CPROVER_assert(TraceState_Set(ts, kb, v) == g_default_ts, "SET: an invalid key yields the default state");
  char badv = ','; string_view vb = {1, &badv};
  __CPROVER_assert(TraceState_Set(ts, k, vb) == g_default_ts, "SET: an invalid value yields the default state");
  __CPROVER_assert(0, "XC_CANARY end of harness reachable");
}
"""
H_DELETE = H_COMMON + r"""
void h_Delete_Get_bounded(void)
{
  xc_havoc_ghosts(); xc_init_default();
  unsigned n; __CPROVER_assume(n <= NMAX);
  char keys[NMAX], vals[NMAX];
  TraceState *ts = xc_build(n, keys, vals);
  char kc = xc_kc();
  string_view k = {1, &kc};
  TraceState *r = TraceState_Delete(ts, k);
  unsigned present = 0; for (unsigned i = 0; i < n; i++) if (keys[i] == kc) present = 1;
  unsigned long rs = r->kv_properties_.ptr_->num_entries_;
  __CPROVER_assert(rs == n - present, "DELETE: exactly the given key is removed");
  unsigned pos = 0;
  for (unsigned i = 0; i < n; i++)
    if (keys[i] != kc) { __CPROVER_assert(pos < rs && xc_entry_is(r, pos, keys[i], vals[i]), "DELETE: the other members stay, in order"); pos++; }
  __CPROVER_assert(ts->kv_properties_.ptr_->num_entries_ == n, "DELETE: the original object is not modified");
  for (unsigned i = 0; i < n; i++) __CPROVER_assert(xc_entry_is(ts, i, keys[i], vals[i]), "DELETE: the original object is not modified (members)");
  /* Get returns the value of the key */
  xc_str out = {"", 0};
  bool found = TraceState_Get(ts, k, &out);
  __CPROVER_assert(found == (present != 0), "GET: found exactly when the key is a member");
  for (unsigned i = 0; i < n; i++) if (keys[i] == kc) __CPROVER_assert(found && out.len == 1 && out.data[0] == vals[i], "GET: returns the member's value");
  __CPROVER_assert(0, "XC_CANARY end of harness reachable");
}
"""
H_FROM = H_COMMON + r"""
/* plain (unwound) harness: the char_traits shims need bodies (memchr / memcmp semantics) */
const char *xc_traits_find(const char *p, size_t n, char ch) { for (size_t i = 0; i < n; i++) if (p[i] == ch) return p + i; return NULL; }
int xc_traits_compare(const char *a, const char *b, size_t n) { for (size_t i = 0; i < n; i++) if (a[i] != b[i]) return UC(a[i]) < UC(b[i]) ? -1 : 1; return 0; }
void h_FromHeader_bounded(void)
{
  xc_havoc_ghosts(); xc_init_default();
  /* "k=v,k=v" with optional blanks around the separator */
  char h[9]; unsigned long len;
  char k1 = xc_kc(), k2 = xc_kc(), v1 = xc_vc(), v2 = xc_vc();
  bool blank; bool second;
  unsigned p = 0;
  h[p++] = k1; h[p++] = '='; h[p++] = v1;
  if (second) { if (blank) h[p++] = ' '; h[p++] = ','; if (blank) h[p++] = ' '; h[p++] = k2; h[p++] = '='; h[p++] = v2; }
  len = p;
  string_view hv = {len, h};
  TraceState *r = TraceState_FromHeader(hv);
  unsigned long rs = r->kv_properties_.ptr_->num_entries_;
  __CPROVER_assert(rs == (second ? 2 : 1), "FROMHEADER: one member per list member");
  __CPROVER_assert(xc_entry_is(r, 0, k1, v1), "FROMHEADER: first member, surrounding blanks removed");
  if (second) __CPROVER_assert(xc_entry_is(r, 1, k2, v2), "FROMHEADER: members in header order");
  /* a member without '=' or with an invalid key empties the state */
  char bad[3] = {'a', 'b', 'c'}; string_view hb = {3, bad};
  TraceState *rb = TraceState_FromHeader(hb);
  __CPROVER_assert(rb->kv_properties_.ptr_->num_entries_ == 0, "FROMHEADER: a member without '=' yields the empty state");
  char bad2[3] = {'A', '=', 'x'}; string_view hb2 = {3, bad2};
  TraceState *rb2 = TraceState_FromHeader(hb2);
  __CPROVER_assert(rb2->kv_properties_.ptr_->num_entries_ == 0, "FROMHEADER: an invalid key yields the empty state");
  __CPROVER_assert(0, "XC_CANARY end of harness reachable");
}
"""


# ---- the same list semantics with keys of one or two bytes (a key may be a proper prefix of another) on at most 2 members -----------------
H_COMMON2 = r"""
#define NMAX 2
static char xc_kc(void) { char c; __CPROVER_assume(c == 'a' || c == 'b'); return c; }
static char xc_vc(void) { char c; __CPROVER_assume(c == 'x' || c == 'y'); return c; }
typedef struct { char b[2]; unsigned long n; } xc_k2;
static xc_k2 xc_key2(void) { xc_k2 k; k.b[0] = xc_kc(); k.b[1] = xc_kc(); unsigned long n; __CPROVER_assume(n == 1 || n == 2); k.n = n; return k; }
static bool xc_keq(const xc_k2 *a, const xc_k2 *b) { return a->n == b->n && a->b[0] == b->b[0] && (a->n < 2 || a->b[1] == b->b[1]); }
static TraceState *xc_build2(unsigned n, xc_k2 *keys, char *vals)
{
  TraceState *ts = XC_NEW(TraceState, TraceState_ctor_1_size_t(n));
  for (unsigned i = 0; i < n; i++)
  {
    keys[i] = xc_key2(); vals[i] = xc_vc();
    for (unsigned j = 0; j < i; j++) __CPROVER_assume(!xc_keq(&keys[j], &keys[i]));
    string_view k = {keys[i].n, keys[i].b}, v = {1, &vals[i]};
    KeyValueProperties_AddEntry(ts->kv_properties_.ptr_, k, v);
  }
  return ts;
}
static bool xc_entry_is2(const TraceState *ts, unsigned i, const xc_k2 *k, char v)
{
  const Entry *e = &ts->kv_properties_.ptr_->entries_.ptr_[i];
  return e->key_.ptr_[0] == k->b[0] && (k->n == 1 ? e->key_.ptr_[1] == 0 : (e->key_.ptr_[1] == k->b[1] && e->key_.ptr_[2] == 0)) && e->value_.ptr_[0] == v && e->value_.ptr_[1] == 0;
}
static void xc_init_default(void) { g_default_ts = XC_NEW(TraceState, TraceState_ctor_1_size_t(0)); }
"""
H_GETDEL2 = H_COMMON2 + r"""
void h_Delete_Get_prefix_bounded(void)
{
  xc_havoc_ghosts(); xc_init_default();
  unsigned n; __CPROVER_assume(n <= NMAX);
  xc_k2 keys[NMAX]; char vals[NMAX];
  TraceState *ts = xc_build2(n, keys, vals);
  xc_k2 q = xc_key2();
  string_view k = {q.n, q.b};
  xc_str out = {"", 0};
  bool found = TraceState_Get(ts, k, &out);
  unsigned present = 0; for (unsigned i = 0; i < n; i++) if (xc_keq(&keys[i], &q)) present = 1;
  __CPROVER_assert(found == (present != 0), "GET: found exactly when the key is a member (a key that is only a prefix of a member, or extends one, is not)");
  for (unsigned i = 0; i < n; i++) if (xc_keq(&keys[i], &q)) __CPROVER_assert(found && out.len == 1 && out.data[0] == vals[i], "GET: returns the member's value");
  TraceState *r = TraceState_Delete(ts, k);
  unsigned long rs = r->kv_properties_.ptr_->num_entries_;
  __CPROVER_assert(rs == n - present, "DELETE: exactly the given key is removed");
  unsigned pos = 0;
  for (unsigned i = 0; i < n; i++)
    if (!xc_keq(&keys[i], &q)) { __CPROVER_assert(pos < rs && xc_entry_is2(r, pos, &keys[i], vals[i]), "DELETE: the other members stay, in order"); pos++; }
  __CPROVER_assert(0, "XC_CANARY end of harness reachable");
}
"""
H_SET2 = H_COMMON2 + r"""
void h_Set_prefix_bounded(void)
{
  xc_havoc_ghosts(); xc_init_default();
  unsigned n; __CPROVER_assume(n <= NMAX);
  xc_k2 keys[NMAX]; char vals[NMAX];
  TraceState *ts = xc_build2(n, keys, vals);
  xc_k2 q = xc_key2(); char vc = xc_vc();
  string_view k = {q.n, q.b}, v = {1, &vc};
  TraceState *r = TraceState_Set(ts, k, v);
  unsigned present = 0; for (unsigned i = 0; i < n; i++) if (xc_keq(&keys[i], &q)) present = 1;
  unsigned long rs = r->kv_properties_.ptr_->num_entries_;
  __CPROVER_assert(rs == n + 1 - present, "SET: one member more for a new key, the same number for an existing key");
  __CPROVER_assert(rs >= 1 && xc_entry_is2(r, 0, &q, vc), "SET: the given key is first, with the new value");
  unsigned pos = 1;
  for (unsigned i = 0; i < n; i++)
    if (!xc_keq(&keys[i], &q)) { __CPROVER_assert(pos < rs && xc_entry_is2(r, pos, &keys[i], vals[i]), "SET: every other member is kept once, in its previous relative order"); pos++; }
  __CPROVER_assert(0, "XC_CANARY end of harness reachable");
}
"""
BN2 = "TraceState with at most 2 members, keys of one or two bytes over {a,b} (prefix pairs included), one-byte values; everything inlined, full unwinding"
BN = "TraceState with at most 3 members, one-byte keys over {a,b,c} and values over {x,y}; everything inlined, full unwinding"
proofs = [
    Proof("Trim3", [("StringUtil::Trim", 3)], enforce="StringUtil_Trim_3"),
    Proof("Tokenizer_NumTokens", [("KeyValueStringTokenizer::NumTokens", 0)], enforce="KeyValueStringTokenizer_NumTokens", replace=["string_view_find"]),
    Proof("Tokenizer_next", [("KeyValueStringTokenizer::next", 3)], enforce="KeyValueStringTokenizer_next", replace=["string_view_find", "StringUtil_Trim_3"]),
    Proof("Set_bounded", [("TraceState::Set", 2)], harness=H_SET, loop_contracts=False, unwind=7, level="bounded", bound_note=BN, timeout=1200, contracts={"x": {}}),
    Proof("Delete_Get_bounded", [("TraceState::Delete", 1), ("TraceState::Get", 2)], harness=H_DELETE, loop_contracts=False, unwind=7, level="bounded", bound_note=BN, timeout=1200, contracts={"x": {}}),
    Proof("Delete_Get_prefix_bounded", [("TraceState::Delete", 1), ("TraceState::Get", 2)], harness=H_GETDEL2, loop_contracts=False, unwind=7, level="bounded", bound_note=BN2, timeout=1200, contracts={"x": {}}),
    Proof("Set_prefix_bounded", [("TraceState::Set", 2)], harness=H_SET2, loop_contracts=False, unwind=7, level="bounded", bound_note=BN2, timeout=1200, contracts={"x": {}}),
    Proof("FromHeader_bounded_q", [("TraceState::FromHeader", 1)],
          harness=H_FROM.replace("h_FromHeader_bounded", "h_FromHeader_bounded_q").replace("bool blank; bool second;", "bool blank = 0; bool second = 1;")
          .replace("char k1 = xc_kc(), k2 = xc_kc()", "char k1 = 'a', k2 = 'b'"), loop_contracts=False, unwind=10, level="bounded",
          bound_note="the header a=V,b=W with symbolic one-byte values, plus two fixed malformed headers", timeout=1500, contracts={"x": {}}),
    Proof("FromHeader_bounded", [("TraceState::FromHeader", 1)], harness=H_FROM, loop_contracts=False, unwind=12, level="bounded", tier="thorough",
          bound_note="headers of the shape k=v[ ],[ ]k=v with one-byte keys/values", timeout=3000, contracts={"x": {}}),
]
trusted = ("std::regex based IsValidKey/IsValidValue replaced by the W3C grammar written in C (assumed; cross-checked natively)",)
assumptions = (
    "IsValidKey/IsValidValue (std::regex) accept exactly the W3C key/value grammar: assumed, cross-checked natively by c14_native on short strings",
    "list semantics of Set/Delete/Get/FromHeader are a BOUNDED stand-in (at most 3 members, one-byte keys and values): not counted as discharged obligations",
    "the 32-member capacity rule and ToHeader/FromHeader round trip are not covered",
)
not_covered = ("TraceState::ToHeader (std::string building)", "capacity behaviour at 32 members", "keys/values longer than one byte in the list-level checks")

DRIVER = ("c14_native", ["c14_native.cc"])


def refute_search(mod, proof, violations, ix, workdir, seed):
    """directed native search on the real TraceState (Set/Delete on small and full lists; regex validators vs grammar)"""
    import os, re as _re, subprocess
    binpath = R.build_native(DRIVER[0], [os.path.join(R.core.HERE, "replay", s) for s in DRIVER[1]])
    full = subprocess.run([binpath, "search"], stdout=subprocess.PIPE, stderr=subprocess.STDOUT, text=True, timeout=300).stdout
    m = _re.findall(r"^FOUND (.*)$", full, _re.M)
    if not m:
        return None
    args = m[-1].split()
    r = R.native_check(DRIVER[0], DRIVER[1], args)
    r["input"] = {"driver_args": args, "meaning": "set|delete <header hex> <key hex> [<value hex>] (a trailing '-' keeps empty arguments non-empty)",
                  "found_by": "directed native search (refute mode)"}
    return r if r["reproduced"] else None


refuters = {p.name: refute_search for p in proofs}


# ---------------------------------------------------------------------------------------------
# The capacity rule and the shape of Set / Delete for ANY number of members (unbounded): TraceState::Set and Delete over an abstract
# KeyValueProperties (Size / GetValue / AddEntry / GetAllEntries as ghost-recorded boundary calls; the walk over the old members is one callback
# invocation on an arbitrary member = inductive step). "at most 32 members; a key not yet present is refused with an unchanged copy when the list
# already holds 32 members; Set places the given key first; never a second member with the same key; Delete removes exactly the given key".
CAP_PRE = r"""
size_t g_k;
unsigned long g_n; int g_exists, g_vk, g_vv, g_same;     /* members held, key present, key valid, value valid, the walked member has the given key */
unsigned long g_alloc_calls, g_alloc_size, g_add_calls, g_first_add_is_new, g_walk_calls, g_cb_calls, g_copied, g_default_calls;
const char *g_add_key, *g_add_val; const char *g_new_key, *g_new_val;
static void xc_havoc_ghosts(void) { size_t a; unsigned long n; int e, k, v, s; g_k = a; g_n = n; g_exists = e; g_vk = k; g_vv = v; g_same = s;
  g_alloc_calls = g_alloc_size = g_add_calls = g_first_add_is_new = g_walk_calls = g_cb_calls = g_copied = g_default_calls = 0; g_add_key = g_add_val = 0; const char *p, *q; g_new_key = p; g_new_val = q; }
typedef struct xc_kvp { char xc_unused; } xc_kvp;
#define CAP_GHOSTS g_alloc_calls, g_alloc_size, g_add_calls, g_first_add_is_new, g_walk_calls, g_cb_calls, g_copied, g_default_calls, g_add_key, g_add_val
#define MAXKV 32UL
"""
CAP_POST = r"""
static char g_e_key_buf[4], g_e_val_buf[4]; string_view g_e_key, g_e_val;       /* the member the walk delivers */
static TraceState xc_o_new_ts, xc_o_default_ts; static xc_kvp xc_o_old_kv, xc_o_new_kv;
static unsigned long xc_kv_Size(const xc_kvp *p) { return g_n; }
static bool xc_kv_GetValue(const xc_kvp *p, string_view key) { return g_exists != 0; }
static void xc_kv_AddEntry(xc_kvp *p, string_view k, string_view v) { if (g_add_calls == 0 && k.data_ == g_new_key && v.data_ == g_new_val) g_first_add_is_new = 1; g_add_calls++; g_add_key = k.data_; g_add_val = v.data_; }
static TraceState *xc_new_TraceState(unsigned long size) { g_alloc_calls++; g_alloc_size = size; xc_o_new_ts.kv_properties_ = &xc_o_new_kv; return &xc_o_new_ts; }
static TraceState *xc_TraceState_GetDefault_ptr(void) { g_default_calls++; return &xc_o_default_ts; }
static bool xc_IsValidKey(string_view k) { return g_vk != 0; }
static bool xc_IsValidValue(string_view v) { return g_vv != 0; }
/* string_view == / != between the given key and the walked member's key */
static bool xc_key_ne(string_view a, string_view b) { return !g_same; }
static bool xc_other_cmp(void) { bool r; return r; }
"""


def _cap_types(em, base, targs, name):
    if base in ("nostd::unique_ptr", "unique_ptr") and targs and targs[0].strip().endswith("KeyValueProperties"):
        return common.CT("xc_kvp", 1)
    if base in ("nostd::shared_ptr", "shared_ptr") and targs and targs[0].strip().split("::")[-1] == "TraceState":
        inner = em._ctype(targs[0])
        return common.CT(inner.base, inner.ptr + 1)
    return None


def _cap_walk(em, node, recv, args):
    lam = em._find_lambda(args[0])
    if lam is None:
        raise common.ExtractionError("GetAllEntries without a lambda argument")
    li = em.lambda_info(lam, None)
    caps = [em.capture_arg(c) for c in li["captures"]]
    em.report["KeyValueProperties::GetAllEntries(callback) -> one callback invocation on an arbitrary member (inductive step)"] += 1
    return "(g_walk_calls++, g_cb_calls++, %s(%s))" % (li["cname"], ", ".join(caps + ["g_e_key", "g_e_val"]))


def _configure_cap(cfg):
    cfg.value_classes |= {"string_view"}
    cfg.type_handlers.insert(0, _cap_types)
    unp = lambda r: (r["node"] if isinstance(r, dict) and r.get("xc_is_ptr") else r)
    K = "KeyValueProperties::"
    cfg.ext_q[K + "Size"] = lambda em, node, recv, args: "xc_kv_Size(%s)" % em.expr(unp(recv))
    cfg.ext_q[K + "GetValue"] = lambda em, node, recv, args: "xc_kv_GetValue(%s, %s)" % (em.expr(unp(recv)), em.expr(args[0]))
    cfg.ext_q[K + "AddEntry"] = lambda em, node, recv, args: "xc_kv_AddEntry(%s, %s, %s)" % (em.expr(unp(recv)), em.expr(args[0]), em.expr(args[1]))
    cfg.ext_q[K + "GetAllEntries"] = _cap_walk
    cfg.ext_q["TraceState::GetDefault"] = lambda em, node, recv, args: "xc_TraceState_GetDefault_ptr()"
    cfg.ext_q["TraceState::IsValidKey"] = lambda em, node, recv, args: "xc_IsValidKey(%s)" % em.expr(args[0])
    cfg.ext_q["TraceState::IsValidValue"] = lambda em, node, recv, args: "xc_IsValidValue(%s)" % em.expr(args[0])
    def _cmp(neg):
        def h(em, node, recv, args):
            a, b = em.expr(args[0]), em.expr(args[1])
            if "key" in a and "key" in b:
                # the given key against a walked member's key: the ghost g_same
                return ("xc_key_ne(%s, %s)" if neg else "(!xc_key_ne(%s, %s))") % (a, b)
            # any other string comparison (values, ...): not modelled, an arbitrary answer
            em.report["string comparisons other than key-against-member-key answered arbitrarily"] += 1
            return "xc_other_cmp()"
        return h
    cfg.ext_q["nostd::operator!="] = _cmp(True)
    cfg.ext_q["nostd::operator=="] = _cmp(False)
    for n in ("std::operator!=", "std::operator=="):
        cfg.ext_q[n] = lambda em, node, recv, args: "xc_other_cmp()"
    cfg.ext_q["unique_ptr<common::KeyValueProperties>::operator->"] = lambda em, node, recv, args: em.expr(unp(recv))
    cfg.ext_q["shared_ptr<trace::TraceState>::operator->"] = lambda em, node, recv, args: em.expr(unp(recv))
    cfg.ctor_ext["nostd::shared_ptr"] = lambda em, node, args: (em.expr(args[0]) if args else "NULL")
    cfg.ext["new"] = lambda em, n: "xc_new_TraceState(%s)" % em.expr([c for c in n.get("inner", []) if c.get("kind") == "CXXConstructExpr"][-1]["inner"][0])
    for n in ("std::basic_string", "std::__cxx11::basic_string"):
        cfg.ctor_ext[n] = lambda em, node, args: "((xc_str){\"\", 0})"
    cfg.field_type_override = dict(getattr(cfg, "field_type_override", {}))


CAP_REQ = ("__CPROVER_requires(__CPROVER_is_fresh(self, sizeof(*self)) && g_n <= MAXKV && (g_exists == 0 || g_exists == 1) && (g_exists ==> g_n >= 1) && "
           "%s)\n")
contracts_cap = {
    "TraceState_Set": {"pre": CAP_REQ % "g_new_key == key.data_ && g_new_val == value.data_ && key.data_ != NULL && value.data_ != NULL && g_e_key.data_ != key.data_" +
        "__CPROVER_assigns(CAP_GHOSTS, xc_o_new_ts)\n"
        # an invalid key or value yields the empty default state, nothing is built
        "__CPROVER_ensures((!g_vk || !g_vv) ==> (g_default_calls == 1 && g_alloc_calls == 0 && g_add_calls == 0))\n"
        # capacity: the new list is allocated for the old members plus one only when the key is new AND there is room: never more than 32
        "__CPROVER_ensures((g_vk && g_vv) ==> (g_alloc_calls == 1 && g_alloc_size <= MAXKV && g_alloc_size == g_n + ((!g_exists && g_n < MAXKV) ? 1UL : 0UL)))\n"
        # the given key goes first with the new value - unless it is new and the list is full: then it is refused and the copy is unchanged
        "__CPROVER_ensures((g_vk && g_vv && (g_exists || g_n < MAXKV)) ==> g_first_add_is_new == 1)\n"
        "__CPROVER_ensures((g_vk && g_vv && !g_exists && g_n >= MAXKV) ==> (g_first_add_is_new == 0 && g_add_calls == (unsigned long)1))\n"
        # the walk over the old members: every member is copied once, except the one carrying the key that has just been set (never a second member with the same key)
        "__CPROVER_ensures((g_vk && g_vv) ==> (g_walk_calls == 1 && g_add_calls == ((g_exists || g_n < MAXKV) ? 1UL : 0UL) + ((!(g_exists || g_n < MAXKV) || !g_same) ? 1UL : 0UL)))\n"},
    "TraceState_Delete": {"pre": CAP_REQ % "1" +
        "__CPROVER_assigns(CAP_GHOSTS, xc_o_new_ts)\n"
        "__CPROVER_ensures(!g_vk ==> (g_default_calls == 1 && g_alloc_calls == 0 && g_add_calls == 0))\n"
        "__CPROVER_ensures(g_vk ==> (g_alloc_calls == 1 && g_alloc_size == g_n - (g_exists ? 1UL : 0UL) && g_alloc_size <= MAXKV))\n"
        # exactly the given key is removed: a walked member is copied exactly when it does not carry the key
        "__CPROVER_ensures(g_vk ==> (g_walk_calls == 1 && g_add_calls == (g_same ? 0UL : 1UL)))\n"},
}
proofs_cap = [
    Proof("Set_capacity", [("TraceState::Set", 2)], enforce="TraceState_Set", timeout=300,
          desc="Set for ANY number of members: allocation size <= 32, a new key on a full list is refused (unchanged copy), the key goes first, no second member with the same key (inductive step of the walk)"),
    Proof("Delete_shape", [("TraceState::Delete", 1)], enforce="TraceState_Delete", timeout=300,
          desc="Delete for ANY number of members: allocation size, exactly the given key is left out (inductive step of the walk)"),
]
for _p in proofs_cap:
    _p.pre_c = CAP_PRE
    _p.post_struct_c = CAP_POST
    _p.spec_headers = ()
    _p.force_records = ("nostd::string_view",)
    _p.configure = _configure_cap
    _p.own_config = True
    _p.contracts = contracts_cap
    refuters[_p.name] = refute_search
proofs += proofs_cap
