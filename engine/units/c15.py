"""C15 - baggage header codec (api/include/opentelemetry/baggage/baggage.h): UrlEncode / UrlDecode / validity."""
from ..core import Proof
from .. import refute as R
from . import common

prop_id = "C15"
tu_name = "tu_baggage"
tu_text = '#include "%s/api/include/opentelemetry/baggage/baggage.h"\n' % R.core.REPO
spec_headers = ("xc_strbuild.h",)
defines_c = "#ifndef XC_SB_CAP\n#define XC_SB_CAP 768\n#endif\n"
pre_c = r"""
size_t g_k, g_j;
static void xc_havoc_ghosts(void) { size_t a, b; g_k = a; g_j = b; }
#define XC_MAXLEN 256UL
#define ALNUM(c) (((c) >= '0' && (c) <= '9') || ((c) >= 'a' && (c) <= 'z') || ((c) >= 'A' && (c) <= 'Z'))
/* characters that pass through unchanged (the 'token set' of the statement) */
#define PLAIN(c) (ALNUM(c) || (c) == '-' || (c) == '_' || (c) == '.' || (c) == '~')
/* what an encoded key / value may consist of: never a list, member or metadata separator, never a blank */
#define ENC_OK(c) (PLAIN(c) || (c) == '+' || (c) == '%')
#define PRINTABLE(c) ((c) >= ' ' && (c) <= '~')
"""
post_struct_c = ""


def configure(cfg):
    common.strbuild_boundary(cfg)


contracts = {
    # every character outside the token set is percent-encoded (blank as '+'): the result contains token characters, '+' and '%' only,
    # is between 1x and 3x as long as the input, and lives in a buffer of its own
    "Baggage_UrlEncode": {"pre": common.sv_ok("str") +
        "__CPROVER_assigns()\n"
        "__CPROVER_ensures(__CPROVER_is_fresh(__CPROVER_return_value.data, XC_SB_CAP))\n"
        "__CPROVER_ensures(str.length_ <= __CPROVER_return_value.len && __CPROVER_return_value.len <= 3 * str.length_)\n"
        "__CPROVER_ensures(g_k < __CPROVER_return_value.len ==> ENC_OK(__CPROVER_return_value.data[g_k]))\n",
        "loops": {1:
            "__CPROVER_assigns(xc_i1, ret.len, __CPROVER_object_upto(ret.data, XC_SB_CAP))\n"
            "__CPROVER_loop_invariant(xc_i1 <= str.length_ && xc_i1 <= ret.len && ret.len <= 3 * xc_i1 && ret.data == __CPROVER_loop_entry(ret.data))\n"
            "__CPROVER_loop_invariant(g_k < ret.len ==> ENC_OK(ret.data[g_k]))\n"
            "__CPROVER_decreases(str.length_ - xc_i1)\n"}},
    # decoding never reads outside the view (CBMC's pointer obligations on str[i+1], str[i+2]), produces at most as many bytes as it reads,
    # only ever raises the error flag, returns the empty string on error, and succeeds only on input made of token characters, '+' and
    # complete %XX escapes
    "Baggage_UrlDecode": {"pre": common.sv_ok("str") +
        "__CPROVER_requires(__CPROVER_is_fresh(err, sizeof(bool)))\n"
        "__CPROVER_assigns(*err)\n"
        "__CPROVER_ensures(__CPROVER_is_fresh(__CPROVER_return_value.data, XC_SB_CAP))\n"
        "__CPROVER_ensures(__CPROVER_return_value.len <= str.length_)\n"
        "__CPROVER_ensures(*err == __CPROVER_old(*err) || (*err && __CPROVER_return_value.len == 0))\n"
        "__CPROVER_ensures((!*err && g_j < str.length_) ==> (ENC_OK(str.data_[g_j])))\n"
        "__CPROVER_ensures((!*err && g_j < str.length_ && str.data_[g_j] == '%') ==> (g_j + 2 < str.length_ && XDIGIT(str.data_[g_j + 1]) && XDIGIT(str.data_[g_j + 2])))\n",
        "loops": {1:
            "__CPROVER_assigns(i, ret.len, __CPROVER_object_upto(ret.data, XC_SB_CAP))\n"
            "__CPROVER_loop_invariant(i <= str.length_ && ret.len <= i && ret.data == __CPROVER_loop_entry(ret.data))\n"
            "__CPROVER_loop_invariant(g_j < i ==> ENC_OK(str.data_[g_j]))\n"
            "__CPROVER_loop_invariant((g_j < i && str.data_[g_j] == '%') ==> (g_j + 2 < str.length_ && XDIGIT(str.data_[g_j + 1]) && XDIGIT(str.data_[g_j + 2])))\n"
            "__CPROVER_decreases(str.length_ - i)\n"}},
    "Baggage_IsPrintableString": {"pre": common.sv_ok("str") +
        "__CPROVER_assigns()\n"
        "__CPROVER_ensures((__CPROVER_return_value && g_k < str.length_) ==> PRINTABLE(str.data_[g_k]))\n"
        "__CPROVER_ensures((!__CPROVER_return_value) ==> str.length_ > 0)\n",
        "loops": {1:
            "__CPROVER_assigns(xc_i1)\n"
            "__CPROVER_loop_invariant(xc_i1 <= str.length_)\n"
            "__CPROVER_loop_invariant(g_k < xc_i1 ==> PRINTABLE(str.data_[g_k]))\n"
            "__CPROVER_decreases(str.length_ - xc_i1)\n"}},
    "Baggage_IsValidKey": {"pre": common.sv_ok("key") +
        "__CPROVER_assigns()\n"
        "__CPROVER_ensures(__CPROVER_return_value ==> (key.length_ > 0 && (g_k < key.length_ ==> PRINTABLE(key.data_[g_k]))))\n"
        "__CPROVER_ensures(key.length_ == 0 ==> !__CPROVER_return_value)\n"},
}
pre_c += "#define XDIGIT(c) (((c) >= '0' && (c) <= '9') || ((c) >= 'a' && (c) <= 'f') || ((c) >= 'A' && (c) <= 'F'))\n"

# round trip over the real bodies; strings of at most N bytes, every byte value
H_RT = r"""
void h_%(name)s(void)
{
  char in[%(n)d]; size_t n; bool err = 0;
  __CPROVER_assume(%(nassume)s);
  string_view s; s.data_ = in; s.length_ = n;
  xc_sb e = Baggage_UrlEncode(s);
  string_view es; es.data_ = e.data; es.length_ = e.len;
  xc_sb d = Baggage_UrlDecode(es, &err);
  __CPROVER_assert(!err, "the encoded form is accepted by the decoder");
  __CPROVER_assert(d.len == n, "decode(encode(s)) has the length of s");
  size_t k; __CPROVER_assume(k < n);
  __CPROVER_assert(d.data[k] == in[k], "decode(encode(s)) == s");
  __CPROVER_assert(0, "XC_CANARY end of harness reachable");
}
"""
CODEC = [("Baggage::UrlEncode", 1), ("Baggage::UrlDecode", 2)]
proofs = [
    Proof("UrlEncode", [CODEC[0]], enforce="Baggage_UrlEncode"),
    Proof("UrlDecode", [CODEC[1]], enforce="Baggage_UrlDecode"),
    Proof("IsPrintableString", [("Baggage::IsPrintableString", 1)], enforce="Baggage_IsPrintableString"),
    Proof("IsValidKey", [("Baggage::IsValidKey", 1)], enforce="Baggage_IsValidKey", replace=["Baggage_IsPrintableString"]),
    Proof("Lemma_char_roundtrip", CODEC, harness=H_RT % {"name": "Lemma_char_roundtrip", "n": 1, "nassume": "n == 1"}, loop_contracts=False, unwind=5,
          complete_unwind_note="one input byte (all 256 values): the encoder loop runs once, the decoder loop at most three times",
          desc="decode(encode(c)) == c for every single byte c"),
    Proof("Codec_roundtrip_bounded", CODEC, harness=H_RT % {"name": "Codec_roundtrip_bounded", "n": 3, "nassume": "n <= 3"}, loop_contracts=False, unwind=11,
          level="bounded", bound_note="strings of at most 3 bytes (every byte value); longer strings are covered only through the per-character lemma",
          desc="decode(encode(s)) == s"),
]
for _p in proofs:
    if _p.harness is not None:
        _p.defines_c = "#define XC_SB_CAP 12\n"      # the unwound round-trip harnesses build at most 9 characters
trusted = ("std::string as a fixed-capacity string builder (xc_strbuild.h, 768 bytes; inputs up to 256 bytes: the loop-contract proofs are inductive in the iteration count but the objects are bounded)", "isalnum/isdigit/toupper in the C locale for 0..127 and false for bytes >= 128",
           "lambdas (to_hex, IsHex, from_hex) as C functions")
assumptions = (
    "only the codec and the validity predicates are under contract; Baggage::FromHeader / ToHeader / Set / Delete (list semantics, the 180-member, 4096- and "
    "8192-byte limits, metadata pass-through, 'context untouched when nothing valid remains') and the propagators (BaggagePropagator, CompositePropagator) are NOT covered",
    "the unbounded contracts state memory safety, length relations, output / accepted-input alphabets; the exact round trip is proved per character (complete) "
    "and for strings of up to 3 bytes (bounded stand-in), not as an unbounded string equality",
)
not_covered = ("Baggage::FromHeader", "Baggage::ToHeader", "Baggage::Set/Delete/GetValue", "BaggagePropagator", "CompositePropagator")

DRIVER = ("c15_native", ["c15_native.cc"], [], ["-fsanitize=address", "-fno-omit-frame-pointer", "-g"])


def refute_search(mod, proof, violations, ix, workdir, seed):
    """directed native search through the public API under ASan: Set/ToHeader/FromHeader for every printable byte; truncated %-escapes at the end of an exact-size buffer"""
    import os, re as _re, subprocess
    binpath = R.build_native(DRIVER[0], [os.path.join(R.core.HERE, "replay", s) for s in DRIVER[1]], DRIVER[3])
    pr = subprocess.run([binpath, "search"], stdout=subprocess.PIPE, stderr=subprocess.STDOUT, text=True, timeout=300)
    m = _re.findall(r"^FOUND (.*)$", pr.stdout, _re.M)
    if m:
        args = m[-1].split()
    elif pr.returncode not in (0, 2):
        # crashed (ASan report): the last header announced is not printed before the crash; replay the whole search
        args = ["search"]
    else:
        return None
    r = R.native_check(DRIVER[0], DRIVER[1], args, DRIVER[3])
    r["input"] = {"driver_args": args, "meaning": "roundtrip <key hex> <value hex> | parse <header hex> | search (ASan report inside)", "found_by": "directed native search (refute mode)"}
    return r if r["reproduced"] else None


refuters = {p.name: refute_search for p in proofs}


# ---------------------------------------------------------------------------------------------
# header round trip over the real ToHeader / FromHeader bodies (bounded stand-in: one member, one-byte key and value, every printable byte)
def _sb_append(em, recv, args, n):
    real = [a for a in args if a.get("kind") != "CXXDefaultArgExpr"]
    if len(real) == 2:
        return "xc_sb_append(&(%s), %s, %s)" % (recv, em.expr(real[0]), em.expr(real[1]))
    t = em.ctype(real[0]["type"])
    if t.base == "xc_sb":
        return "({ xc_sb xc_t = %s; xc_sb_append(&(%s), xc_t.data, xc_t.len); })" % (em.expr(real[0]), recv)
    raise common.ExtractionError("std::string::append(%s)" % t.text())


def _configure_hdr(cfg):
    common.kv_boundary(cfg)
    common.strbuild_boundary(cfg)
    for n in ("std::basic_string", "std::__cxx11::basic_string"):
        cfg.ext_methods[n + "::append"] = _sb_append
        cfg.ext_methods[n + "::empty"] = lambda em, recv, args, n: "(%s.len == 0)" % recv
        cfg.ext_methods[n + "::size"] = lambda em, recv, args, n: "%s.len" % recv
        cfg.ext_methods[n + "::data"] = lambda em, recv, args, n: "%s.data" % recv
    # function-local static shared_ptr of GetDefault(): one empty baggage, created by the harness
    cfg.ext_q["KeyValueStringTokenizer::GetDefaultKeyOrValue"] = lambda em, node, recv, args: "((string_view){.data_ = \"\", .length_ = 0})"   # static std::string default_str = ""
    cfg.ext_q["Baggage::GetDefault"] = lambda em, node, recv, args: "xc_Baggage_GetDefault_ptr()"


H_SPEC = r"""
/* plain (unwound) harness: the char_traits shims need bodies (memchr / memcmp semantics) */
const char *xc_traits_find(const char *p, size_t n, char ch) { for (size_t i = 0; i < n; i++) if (p[i] == ch) return p + i; return NULL; }
int xc_traits_compare(const char *a, const char *b, size_t n) { for (size_t i = 0; i < n; i++) if (a[i] != b[i]) return (unsigned char)a[i] < (unsigned char)b[i] ? -1 : 1; return 0; }
static char xc_hexd(unsigned v) { return (char)(v < 10 ? '0' + v : 'A' + (v - 10)); }
/* the header form of one byte: token characters as they are, blank as '+', everything else %XX */
static size_t xc_enc1(char c, char *out) { if (PLAIN(c)) { out[0] = c; return 1; } if (c == ' ') { out[0] = '+'; return 1; } out[0] = '%'; out[1] = xc_hexd(((unsigned char)c) >> 4); out[2] = xc_hexd(((unsigned char)c) & 15); return 3; }
"""
H_FROM = H_SPEC + r"""
void h_FromHeader_member_bounded(void)
{
  char kc, vc; xc_havoc_ghosts();
  __CPROVER_assume(PRINTABLE(kc) && PRINTABLE(vc) && vc != ';');
  g_default_b = XC_NEW(Baggage, Baggage_ctor_0());
  char h[7]; size_t n = xc_enc1(kc, h); h[n++] = '='; n += xc_enc1(vc, h + n);
  string_view hv = {.data_ = h, .length_ = n};
  Baggage *r = Baggage_FromHeader(hv);
  __CPROVER_assert(r->kv_properties_.ptr_->num_entries_ == 1, "extraction of a well-formed one-member header yields one member");
  const Entry *e = &r->kv_properties_.ptr_->entries_.ptr_[0];
  __CPROVER_assert(e->key_.ptr_[0] == kc && e->key_.ptr_[1] == 0, "the key is decoded back (characters outside the token set are percent-encoded, blank as '+')");
  __CPROVER_assert(e->value_.ptr_[0] == vc && e->value_.ptr_[1] == 0, "the value is decoded back");
  __CPROVER_assert(0, "XC_CANARY end of harness reachable");
}
"""
H_TO = H_SPEC + r"""
void h_ToHeader_member_bounded(void)
{
  char kc, vc; xc_havoc_ghosts();
  __CPROVER_assume(PRINTABLE(kc) && PRINTABLE(vc) && vc != ';');
  string_view k = {.data_ = &kc, .length_ = 1}, v = {.data_ = &vc, .length_ = 1};
  Baggage *b = XC_NEW(Baggage, Baggage_ctor_1_size_t(1));
  KeyValueProperties_AddEntry(b->kv_properties_.ptr_, k, v);
  xc_sb h = Baggage_ToHeader(b);
  char want[7]; size_t n = xc_enc1(kc, want); want[n++] = '='; n += xc_enc1(vc, want + n);
  __CPROVER_assert(h.len == n, "injection writes key=value in header form (length)");
  size_t i; __CPROVER_assume(i < n);
  __CPROVER_assert(h.data[i] == want[i], "injection writes key=value in header form (bytes)");
  __CPROVER_assert(0, "XC_CANARY end of harness reachable");
}
"""
BNH = "one member; the header form is given by an independent per-byte encoder in the harness; everything inlined, full unwinding"
CASES = {"plain": ("PLAIN(%s)", "a token character (header form: itself)"), "blank": ("%s == ' '", "a blank (header form: '+')"),
         "escaped": ("(PRINTABLE(%s) && !PLAIN(%s) && %s != ' ')", "any other printable byte (header form: %%XX)")}
_hdr_proofs = []
for _side in ("key", "value"):
    for _cn, (_cond, _what) in CASES.items():
        _var = "kc" if _side == "key" else "vc"
        _other = "vc == 'x'" if _side == "key" else "kc == 'k'"
        _assume = "(" + (_cond % ((_var,) * _cond.count("%s"))) + ") && " + _other + (" && vc != ';'" if _side == "value" else "")
        _name = "FromHeader_%s_%s_bounded" % (_side, _cn)
        _h = H_FROM.replace("h_FromHeader_member_bounded", "h_" + _name).replace("PRINTABLE(kc) && PRINTABLE(vc) && vc != ';'", _assume)
        _p = Proof(_name, [("Baggage::FromHeader", 1), ("Baggage::Baggage", 0)], harness=_h, loop_contracts=False, unwind=9, level="bounded",
                   configure=_configure_hdr, timeout=600, bound_note=BNH + "; one-byte %s = %s, the other side a fixed token character" % (_side, _what),
                   desc="FromHeader(header form of (k, v)) == (k, v)")
        _hdr_proofs.append(_p)
_pt = Proof("ToHeader_member_bounded", [("Baggage::ToHeader", 0), ("KeyValueProperties::AddEntry", 2), ("Baggage::Baggage", 1, "(size_t)")], harness=H_TO, loop_contracts=False,
            unwind=5, level="bounded", configure=_configure_hdr, timeout=600, bound_note=BNH + "; one-byte key and value over every printable byte (value not ';')", desc="ToHeader(b) == header form of (k, v)")
for _ph in [_pt]:   # the FromHeader_* harnesses are NOT registered: the inlined FromHeader needs > 16 GB / > 300 s even for one concrete header shape (see DESIGN.md section 8, C15-a)

    _ph.defines_c = "#define XC_SB_CAP 8\n"
    _ph.post_struct_c = "Baggage *g_default_b;\nstatic Baggage *xc_Baggage_GetDefault_ptr(void) { return g_default_b; }\n"
    proofs.append(_ph)
    refuters[_ph.name] = refute_search



# ---------------------------------------------------------------------------------------------
# Baggage::Set / Delete for any number of members over an abstract KeyValueProperties (the boundary of C14's capacity proofs): "Set replaces an
# existing key, Delete removes it, and neither changes the baggage they were called on"
from . import c14 as _c14


def _configure_bag(cfg):
    _c14._configure_cap(cfg)
    cfg.type_handlers.insert(0, lambda em, base, targs, name: (common.CT(em._ctype(targs[0]).base, em._ctype(targs[0]).ptr + 1)
                                                               if base in ("nostd::shared_ptr", "shared_ptr") and targs and targs[0].strip().split("::")[-1] == "Baggage" else None))
    cfg.ext_q["shared_ptr<baggage::Baggage>::operator->"] = lambda em, node, recv, args: em.expr(recv["node"] if isinstance(recv, dict) and recv.get("xc_is_ptr") else recv)
    cfg.ext_q["Baggage::IsValidKey"] = lambda em, node, recv, args: "xc_IsValidKey(%s)" % em.expr(args[0])
    cfg.ext_q["Baggage::IsValidValue"] = lambda em, node, recv, args: "xc_IsValidValue(%s)" % em.expr(args[0])
    cfg.ext["new"] = lambda em, n: "xc_new_Baggage(%s)" % em.expr([c for c in n.get("inner", []) if c.get("kind") == "CXXConstructExpr"][-1]["inner"][0])


BAG_POST = _c14.CAP_POST.replace("static TraceState xc_o_new_ts, xc_o_default_ts;", "static Baggage xc_o_new_b;").replace(
    "static TraceState *xc_new_TraceState(unsigned long size) { g_alloc_calls++; g_alloc_size = size; xc_o_new_ts.kv_properties_ = &xc_o_new_kv; return &xc_o_new_ts; }",
    "static Baggage *xc_new_Baggage(unsigned long size) { g_alloc_calls++; g_alloc_size = size; xc_o_new_b.kv_properties_ = &xc_o_new_kv; return &xc_o_new_b; }").replace(
    "static TraceState *xc_TraceState_GetDefault_ptr(void) { g_default_calls++; return &xc_o_default_ts; }", "")
BAG_REQ = "__CPROVER_requires(__CPROVER_is_fresh(self, sizeof(*self)) && g_n <= 100000 && (g_exists == 0 || g_exists == 1) && %s)\n"
contracts_bag = {
    "Baggage_Set": {"pre": BAG_REQ % "g_new_key == key.data_ && g_new_val == value.data_ && key.data_ != NULL && value.data_ != NULL && g_e_key.data_ != key.data_" +
        "__CPROVER_assigns(CAP_GHOSTS, xc_o_new_b)\n"      # the baggage it is called on is not written
        "__CPROVER_ensures(g_alloc_calls == 1 && g_alloc_size == g_n + 1 && g_walk_calls == 1)\n"
        # a valid pair goes first; a walked member is copied exactly when it does not carry that key (Set replaces an existing key)
        "__CPROVER_ensures((g_vk && g_vv) ==> (g_first_add_is_new == 1 && g_add_calls == 1UL + (g_same ? 0UL : 1UL)))\n"
        # an invalid pair is not stored and the copy is unchanged
        "__CPROVER_ensures(!(g_vk && g_vv) ==> (g_first_add_is_new == 0 && g_add_calls == 1UL))\n"},
    "Baggage_Delete": {"pre": BAG_REQ % "1" +
        "__CPROVER_assigns(CAP_GHOSTS, xc_o_new_b)\n"
        "__CPROVER_ensures(g_alloc_calls == 1 && g_alloc_size == g_n && g_walk_calls == 1 && g_add_calls == (g_same ? 0UL : 1UL))\n"},
}
proofs_bag = [
    Proof("Baggage_Set_shape", [("Baggage::Set", 2)], enforce="Baggage_Set", timeout=300,
          desc="Set for ANY number of members: the pair goes first, an existing member with that key is left out (replaced), the original is not written (inductive step of the walk)"),
    Proof("Baggage_Delete_shape", [("Baggage::Delete", 1)], enforce="Baggage_Delete", timeout=300,
          desc="Delete for ANY number of members: exactly the given key is left out, the original is not written"),
]
for _p in proofs_bag:
    _p.pre_c = _c14.CAP_PRE
    _p.post_struct_c = BAG_POST
    _p.spec_headers = ()
    _p.force_records = ("nostd::string_view",)
    _p.configure = _configure_bag
    _p.own_config = True
    _p.contracts = contracts_bag
    refuters[_p.name] = refute_search
proofs += proofs_bag


# ---------------------------------------------------------------------------------------------
# Baggage::FromHeader over ABSTRACT parts (tokenizer, Trim, UrlDecode, validity predicates, KeyValueProperties as ghost-answering boundary calls; their own
# contracts: tokenizer and Trim under ./check C14, codec and predicates above): the limits and the filter of the loop, for EVERY header and any number
# of members (loop invariant): an over-long header yields the default baggage and is not even tokenized; at most min(tokens, 180) members are stored;
# a member is stored only if it is a valid pair, within the 4096-byte bound, decoded without error, with a valid key and value - and then exactly once.
FH_PRE = r"""
size_t g_k;
unsigned long g_hdr_len;                                  /* length of the header */
unsigned long g_ntok, g_numtok_calls, g_next_calls, g_alloc_calls, g_alloc_size, g_add_calls, g_default_calls, g_dec_calls;
int g_it_valid, g_it_big, g_it_err, g_it_vk, g_it_vv;     /* the current member: tokenizer says valid pair, over the 4096-byte bound, decode error, key valid, value valid */
long g_dec_mode[2]; unsigned long g_bad_mode;     /* extra arguments of the two UrlDecode calls of an iteration (none today); set when a stored member's key and value were decoded differently */
unsigned long g_adds_at_iter_start, g_bad_add;            /* members stored when the current iteration began; set when a member that must be skipped was stored */
static void xc_havoc_ghosts(void) { size_t a; unsigned long n, h; g_k = a; g_ntok = n; g_hdr_len = h; g_numtok_calls = g_next_calls = g_alloc_calls = g_alloc_size = g_add_calls = g_default_calls = g_dec_calls = 0; g_adds_at_iter_start = 0; g_bad_add = 0; g_bad_mode = 0; g_dec_mode[0] = g_dec_mode[1] = 0;
  g_it_valid = g_it_big = g_it_err = g_it_vk = g_it_vv = 0; }
typedef struct xc_kvp { char xc_unused; } xc_kvp;
typedef struct xc_tok { char xc_unused; } xc_tok;          /* KeyValueStringTokenizer */
#define FH_GHOSTS g_numtok_calls, g_next_calls, g_alloc_calls, g_alloc_size, g_add_calls, g_default_calls, g_dec_calls, g_it_valid, g_it_big, g_it_err, g_it_vk, g_it_vv, g_adds_at_iter_start, g_bad_add, g_bad_mode, __CPROVER_object_whole(g_dec_mode)
#define MAXPAIRS 180UL
#define MAXPAIR 4096UL
#define MAXHDR 8192UL
"""
FH_POST = r"""
static Baggage xc_o_new_b, xc_o_default_b; static xc_kvp xc_o_new_kv; static char xc_o_buf[4];
static xc_tok xc_tok_new(string_view header) { xc_tok t; t.xc_unused = 0; return t; }
static unsigned long xc_tok_NumTokens(const xc_tok *t) { g_numtok_calls++; return g_ntok; }
/* next(valid, key, value): whether there is another member; the member's key/value are views of total length <= 4096 exactly when !g_it_big */
static bool xc_tok_next(xc_tok *t, bool *valid, string_view *key, string_view *value)
{
  bool more; int v, big; unsigned long kl, vl;
  g_next_calls++;
  if (!more) return false;
  g_it_valid = v != 0; *valid = g_it_valid;
  __CPROVER_assume(kl <= 70000 && vl <= 70000);
  g_it_big = (kl + vl > MAXPAIR);
  key->data_ = xc_o_buf; key->length_ = kl; value->data_ = xc_o_buf; value->length_ = vl;
  { int e, a, b; g_it_err = e != 0; g_it_vk = a != 0; g_it_vv = b != 0; }
  g_adds_at_iter_start = g_add_calls;
  return true;
}
static string_view xc_Trim(string_view s) { return s; }
static unsigned long xc_sv_find(string_view s, char c) { unsigned long r; __CPROVER_assume(r == (unsigned long)-1 || r < s.length_); return r; }
static string_view xc_sv_substr(string_view s, unsigned long pos, unsigned long n) { string_view r; __CPROVER_assert(pos <= s.length_, "substr: pos within the view"); r.data_ = s.data_; r.length_ = (n < s.length_ - pos) ? n : s.length_ - pos; return r; }
/* UrlDecode(str, err): the first of the two calls of an iteration may raise the error flag, the second too (it only ever raises it) */
static xc_sb xc_UrlDecode(string_view s, bool *err, long mode) { xc_sb r; g_dec_mode[g_dec_calls % 2] = mode; g_dec_calls++; if (g_it_err && (g_dec_calls % 2 == 0)) *err = 1; r.data = xc_o_buf; r.len = 0; return r; }
static bool xc_IsValidKey(string_view k) { return g_it_vk != 0; }
static bool xc_IsValidValue(string_view v) { return g_it_vv != 0; }
static void xc_sb_append_n(xc_sb *s, const char *d, unsigned long n) { }
static Baggage *xc_new_Baggage(unsigned long size) { g_alloc_calls++; g_alloc_size = size; xc_o_new_b.kv_properties_ = &xc_o_new_kv; return &xc_o_new_b; }
static Baggage *xc_Baggage_GetDefault_ptr(void) { g_default_calls++; return &xc_o_default_b; }
static unsigned long xc_kv_Size(const xc_kvp *p) { return g_add_calls; }
static void xc_kv_AddEntry(xc_kvp *p, string_view k, string_view v)
{ if (!g_it_valid || g_it_big || g_it_err || !g_it_vk || !g_it_vv || g_add_calls != g_adds_at_iter_start) g_bad_add = 1; if (g_dec_mode[0] != g_dec_mode[1]) g_bad_mode = 1; g_add_calls++; }
"""


def _fh_types(em, base, targs, name):
    if base in ("nostd::unique_ptr", "unique_ptr") and targs and targs[0].strip().endswith("KeyValueProperties"):
        return common.CT("xc_kvp", 1)
    if base in ("nostd::shared_ptr", "shared_ptr") and targs and targs[0].strip().split("::")[-1] == "Baggage":
        inner = em._ctype(targs[0])
        return common.CT(inner.base, inner.ptr + 1)
    return None


def _configure_fh(cfg):
    common.strbuild_boundary(cfg)
    cfg.value_classes |= {"string_view"}
    cfg.type_handlers.insert(0, _fh_types)
    cfg.type_map["common::KeyValueStringTokenizer"] = "xc_tok"
    cfg.opaque_records["common::KeyValueStringTokenizer"] = "xc_tok"
    unp = lambda r: (r["node"] if isinstance(r, dict) and r.get("xc_is_ptr") else r)
    pr = lambda em, recv: (em.expr(recv["node"]) if isinstance(recv, dict) and recv.get("xc_is_ptr") else em.addr_of(recv))
    cfg.ctor_ext["KeyValueStringTokenizer"] = lambda em, node, args: "xc_tok_new(%s)" % em.expr(args[0])
    cfg.ctor_ext["common::KeyValueStringTokenizer"] = cfg.ctor_ext["KeyValueStringTokenizer"]
    cfg.ext_q["KeyValueStringTokenizer::NumTokens"] = lambda em, node, recv, args: "xc_tok_NumTokens(%s)" % pr(em, recv)
    cfg.ext_q["KeyValueStringTokenizer::next"] = lambda em, node, recv, args: "xc_tok_next(%s, %s, %s, %s)" % (pr(em, recv), em.addr_of(args[0]), em.addr_of(args[1]), em.addr_of(args[2]))
    cfg.ext_q["StringUtil::Trim"] = lambda em, node, recv, args: "xc_Trim(%s)" % em.expr(args[0])
    cfg.ext_q["string_view::find"] = lambda em, node, recv, args: "xc_sv_find(%s, %s)" % (em.expr(unp(recv)), em.expr(args[0]))
    cfg.ext_q["string_view::substr"] = lambda em, node, recv, args: "xc_sv_substr(%s, %s, %s)" % (em.expr(unp(recv)), em.expr(args[0]), em.expr(em._default_arg(args[1], None)) if len(args) > 1 and args[1].get("kind") != "CXXDefaultArgExpr" else "(unsigned long)-1")
    def _dec(em, node, recv, args):
        # further (today: no) arguments select how the decoder works: they are recorded so that key and value can be required to be decoded alike
        cal = node["inner"][0]
        while cal.get("kind") != "DeclRefExpr" and cal.get("inner"):
            cal = cal["inner"][0]
        md = em.ix.by_id.get(cal.get("referencedDecl", {}).get("id")) or {}
        md = em.ix.definition_of(md["id"]) if md.get("id") and hasattr(em.ix, "definition_of") else md
        ps = [p for p in md.get("inner", []) if p.get("kind") == "ParmVarDecl"]
        extra = []
        for i, a in enumerate(args[2:], start=2):
            extra.append("(long)(%s)" % em.expr(em._default_arg(a, ps[i] if i < len(ps) else None)))
        mode = " * 31 + ".join(extra) if extra else "0L"
        return "xc_UrlDecode(%s, %s, %s)" % (em.expr(args[0]), em.addr_of(args[1]), mode)
    cfg.ext_q["Baggage::UrlDecode"] = _dec
    cfg.ext_q["Baggage::IsValidKey"] = lambda em, node, recv, args: "xc_IsValidKey(%s)" % em.expr(args[0])
    cfg.ext_q["Baggage::IsValidValue"] = lambda em, node, recv, args: "xc_IsValidValue(%s)" % em.expr(args[0])
    cfg.ext_q["Baggage::GetDefault"] = lambda em, node, recv, args: "xc_Baggage_GetDefault_ptr()"
    cfg.ext_q["KeyValueProperties::Size"] = lambda em, node, recv, args: "xc_kv_Size(%s)" % em.expr(unp(recv))
    cfg.ext_q["KeyValueProperties::AddEntry"] = lambda em, node, recv, args: "xc_kv_AddEntry(%s, %s, %s)" % (em.expr(unp(recv)), em.expr(args[0]), em.expr(args[1]))
    cfg.ext_q["unique_ptr<common::KeyValueProperties>::operator->"] = lambda em, node, recv, args: em.expr(unp(recv))
    cfg.ext_q["shared_ptr<baggage::Baggage>::operator->"] = lambda em, node, recv, args: em.expr(unp(recv))
    cfg.ctor_ext["nostd::shared_ptr"] = lambda em, node, args: (em.expr(args[0]) if args else "NULL")
    cfg.ext["new"] = lambda em, n: "xc_new_Baggage(%s)" % em.expr([c for c in n.get("inner", []) if c.get("kind") == "CXXConstructExpr"][-1]["inner"][0])
    for n in ("std::basic_string", "std::__cxx11::basic_string"):
        cfg.ext_methods[n + "::append"] = lambda em, recv, args, n: "xc_sb_append_n(&(%s), %s, %s)" % (recv, em.expr(args[0]), em.expr(args[1]))
    # std::string handed to a string_view parameter (IsValidKey(key_str), AddEntry(key_str, ...)): the boundary takes the builder itself
    cfg.ctor_ext["nostd::string_view"] = None


contracts_fh = {"Baggage_FromHeader": {"pre":
    "__CPROVER_requires(header.length_ == g_hdr_len && g_hdr_len <= 70000 && __CPROVER_is_fresh(header.data_, header.length_))\n"
    "__CPROVER_assigns(FH_GHOSTS, xc_o_new_b)\n"
    # an over-long header: the default baggage, nothing is tokenized or stored
    "__CPROVER_ensures(g_hdr_len > MAXHDR ==> (g_default_calls == 1 && g_numtok_calls == 0 && g_next_calls == 0 && g_alloc_calls == 0 && g_add_calls == 0))\n"
    # otherwise one baggage is allocated for min(tokens, 180) members and at most that many are stored
    "__CPROVER_ensures(g_hdr_len <= MAXHDR ==> (g_alloc_calls == 1 && g_alloc_size == (g_ntok > MAXPAIRS ? MAXPAIRS : g_ntok) && g_add_calls <= g_alloc_size && g_add_calls <= MAXPAIRS))\n"
    # no member that had to be skipped was stored, and no member was stored twice
    "__CPROVER_ensures(g_bad_add == 0)\n"
    # the key and the value of a stored member were decoded the same way (the encoder treats them alike)
    "__CPROVER_ensures(g_bad_mode == 0)\n",
    "loops": {1: "__CPROVER_assigns(FH_GHOSTS, kv_valid, key, value)\n"
                 "__CPROVER_loop_invariant(g_bad_mode == 0 && g_bad_add == 0 && g_add_calls <= cnt && cnt <= MAXPAIRS && g_alloc_calls == 1 && g_alloc_size == cnt && g_default_calls == 0 && g_dec_calls % 2 == 0)\n"}}}
_pfh = Proof("FromHeader_limits", [("Baggage::FromHeader", 1)], enforce="Baggage_FromHeader", timeout=600, configure=_configure_fh,
             desc="FromHeader for every header: 8192-byte header limit, at most min(tokens, 180) members, 4096-byte member bound, only valid error-free members stored, each once")
_pfh.pre_c = FH_PRE
_pfh.post_struct_c = FH_POST
_pfh.spec_headers = ("xc_strbuild.h",)
_pfh.force_records = ("nostd::string_view",)
_pfh.own_config = True
_pfh.contracts = contracts_fh
_pfh.defines_c = "#define XC_SB_CAP 8\n"
proofs.append(_pfh)
refuters[_pfh.name] = refute_search
