"""C15 - baggage header codec (api/include/opentelemetry/baggage/baggage.h): UrlEncode / UrlDecode / validity."""
from ..core import Proof
from .. import refute as R
from . import common

prop_id = "C15"
tu_name = "tu_baggage"
tu_text = '#include "%s/api/include/opentelemetry/baggage/baggage.h"\n' % R.core.REPO
spec_headers = ("xc_strbuild.h",)
defines_c = "#ifndef XC_SB_CAP\n#define XC_SB_CAP 768\n#endif\n"
pre_c = r"""
size_t g_k, g_j;
static void xc_havoc_ghosts(void) { size_t a, b; g_k = a; g_j = b; }
#define XC_MAXLEN 256UL
#define ALNUM(c) (((c) >= '0' && (c) <= '9') || ((c) >= 'a' && (c) <= 'z') || ((c) >= 'A' && (c) <= 'Z'))
/* characters that pass through unchanged (the 'token set' of the statement) */
#define PLAIN(c) (ALNUM(c) || (c) == '-' || (c) == '_' || (c) == '.' || (c) == '~')
/* what an encoded key / value may consist of: never a list, member or metadata separator, never a blank */
#define ENC_OK(c) (PLAIN(c) || (c) == '+' || (c) == '%')
#define PRINTABLE(c) ((c) >= ' ' && (c) <= '~')
"""
post_struct_c = ""


def configure(cfg):
    common.strbuild_boundary(cfg)


contracts = {
    # every character outside the token set is percent-encoded (blank as '+'): the result contains token characters, '+' and '%' only,
    # is between 1x and 3x as long as the input, and lives in a buffer of its own
    "Baggage_UrlEncode": {"pre": common.sv_ok("str") +
        "__CPROVER_assigns()\n"
        "__CPROVER_ensures(__CPROVER_is_fresh(__CPROVER_return_value.data, XC_SB_CAP))\n"
        "__CPROVER_ensures(str.length_ <= __CPROVER_return_value.len && __CPROVER_return_value.len <= 3 * str.length_)\n"
        "__CPROVER_ensures(g_k < __CPROVER_return_value.len ==> ENC_OK(__CPROVER_return_value.data[g_k]))\n",
        "loops": {1:
            "__CPROVER_assigns(xc_i1, ret.len, __CPROVER_object_upto(ret.data, XC_SB_CAP))\n"
            "__CPROVER_loop_invariant(xc_i1 <= str.length_ && xc_i1 <= ret.len && ret.len <= 3 * xc_i1 && ret.data == __CPROVER_loop_entry(ret.data))\n"
            "__CPROVER_loop_invariant(g_k < ret.len ==> ENC_OK(ret.data[g_k]))\n"
            "__CPROVER_decreases(str.length_ - xc_i1)\n"}},
    # decoding never reads outside the view (CBMC's pointer obligations on str[i+1], str[i+2]), produces at most as many bytes as it reads,
    # only ever raises the error flag, returns the empty string on error, and succeeds only on input made of token characters, '+' and
    # complete %XX escapes
    "Baggage_UrlDecode": {"pre": common.sv_ok("str") +
        "__CPROVER_requires(__CPROVER_is_fresh(err, sizeof(bool)))\n"
        "__CPROVER_assigns(*err)\n"
        "__CPROVER_ensures(__CPROVER_is_fresh(__CPROVER_return_value.data, XC_SB_CAP))\n"
        "__CPROVER_ensures(__CPROVER_return_value.len <= str.length_)\n"
        "__CPROVER_ensures(*err == __CPROVER_old(*err) || (*err && __CPROVER_return_value.len == 0))\n"
        "__CPROVER_ensures((!*err && g_j < str.length_) ==> (ENC_OK(str.data_[g_j])))\n"
        "__CPROVER_ensures((!*err && g_j < str.length_ && str.data_[g_j] == '%') ==> (g_j + 2 < str.length_ && XDIGIT(str.data_[g_j + 1]) && XDIGIT(str.data_[g_j + 2])))\n",
        "loops": {1:
            "__CPROVER_assigns(i, ret.len, __CPROVER_object_upto(ret.data, XC_SB_CAP))\n"
            "__CPROVER_loop_invariant(i <= str.length_ && ret.len <= i && ret.data == __CPROVER_loop_entry(ret.data))\n"
            "__CPROVER_loop_invariant(g_j < i ==> ENC_OK(str.data_[g_j]))\n"
            "__CPROVER_loop_invariant((g_j < i && str.data_[g_j] == '%') ==> (g_j + 2 < str.length_ && XDIGIT(str.data_[g_j + 1]) && XDIGIT(str.data_[g_j + 2])))\n"
            "__CPROVER_decreases(str.length_ - i)\n"}},
    "Baggage_IsPrintableString": {"pre": common.sv_ok("str") +
        "__CPROVER_assigns()\n"
        "__CPROVER_ensures((__CPROVER_return_value && g_k < str.length_) ==> PRINTABLE(str.data_[g_k]))\n"
        "__CPROVER_ensures((!__CPROVER_return_value) ==> str.length_ > 0)\n",
        "loops": {1:
            "__CPROVER_assigns(xc_i1)\n"
            "__CPROVER_loop_invariant(xc_i1 <= str.length_)\n"
            "__CPROVER_loop_invariant(g_k < xc_i1 ==> PRINTABLE(str.data_[g_k]))\n"
            "__CPROVER_decreases(str.length_ - xc_i1)\n"}},
    "Baggage_IsValidKey": {"pre": common.sv_ok("key") +
        "__CPROVER_assigns()\n"
        "__CPROVER_ensures(__CPROVER_return_value ==> (key.length_ > 0 && (g_k < key.length_ ==> PRINTABLE(key.data_[g_k]))))\n"
        "__CPROVER_ensures(key.length_ == 0 ==> !__CPROVER_return_value)\n"},
}
pre_c += "#define XDIGIT(c) (((c) >= '0' && (c) <= '9') || ((c) >= 'a' && (c) <= 'f') || ((c) >= 'A' && (c) <= 'F'))\n"

# round trip over the real bodies; strings of at most N bytes, every byte value
H_RT = r"""
void h_%(name)s(void)
{
  char in[%(n)d]; size_t n; bool err = 0;
  __CPROVER_assume(%(nassume)s);
  string_view s; s.data_ = in; s.length_ = n;
  xc_sb e = Baggage_UrlEncode(s);
  string_view es; es.data_ = e.data; es.length_ = e.len;
  xc_sb d = Baggage_UrlDecode(es, &err);
  __CPROVER_assert(!err, "the encoded form is accepted by the decoder");
  __CPROVER_assert(d.len == n, "decode(encode(s)) has the length of s");
  size_t k; __CPROVER_assume(k < n);
  __CPROVER_assert(d.data[k] == in[k], "decode(encode(s)) == s");
  __CPROVER_assert(0, "XC_CANARY end of harness reachable");
}
"""
CODEC = [("Baggage::UrlEncode", 1), ("Baggage::UrlDecode", 2)]
proofs = [
    Proof("UrlEncode", [CODEC[0]], enforce="Baggage_UrlEncode"),
    Proof("UrlDecode", [CODEC[1]], enforce="Baggage_UrlDecode"),
    Proof("IsPrintableString", [("Baggage::IsPrintableString", 1)], enforce="Baggage_IsPrintableString"),
    Proof("IsValidKey", [("Baggage::IsValidKey", 1)], enforce="Baggage_IsValidKey", replace=["Baggage_IsPrintableString"]),
    Proof("Lemma_char_roundtrip", CODEC, harness=H_RT % {"name": "Lemma_char_roundtrip", "n": 1, "nassume": "n == 1"}, loop_contracts=False, unwind=5,
          complete_unwind_note="one input byte (all 256 values): the encoder loop runs once, the decoder loop at most three times",
          desc="decode(encode(c)) == c for every single byte c"),
    Proof("Codec_roundtrip_bounded", CODEC, harness=H_RT % {"name": "Codec_roundtrip_bounded", "n": 3, "nassume": "n <= 3"}, loop_contracts=False, unwind=11,
          level="bounded", bound_note="strings of at most 3 bytes (every byte value); longer strings are covered only through the per-character lemma",
          desc="decode(encode(s)) == s"),
]
for _p in proofs:
    if _p.harness is not None:
        _p.defines_c = "#define XC_SB_CAP 12\n"      # the unwound round-trip harnesses build at most 9 characters
trusted = ("std::string as a fixed-capacity string builder (xc_strbuild.h, 768 bytes; inputs up to 256 bytes: the loop-contract proofs are inductive in the iteration count but the objects are bounded)", "isalnum/isdigit/toupper in the C locale for 0..127 and false for bytes >= 128",
           "lambdas (to_hex, IsHex, from_hex) as C functions")
assumptions = (
    "only the codec and the validity predicates are under contract; Baggage::FromHeader / ToHeader / Set / Delete (list semantics, the 180-member, 4096- and "
    "8192-byte limits, metadata pass-through, 'context untouched when nothing valid remains') and the propagators (BaggagePropagator, CompositePropagator) are NOT covered",
    "the unbounded contracts state memory safety, length relations, output / accepted-input alphabets; the exact round trip is proved per character (complete) "
    "and for strings of up to 3 bytes (bounded stand-in), not as an unbounded string equality",
)
not_covered = ("Baggage::FromHeader", "Baggage::ToHeader", "Baggage::Set/Delete/GetValue", "BaggagePropagator", "CompositePropagator")

DRIVER = ("c15_native", ["c15_native.cc"], [], ["-fsanitize=address", "-fno-omit-frame-pointer", "-g"])


def refute_search(mod, proof, violations, ix, workdir, seed):
    """directed native search through the public API under ASan: Set/ToHeader/FromHeader for every printable byte; truncated %-escapes at the end of an exact-size buffer"""
    import os, re as _re, subprocess
    binpath = R.build_native(DRIVER[0], [os.path.join(R.core.HERE, "replay", s) for s in DRIVER[1]], DRIVER[3])
    pr = subprocess.run([binpath, "search"], stdout=subprocess.PIPE, stderr=subprocess.STDOUT, text=True, timeout=300)
    m = _re.findall(r"^FOUND (.*)$", pr.stdout, _re.M)
    if m:
        args = m[-1].split()
    elif pr.returncode not in (0, 2):
        # crashed (ASan report): the last header announced is not printed before the crash; replay the whole search
        args = ["search"]
    else:
        return None
    r = R.native_check(DRIVER[0], DRIVER[1], args, DRIVER[3])
    r["input"] = {"driver_args": args, "meaning": "roundtrip <key hex> <value hex> | parse <header hex> | search (ASan report inside)", "found_by": "directed native search (refute mode)"}
    return r if r["reproduced"] else None


refuters = {p.name: refute_search for p in proofs}
