"""C07 - histogram aggregation (sdk/src/metrics/aggregation/histogram_aggregation.cc, histogram_aggregation.h)."""
from ..core import Proof
from .. import refute as R
from . import common

prop_id = "C07"
tu_name = "tu_histogram"
tu_text = '#include "%s/sdk/src/metrics/aggregation/histogram_aggregation.cc"\n' % R.core.REPO
spec_headers = ("xc_metrics_boundary.h",)

pre_c = r"""
size_t g_k; size_t g_idx; double g_v;
static void xc_havoc_ghosts(void) { size_t a; double d; g_k = a; g_v = d; }
#define XC_MAXB 4096UL
/* exact comparison of a double boundary with an int64 value (the statement compares mathematically; the value is not rounded) */
#define LT_D_I(b, v) ((b) < -9223372036854775808.0 ? 1 : (b) >= 9223372036854775808.0 ? 0 : \
    ((int64_t)(b) < (v) || ((int64_t)(b) == (v) && (b) < (double)(int64_t)(b))))
#define LT_D_D(b, v) ((b) < (v))
/* the comparison the code performs for an int64 value: the value is converted to double first */
#define LT_CONV(b, v) ((b) < (double)(v))
/* representation invariant of a histogram point (sortedness of the boundaries is not needed by the per-call contracts) */
#define WF_HIST(p) ((p).boundaries_.len <= XC_MAXB && __CPROVER_is_fresh((p).boundaries_.data, (p).boundaries_.len * sizeof(double)) && \
    (p).counts_.len == (p).boundaries_.len + 1 && __CPROVER_is_fresh((p).counts_.data, (p).counts_.len * sizeof(uint64_t)))
/* index i is the bucket of v: boundary[i-1] < v <= boundary[i] (last bucket: everything above the top boundary) */
#define IN_BUCKET(LT, p, i, v) (((i) == 0 || LT((p).boundaries_.data[(i) - 1], v)) && \
    ((i) == (p).boundaries_.len || __CPROVER_isnand((p).boundaries_.data[i]) /* NaN boundaries are outside the statement */ || !LT((p).boundaries_.data[i], v)))
#define CLAMP(k, n) ((k) * ((k) < (n)))
/* equality of doubles that also accepts NaN == NaN (inf + -inf) */
#define FEQ(a, b) ((a) == (b) || (__CPROVER_isnand(a) && __CPROVER_isnand(b)))
#define IEQ(a, b) ((a) == (b))
#define MIN_(a, b) ((b) < (a) ? (b) : (a))
#define MAX_(a, b) ((a) < (b) ? (b) : (a))
"""

# assumed contracts of the std:: pieces (C++ standard semantics); declarations only, replaced at every call
post_struct_c = r"""
void xc_vec_double_assign(xc_vec_double *dst, xc_vec_double src)
__CPROVER_requires(src.len <= XC_MAXB && __CPROVER_is_fresh(dst, sizeof(*dst)))
__CPROVER_assigns(*dst)
__CPROVER_ensures(dst->len == src.len && __CPROVER_is_fresh(dst->data, src.len * sizeof(double)))
__CPROVER_ensures(g_k < src.len ==> dst->data[g_k] == src.data[g_k]);

void xc_vec_double_assign_list(xc_vec_double *dst, size_t n, const double *src)
__CPROVER_requires(n <= XC_MAXB && __CPROVER_is_fresh(dst, sizeof(*dst)))
__CPROVER_assigns(*dst)
__CPROVER_ensures(dst->len == n && __CPROVER_is_fresh(dst->data, n * sizeof(double)))
__CPROVER_ensures(g_k < n ==> dst->data[g_k] == src[g_k]);

xc_vec_u64 xc_vec_u64_make(size_t n, uint64_t v)
__CPROVER_requires(n <= XC_MAXB + 1)
__CPROVER_assigns()
__CPROVER_ensures(__CPROVER_return_value.len == n && __CPROVER_is_fresh(__CPROVER_return_value.data, n * sizeof(uint64_t)))
__CPROVER_ensures(g_k < n ==> __CPROVER_return_value.data[g_k] == v);

/* std::lower_bound on a range partitioned by (elem < value): first position whose element is not less than value.
   The comparison is the one the call performs: double element < value converted to double. */
const double *xc_lower_bound_i64(const double *first, const double *last, int64_t v)
__CPROVER_requires(__CPROVER_same_object(first, last) && first <= last)
__CPROVER_assigns()
__CPROVER_ensures(__CPROVER_pointer_in_range_dfcc(first, __CPROVER_return_value, last))
__CPROVER_ensures((__CPROVER_POINTER_OFFSET(__CPROVER_return_value) - __CPROVER_POINTER_OFFSET(first)) % sizeof(double) == 0)
__CPROVER_ensures(__CPROVER_return_value > first ==> __CPROVER_return_value[-1] < (double)v)
__CPROVER_ensures(__CPROVER_return_value < last ==> !(*__CPROVER_return_value < (double)v));

const double *xc_lower_bound_f64(const double *first, const double *last, double v)
__CPROVER_requires(__CPROVER_same_object(first, last) && first <= last)
__CPROVER_assigns()
__CPROVER_ensures(__CPROVER_pointer_in_range_dfcc(first, __CPROVER_return_value, last))
__CPROVER_ensures((__CPROVER_POINTER_OFFSET(__CPROVER_return_value) - __CPROVER_POINTER_OFFSET(first)) % sizeof(double) == 0)
__CPROVER_ensures(__CPROVER_return_value > first ==> __CPROVER_return_value[-1] < v)
__CPROVER_ensures(__CPROVER_return_value < last ==> !(*__CPROVER_return_value < v));

/* std::upper_bound: first position whose element is greater than value (so that swapping the two is verified against
   the right semantics and fails the bucket rule instead of breaking extraction) */
const double *xc_upper_bound_i64(const double *first, const double *last, int64_t v)
__CPROVER_requires(__CPROVER_same_object(first, last) && first <= last)
__CPROVER_assigns()
__CPROVER_ensures(__CPROVER_pointer_in_range_dfcc(first, __CPROVER_return_value, last))
__CPROVER_ensures((__CPROVER_POINTER_OFFSET(__CPROVER_return_value) - __CPROVER_POINTER_OFFSET(first)) % sizeof(double) == 0)
__CPROVER_ensures(__CPROVER_return_value > first ==> !((double)v < __CPROVER_return_value[-1]))
__CPROVER_ensures(__CPROVER_return_value < last ==> (double)v < *__CPROVER_return_value);

const double *xc_upper_bound_f64(const double *first, const double *last, double v)
__CPROVER_requires(__CPROVER_same_object(first, last) && first <= last)
__CPROVER_assigns()
__CPROVER_ensures(__CPROVER_pointer_in_range_dfcc(first, __CPROVER_return_value, last))
__CPROVER_ensures((__CPROVER_POINTER_OFFSET(__CPROVER_return_value) - __CPROVER_POINTER_OFFSET(first)) % sizeof(double) == 0)
__CPROVER_ensures(__CPROVER_return_value > first ==> !(v < __CPROVER_return_value[-1]))
__CPROVER_ensures(__CPROVER_return_value < last ==> v < *__CPROVER_return_value);
"""

STD_SHIMS = ["xc_vec_double_assign", "xc_vec_double_assign_list", "xc_vec_u64_make", "xc_lower_bound_i64", "xc_lower_bound_f64",
             "xc_upper_bound_i64", "xc_upper_bound_f64"]
assumed_contracts = {n: "C++ standard semantics of the std:: operation (declaration with contract in engine/units/c07.py)" for n in STD_SHIMS}


def configure(cfg):
    common.metrics_boundary(cfg)
    cfg.cnames_sig = [
        ("LongHistogramAggregation::Aggregate", "int64_t", "LongHist_Aggregate"),
        ("LongHistogramAggregation::Aggregate", "(double", "LongHist_Aggregate_noop"),
        ("DoubleHistogramAggregation::Aggregate", "(double", "DoubleHist_Aggregate"),
        ("DoubleHistogramAggregation::Aggregate", "int64_t", "DoubleHist_Aggregate_noop"),
        ("LongHistogramAggregation::LongHistogramAggregation", "AggregationConfig *", "LongHist_ctor"),
        ("DoubleHistogramAggregation::DoubleHistogramAggregation", "AggregationConfig *", "DoubleHist_ctor"),
    ]


P = "self->point_data_"


def aggregate_contract(kind, extra_req=""):
    i64 = kind == "i64"
    tag = "0" if i64 else "1"
    fld = "u.i" if i64 else "u.d"
    LT = "LT_CONV" if i64 else "LT_D_D"
    no_ovf = ("__CPROVER_requires((value >= 0 ? %(P)s.sum_.u.i <= INT64_MAX - value : %(P)s.sum_.u.i >= INT64_MIN - value))\n" % {"P": P}) if i64 \
        else "__CPROVER_requires(!__CPROVER_isnand(value) && !__CPROVER_isnand(%s.sum_.u.d) && !__CPROVER_isnand(%s.min_.u.d) && !__CPROVER_isnand(%s.max_.u.d))\n" % (P, P, P)
    d = {"P": P, "tag": tag, "f": fld, "LT": LT, "EQ": "IEQ" if i64 else "FEQ"}
    return {
        "ghost": {("after_decl", "index"): "g_idx = index;"},
        "pre": ("__CPROVER_requires(__CPROVER_is_fresh(self, sizeof(*self)) && WF_HIST(%(P)s))\n"
                "__CPROVER_requires(%(P)s.sum_.tag == %(tag)s && %(P)s.min_.tag == %(tag)s && %(P)s.max_.tag == %(tag)s)\n" % d) + no_ovf + extra_req +
        ("__CPROVER_assigns(g_idx, %(P)s.count_, %(P)s.sum_, %(P)s.min_, %(P)s.max_, __CPROVER_object_whole(%(P)s.counts_.data))\n"
         "__CPROVER_ensures(%(P)s.count_ == __CPROVER_old(%(P)s.count_) + 1)\n"
         "__CPROVER_ensures(%(P)s.sum_.tag == %(tag)s && %(EQ)s(%(P)s.sum_.%(f)s, __CPROVER_old(%(P)s.sum_.%(f)s) + value))\n"
         "__CPROVER_ensures(self->record_min_max_ ==> (%(P)s.min_.tag == %(tag)s && %(P)s.max_.tag == %(tag)s && "
         "%(P)s.min_.%(f)s == MIN_(__CPROVER_old(%(P)s.min_.%(f)s), value) && %(P)s.max_.%(f)s == MAX_(__CPROVER_old(%(P)s.max_.%(f)s), value)))\n"
         "__CPROVER_ensures(!self->record_min_max_ ==> (%(P)s.min_.%(f)s == __CPROVER_old(%(P)s.min_.%(f)s) && %(P)s.max_.%(f)s == __CPROVER_old(%(P)s.max_.%(f)s)))\n"
         # exactly one bucket is incremented, and it is the bucket of the value
         "__CPROVER_ensures(g_idx < %(P)s.counts_.len && IN_BUCKET(%(LT)s, %(P)s, g_idx, value))\n"
         "__CPROVER_ensures(g_k < %(P)s.counts_.len ==> %(P)s.counts_.data[g_k] == __CPROVER_old(%(P)s.counts_.data[CLAMP(g_k, %(P)s.counts_.len)]) + (g_k == g_idx ? 1 : 0))\n"
         "__CPROVER_ensures(%(P)s.boundaries_.len == __CPROVER_old(%(P)s.boundaries_.len) && %(P)s.counts_.len == __CPROVER_old(%(P)s.counts_.len))\n" % d)}


def ctor_contract(kind):
    i64 = kind == "i64"
    tag = "0" if i64 else "1"
    R_ = "__CPROVER_return_value.point_data_"
    sent = ("__CPROVER_ensures(%(R)s.min_.tag == 0 && %(R)s.max_.tag == 0 && %(R)s.min_.u.i == INT64_MAX && %(R)s.max_.u.i == INT64_MIN)\n"
            if i64 else
            # the sentinels must be neutral for min/max over every finite value an instrument can record (histograms record non-negative values)
            "__CPROVER_ensures(%(R)s.min_.tag == 1 && %(R)s.max_.tag == 1)\n"
            "__CPROVER_ensures((g_v >= 0.0 && g_v <= DBL_MAX) ==> (MIN_(%(R)s.min_.u.d, g_v) == g_v && MAX_(%(R)s.max_.u.d, g_v) == g_v))\n") % {"R": R_}
    return {"pre":
        "__CPROVER_requires(aggregation_config == NULL || (__CPROVER_is_fresh(aggregation_config, sizeof(HistogramAggregationConfig)) && "
        "((const HistogramAggregationConfig *)aggregation_config)->boundaries_.len <= XC_MAXB && "
        "__CPROVER_is_fresh(((const HistogramAggregationConfig *)aggregation_config)->boundaries_.data, ((const HistogramAggregationConfig *)aggregation_config)->boundaries_.len * sizeof(double))))\n"
        "__CPROVER_assigns()\n"
        "__CPROVER_ensures(%(R)s.counts_.len == %(R)s.boundaries_.len + 1 && %(R)s.count_ == 0 && %(R)s.sum_.tag == %(tag)s && %(R)s.sum_.u.%(f)s == 0)\n"
        "__CPROVER_ensures(g_k < %(R)s.counts_.len ==> %(R)s.counts_.data[g_k] == 0)\n"
        "__CPROVER_ensures(aggregation_config != NULL ==> (%(R)s.boundaries_.len == ((const HistogramAggregationConfig *)aggregation_config)->boundaries_.len && "
        "(g_k < %(R)s.boundaries_.len ==> %(R)s.boundaries_.data[g_k] == ((const HistogramAggregationConfig *)aggregation_config)->boundaries_.data[g_k]) && "
        "%(R)s.record_min_max_ == ((const HistogramAggregationConfig *)aggregation_config)->record_min_max_))\n"
        "__CPROVER_ensures(aggregation_config == NULL ==> (%(R)s.boundaries_.len == 15 && %(R)s.record_min_max_))\n"
        "__CPROVER_ensures(__CPROVER_return_value.record_min_max_ == %(R)s.record_min_max_)\n" % {"R": R_, "tag": tag, "f": "i" if i64 else "d"} + sent}


def merge_contract(kind):
    i64 = kind == "i64"
    tag = "0" if i64 else "1"
    f = "u.i" if i64 else "u.d"
    ovf = ("__CPROVER_requires((delta->sum_.u.i >= 0 ? current->sum_.u.i <= INT64_MAX - delta->sum_.u.i : current->sum_.u.i >= INT64_MIN - delta->sum_.u.i))\n" if i64 else
           "__CPROVER_requires(!__CPROVER_isnand(current->sum_.u.d) && !__CPROVER_isnand(delta->sum_.u.d) && !__CPROVER_isnand(current->min_.u.d) && "
           "!__CPROVER_isnand(delta->min_.u.d) && !__CPROVER_isnand(current->max_.u.d) && !__CPROVER_isnand(delta->max_.u.d))\n")
    d = {"tag": tag, "f": f, "EQ": "IEQ" if i64 else "FEQ"}
    return {"pre":
        "__CPROVER_requires(__CPROVER_is_fresh(current, sizeof(*current)) && __CPROVER_is_fresh(delta, sizeof(*delta)) && __CPROVER_is_fresh(merge, sizeof(*merge)))\n"
        "__CPROVER_requires(WF_HIST(*current) && WF_HIST(*delta) && WF_HIST(*merge) && delta->counts_.len == current->counts_.len && merge->counts_.len == current->counts_.len)\n"
        "__CPROVER_requires(current->sum_.tag == %(tag)s && delta->sum_.tag == %(tag)s && current->min_.tag == %(tag)s && delta->min_.tag == %(tag)s && current->max_.tag == %(tag)s && delta->max_.tag == %(tag)s)\n" % d + ovf +
        "__CPROVER_assigns(merge->boundaries_, merge->sum_, merge->count_, merge->record_min_max_, merge->min_, merge->max_, __CPROVER_object_whole(merge->counts_.data))\n"
        # merging two intervals = recording all values into one histogram: counts and count add, sum adds, min/max combine
        "__CPROVER_ensures(g_k < current->counts_.len ==> merge->counts_.data[g_k] == current->counts_.data[g_k] + delta->counts_.data[g_k])\n"
        "__CPROVER_ensures(merge->count_ == current->count_ + delta->count_)\n"
        "__CPROVER_ensures(merge->sum_.tag == %(tag)s && %(EQ)s(merge->sum_.%(f)s, current->sum_.%(f)s + delta->sum_.%(f)s))\n"
        "__CPROVER_ensures(merge->record_min_max_ == (current->record_min_max_ && delta->record_min_max_))\n"
        "__CPROVER_ensures(merge->record_min_max_ ==> (merge->min_.tag == %(tag)s && merge->max_.tag == %(tag)s && "
        "merge->min_.%(f)s == MIN_(current->min_.%(f)s, delta->min_.%(f)s) && merge->max_.%(f)s == MAX_(current->max_.%(f)s, delta->max_.%(f)s)))\n"
        "__CPROVER_ensures(merge->boundaries_.len == current->boundaries_.len && (g_k < current->boundaries_.len ==> merge->boundaries_.data[g_k] == current->boundaries_.data[g_k]))\n"
        "__CPROVER_ensures(merge->counts_.len == current->counts_.len)\n" % d,
        "loops": {1:
        "__CPROVER_assigns(i, __CPROVER_object_whole(merge->counts_.data))\n"
        "__CPROVER_loop_invariant(i <= current->counts_.len)\n"
        "__CPROVER_loop_invariant((g_k < current->counts_.len && g_k < i) ==> merge->counts_.data[g_k] == current->counts_.data[g_k] + delta->counts_.data[g_k])\n"
        "__CPROVER_decreases(current->counts_.len - i)\n"}}


def diff_contract():
    return {"pre":
        "__CPROVER_requires(__CPROVER_is_fresh(current, sizeof(*current)) && __CPROVER_is_fresh(next, sizeof(*next)) && __CPROVER_is_fresh(diff, sizeof(*diff)))\n"
        "__CPROVER_requires(WF_HIST(*current) && WF_HIST(*next) && WF_HIST(*diff) && next->counts_.len == current->counts_.len && diff->counts_.len == current->counts_.len)\n"
        "__CPROVER_assigns(diff->boundaries_, diff->count_, diff->record_min_max_, __CPROVER_object_whole(diff->counts_.data))\n"
        "__CPROVER_ensures(g_k < current->counts_.len ==> diff->counts_.data[g_k] == next->counts_.data[g_k] - current->counts_.data[g_k])\n"
        "__CPROVER_ensures(diff->count_ == next->count_ - current->count_ && !diff->record_min_max_)\n"
        "__CPROVER_ensures(diff->boundaries_.len == current->boundaries_.len && (g_k < current->boundaries_.len ==> diff->boundaries_.data[g_k] == current->boundaries_.data[g_k]))\n",
        "loops": {1:
        "__CPROVER_assigns(i, __CPROVER_object_whole(diff->counts_.data))\n"
        "__CPROVER_loop_invariant(i <= current->counts_.len)\n"
        "__CPROVER_loop_invariant((g_k < current->counts_.len && g_k < i) ==> diff->counts_.data[g_k] == next->counts_.data[g_k] - current->counts_.data[g_k])\n"
        "__CPROVER_decreases(current->counts_.len - i)\n"}}


def bbs_contract(kind):
    LT = "LT_D_I" if kind == "i64" else "LT_D_D"
    # BucketBinarySearch's own contract is stated with the comparison the code performs (value converted to double);
    # the exact (mathematical) bucket rule is demanded one level up, in Aggregate's postcondition
    conv = "(double)value" if kind == "i64" else "value"
    return {"pre":
        "__CPROVER_requires(__CPROVER_is_fresh(boundaries, sizeof(*boundaries)) && boundaries->len <= XC_MAXB && __CPROVER_is_fresh(boundaries->data, boundaries->len * sizeof(double)))\n"
        "__CPROVER_assigns()\n"
        "__CPROVER_ensures(__CPROVER_return_value <= boundaries->len)\n"
        "__CPROVER_ensures(__CPROVER_return_value > 0 ==> boundaries->data[__CPROVER_return_value - 1] < %s)\n" % conv +
        "__CPROVER_ensures(__CPROVER_return_value < boundaries->len ==> !(boundaries->data[__CPROVER_return_value] < %s))\n" % conv}


EXACT53 = "__CPROVER_requires(value >= -9007199254740992L && value <= 9007199254740992L)\n"

contracts = {
    "LongHist_Aggregate": aggregate_contract("i64"),
    "DoubleHist_Aggregate": aggregate_contract("f64"),
    "LongHist_ctor": ctor_contract("i64"),
    "DoubleHist_ctor": ctor_contract("f64"),
    "HistogramMerge_long": merge_contract("i64"),
    "HistogramMerge_double": merge_contract("f64"),
    "HistogramDiff_long": diff_contract(),
    "HistogramDiff_double": diff_contract(),
    "BucketBinarySearch_long": bbs_contract("i64"),
    "BucketBinarySearch_double": bbs_contract("f64"),
}

LB = ["xc_lower_bound_i64", "xc_lower_bound_f64", "xc_upper_bound_i64", "xc_upper_bound_f64"]
VEC = ["xc_vec_double_assign", "xc_vec_double_assign_list", "xc_vec_u64_make"]

proofs = [
    Proof("BucketBinarySearch_long", [("BucketBinarySearch<long>", 2)], enforce="BucketBinarySearch_long", replace=LB),
    Proof("BucketBinarySearch_double", [("BucketBinarySearch<double>", 2)], enforce="BucketBinarySearch_double", replace=LB),
    Proof("LongHist_Aggregate", [("LongHistogramAggregation::Aggregate", 2, "(int64_t")], enforce="LongHist_Aggregate",
          replace=["BucketBinarySearch_long"], desc="bucket rule with the comparison the code performs (value converted to double); "
          "the lemmas below relate it to the mathematical rule of the statement"),
    Proof("DoubleHist_Aggregate", [("DoubleHistogramAggregation::Aggregate", 2, "(double")], enforce="DoubleHist_Aggregate",
          replace=["BucketBinarySearch_double"]),
    Proof("LongHist_ctor", [("LongHistogramAggregation::LongHistogramAggregation", 1, "AggregationConfig *")], enforce="LongHist_ctor", replace=VEC),
    Proof("DoubleHist_ctor", [("DoubleHistogramAggregation::DoubleHistogramAggregation", 1, "AggregationConfig *")], enforce="DoubleHist_ctor", replace=VEC),
    Proof("HistogramMerge_long", [("HistogramMerge<long>", 3)], enforce="HistogramMerge_long", replace=VEC),
    Proof("HistogramMerge_double", [("HistogramMerge<double>", 3)], enforce="HistogramMerge_double", replace=VEC),
    Proof("HistogramDiff_long", [("HistogramDiff<long>", 3)], enforce="HistogramDiff_long", replace=VEC),
    Proof("HistogramDiff_double", [("HistogramDiff<double>", 3)], enforce="HistogramDiff_double", replace=VEC),
]

# ---------------------------------------------------------------------------------------------
# lemma: the comparison the code performs (boundary < (double)value) is the mathematical comparison boundary < value.
# It holds for |value| <= 2^53 and FAILS beyond (int64 -> double rounds): that failure is finding F11.
H_LEMMA = r"""
double cex_b; int64_t cex_v;
void h_%(name)s(void)
{
  xc_havoc_ghosts();
  double b; int64_t v;
  __CPROVER_assume(!__CPROVER_isnand(b));
  %(range)s
  cex_b = b; cex_v = v;
  __CPROVER_assert(LT_CONV(b, v) == LT_D_I(b, v), "LEMMA: (boundary < (double)value) is the mathematical boundary < value, so the proved bucket rule is the statement's rule");
  __CPROVER_assert(0, "XC_CANARY end of harness reachable");
}
"""
proofs += [
    Proof("Lemma_long_compare_exact_53", [("BucketBinarySearch<long>", 2)], harness=H_LEMMA % {"name": "Lemma_long_compare_exact_53",
          "range": "__CPROVER_assume(v >= -9007199254740992L && v <= 9007199254740992L);"}, loop_contracts=False,
          desc="spec-level lemma, |value| <= 2^53"),
    Proof("Lemma_long_compare_exact_full", [("BucketBinarySearch<long>", 2)], harness=H_LEMMA % {"name": "Lemma_long_compare_exact_full", "range": ""},
          loop_contracts=False, desc="spec-level lemma on the whole int64 domain (fails: finding F11)"),
]

trusted = ("std::vector / nostd::variant shims (engine/prelude/xc_metrics_boundary.h)",)
assumptions = (
    "std::lower_bound / std::vector copy, fill and initializer-list assignment follow the C++ standard (assumed contracts, see coverage.units replaced_callees)",
    "boundaries are sorted strictly increasing and free of NaN: then the bucket satisfying the proved local rule boundary[i-1] < v <= boundary[i] is unique",
    "the SpinLockMutex lock_guard of each method is dropped: calls on one aggregation object are mutually exclusive",
    "long sums do not overflow int64 (precondition); double sums are IEEE additions in call order (sum of a merged interval equals the sum of recorded values up to the order of additions)",
    "recorded values and stored sum/min/max are not NaN",
)
not_covered = ("LongHistogramAggregation::Merge/Diff wrappers (unique_ptr/new plumbing around HistogramMerge/HistogramDiff)",
               "TemporalMetricStorage / SyncMetricStorage plumbing that decides which points are merged",
               "HistogramDiff does not compute sum_ (observed; Diff is outside the statement)")


DRIVER = ("c07_native", ["c07_native.cc"], ["sdk/src/metrics/aggregation/histogram_aggregation.cc"])


def _bits(vals, name):
    for k, v in vals.items():
        if k == name + "#bin" or k.endswith("::" + name + "#bin"):
            return int(v, 2)
    return None


def refute_ctor(mod, proof, violations, ix, workdir, seed):
    vals = R.leaf_trace(workdir, proof.name, violations[0]["obligation"]) or {}
    b = _bits(vals, "g_v")
    if b is None:
        b = 0
    r = R.native_check(DRIVER[0], DRIVER[1], ["double_sentinels", "0x%016x" % b], repo_sources=DRIVER[2])
    r["input"] = {"recorded_value_bits": "0x%016x" % b}
    return r


def refute_lemma(mod, proof, violations, ix, workdir, seed):
    vals = R.leaf_trace(workdir, proof.name, violations[0]["obligation"]) or {}
    b = _bits(vals, "cex_b")
    v = R.to_int(vals.get("cex_v"))
    if b is None or v is None:
        return None
    r = R.native_check(DRIVER[0], DRIVER[1], ["long_bucket", "0x%016x" % b, v], repo_sources=DRIVER[2])
    r["input"] = {"boundary_bits": "0x%016x" % b, "value": v}
    return r


refuters = {"DoubleHist_ctor": refute_ctor, "Lemma_long_compare_exact_full": refute_lemma, "Lemma_long_compare_exact_53": refute_lemma}
