"""C06 - counter measurements are conserved: Sum aggregation algebra (sdk/src/metrics/aggregation/sum_aggregation.cc)."""
from ..core import Proof
from .. import refute as R
from . import common

prop_id = "C06"
tu_name = "tu_sum"
tu_text = '#include "%s/sdk/src/metrics/aggregation/sum_aggregation.cc"\n' % R.core.REPO
spec_headers = ("xc_metrics_boundary.h",)
pre_c = r"""
static void xc_havoc_ghosts(void) { }
#define FEQ(a, b) ((a) == (b) || (__CPROVER_isnand(a) && __CPROVER_isnand(b)))
/* the mathematical sum / difference of two int64 fits int64 (the statement speaks of sums, not of wrap-around) */
#define ADD_FITS(a, b) (!__CPROVER_overflow_plus((long)(a), (long)(b)))
#define SUB_FITS(a, b) (!__CPROVER_overflow_minus((long)(a), (long)(b)))
"""
post_struct_c = common.POINT_UNION_C
force_records = ("sdk::metrics::SumPointData", "sdk::metrics::HistogramPointData", "sdk::metrics::LastValuePointData", "sdk::metrics::DropPointData")
L, D = "LongSumAggregation", "DoubleSumAggregation"


def configure(cfg):
    common.metrics_boundary(cfg)
    common.chrono_boundary(cfg)
    common.aggregation_boundary(cfg)
    cfg.cnames_sig = tuple(getattr(cfg, "cnames_sig", ())) + (
        (L + "::Aggregate", "int64_t", L + "_Aggregate"), (D + "::Aggregate", "(double", D + "_Aggregate"))


def binop_contract(T, other, is_long, diff):
    # Merge: the merged point is the sum of both points (every measurement counted once); Diff(next) = next - this
    # (what was added since); operands unchanged; the result is a new aggregation of the same monotonicity
    sub = {"T": T, "o": other, "RES": "(((%s *)__CPROVER_return_value)->point_data_)" % T, "SELF": "(self->point_data_)",
           "OTHER": "(((const %s *)%s)->point_data_)" % (T, other), "tag": "0" if is_long else "1", "f": "u.i" if is_long else "u.d"}
    if is_long:
        sub["fits"] = ("SUB_FITS(%(OTHER)s.value_.u.i, %(SELF)s.value_.u.i)" if diff else "ADD_FITS(%(OTHER)s.value_.u.i, %(SELF)s.value_.u.i)") % sub
        sub["val"] = ("%(RES)s.value_.u.i == %(OTHER)s.value_.u.i - %(SELF)s.value_.u.i" if diff else "%(RES)s.value_.u.i == %(OTHER)s.value_.u.i + %(SELF)s.value_.u.i") % sub
    else:
        sub["fits"] = "1"
        sub["val"] = ("FEQ(%(RES)s.value_.u.d, %(OTHER)s.value_.u.d - %(SELF)s.value_.u.d)" if diff else "FEQ(%(RES)s.value_.u.d, %(OTHER)s.value_.u.d + %(SELF)s.value_.u.d)") % sub
    return {"pre": (
        "__CPROVER_requires(__CPROVER_is_fresh(self, sizeof(%(T)s)) && __CPROVER_is_fresh(%(o)s, sizeof(%(T)s)))\n"
        "__CPROVER_requires(%(SELF)s.value_.tag == %(tag)s && %(OTHER)s.value_.tag == %(tag)s && %(fits)s)\n"
        "__CPROVER_assigns()\n"
        "__CPROVER_ensures(__CPROVER_is_fresh(__CPROVER_return_value, sizeof(%(T)s)))\n"
        "__CPROVER_ensures(%(RES)s.value_.tag == %(tag)s && %(val)s)\n"
        "__CPROVER_ensures(%(RES)s.is_monotonic_ == %(SELF)s.is_monotonic_)\n"
        "__CPROVER_ensures(%(SELF)s.value_.tag == %(tag)s && %(SELF)s.value_.%(f)s == __CPROVER_old(self->point_data_.value_.%(f)s) || "
        "(%(tag)s == 1 && __CPROVER_isnand(%(SELF)s.value_.u.d)))\n"
        "__CPROVER_ensures(%(OTHER)s.value_.%(f)s == __CPROVER_old(((const %(T)s *)%(o)s)->point_data_.value_.%(f)s) || "
        "(%(tag)s == 1 && __CPROVER_isnand(%(OTHER)s.value_.u.d)))\n") % sub}


def aggregate_contract(T, is_long):
    # a measurement is added exactly once; a negative measurement on a monotonic counter is not a valid measurement and is ignored
    sub = {"T": T, "tag": "0" if is_long else "1", "f": "u.i" if is_long else "u.d"}
    if is_long:
        sub["fits"] = "ADD_FITS(self->point_data_.value_.u.i, value)"
        sub["added"] = "self->point_data_.value_.u.i == __CPROVER_old(self->point_data_.value_.u.i) + value"
        sub["same"] = "self->point_data_.value_.u.i == __CPROVER_old(self->point_data_.value_.u.i)"
    else:
        sub["fits"] = "1"
        sub["added"] = "FEQ(self->point_data_.value_.u.d, __CPROVER_old(self->point_data_.value_.u.d) + value)"
        sub["same"] = "FEQ(self->point_data_.value_.u.d, __CPROVER_old(self->point_data_.value_.u.d))"
    return {"pre": (
        "__CPROVER_requires(__CPROVER_is_fresh(self, sizeof(%(T)s)) && self->point_data_.value_.tag == %(tag)s && %(fits)s)\n"
        "__CPROVER_assigns(self->point_data_.value_)\n"
        "__CPROVER_ensures(self->point_data_.value_.tag == %(tag)s)\n"
        "__CPROVER_ensures(!(self->point_data_.is_monotonic_ && value < 0) ==> %(added)s)\n"
        "__CPROVER_ensures((self->point_data_.is_monotonic_ && value < 0) ==> %(same)s)\n") % sub}


def topoint_contract(T, is_long):
    sub = {"T": T, "tag": "0" if is_long else "1", "f": "u.i" if is_long else "u.d"}
    return {"pre": (
        "__CPROVER_requires(__CPROVER_is_fresh(self, sizeof(%(T)s)) && self->point_data_.value_.tag == %(tag)s)\n"
        "__CPROVER_assigns()\n"
        "__CPROVER_ensures(__CPROVER_return_value.tag == 0 && __CPROVER_return_value.u.a0.value_.tag == %(tag)s && "
        "(__CPROVER_return_value.u.a0.value_.%(f)s == self->point_data_.value_.%(f)s || (%(tag)s == 1 && __CPROVER_isnand(self->point_data_.value_.u.d))) && "
        "__CPROVER_return_value.u.a0.is_monotonic_ == self->point_data_.is_monotonic_)\n") % sub}


def ctor_contract(is_long):
    return {"pre": "__CPROVER_assigns()\n"
            "__CPROVER_ensures(__CPROVER_return_value.point_data_.value_.tag == %s && __CPROVER_return_value.point_data_.value_.%s == 0 && "
            "__CPROVER_return_value.point_data_.is_monotonic_ == is_monotonic)\n" % (("0", "u.i") if is_long else ("1", "u.d"))}


contracts = {
    L + "_Merge": binop_contract(L, "delta", True, False), L + "_Diff": binop_contract(L, "next", True, True),
    D + "_Merge": binop_contract(D, "delta", False, False), D + "_Diff": binop_contract(D, "next", False, True),
    L + "_Aggregate": aggregate_contract(L, True), D + "_Aggregate": aggregate_contract(D, False),
    L + "_ToPoint": topoint_contract(L, True), D + "_ToPoint": topoint_contract(D, False),
    L + "_ctor_1_bool": ctor_contract(True), D + "_ctor_1_bool": ctor_contract(False),
}
proofs = [
    Proof("LongSum_Merge", [(L + "::Merge", 1)], enforce=L + "_Merge"),
    Proof("LongSum_Diff", [(L + "::Diff", 1)], enforce=L + "_Diff"),
    Proof("DoubleSum_Merge", [(D + "::Merge", 1)], enforce=D + "_Merge", solver="portfolio3"),
    Proof("DoubleSum_Diff", [(D + "::Diff", 1)], enforce=D + "_Diff", solver="portfolio3"),
    Proof("LongSum_Aggregate", [(L + "::Aggregate", 2, "int64_t")], enforce=L + "_Aggregate"),
    Proof("DoubleSum_Aggregate", [(D + "::Aggregate", 2, "(double")], enforce=D + "_Aggregate", solver="portfolio3"),
    Proof("LongSum_ToPoint", [(L + "::ToPoint", 0)], enforce=L + "_ToPoint"),
    Proof("DoubleSum_ToPoint", [(D + "::ToPoint", 0)], enforce=D + "_ToPoint"),
    Proof("LongSum_ctor", [(L + "::" + L, 1, "(bool")], enforce=L + "_ctor_1_bool"),
    Proof("DoubleSum_ctor", [(D + "::" + D, 1, "(bool")], enforce=D + "_ctor_1_bool"),
]
trusted = ("std::lock_guard<SpinLockMutex> dropped (sequential semantics of one call)", "OTEL_INTERNAL_LOG_* statements dropped",
           "nostd::variant as tagged unions (xc_value, xc_point); unique_ptr<Aggregation> as a plain pointer; new = malloc + constructor")
assumptions = (
    "only the Sum aggregation algebra is under contract (Aggregate adds the measurement once, Merge = sum, Diff = next - this, ToPoint, constructor) "
    "for the long and the double variant; the argument of Merge/Diff is assumed to be an aggregation of the same class",
    "int64 sums are required to fit int64 (precondition); double sums are IEEE additions",
    "the storage / reader / temporality machinery of C06 (SyncMetricStorage, TemporalMetricStorage, per-reader stashes, interval start times, "
    "threads) is NOT covered",
)
not_covered = ("SyncMetricStorage::Collect", "TemporalMetricStorage::buildMetrics", "AttributesHashMap", "collection intervals / start timestamps", "recorder threads racing collectors")

DRIVER = ("c06_native", ["c06_native.cc"], ["sdk/src/metrics/aggregation/sum_aggregation.cc", "sdk/src/common/global_log_handler.cc"])


def refute_search(mod, proof, violations, ix, workdir, seed):
    """directed native search on the real Sum aggregations: both classes x monotonic or not x small value sequences, Merge and Diff"""
    import os, re as _re, subprocess
    binpath = R.build_native(DRIVER[0], [os.path.join(R.core.HERE, "replay", s) for s in DRIVER[1]] + [os.path.join(R.core.REPO, s) for s in DRIVER[2]])
    full = subprocess.run([binpath, "search"], stdout=subprocess.PIPE, stderr=subprocess.STDOUT, text=True, timeout=300).stdout
    m = _re.findall(r"^FOUND (.*)$", full, _re.M)
    if not m:
        return None
    args = m[-1].split()
    r = R.native_check(DRIVER[0], DRIVER[1], args, repo_sources=DRIVER[2])
    r["input"] = {"driver_args": args, "meaning": "case <0 long|1 double> <monotonic> <a> <b> : Aggregate(a) on x, Aggregate(b) on y, then x.Merge(y), x.Diff(y)", "found_by": "directed native search (refute mode)"}
    return r if r["reproduced"] else None


refuters = {p.name: refute_search for p in proofs}


# ---------------------------------------------------------------------------------------------
# TemporalMetricStorage::buildMetrics (sdk/src/metrics/state/temporal_metric_storage.cc), the two merge steps the conservation argument rests on:
# (1) the deltas stashed for a collector since its last collection are merged into ONE map: a series that is already in the merged map is
#     accumulated (existing.Merge(delta)), a new one starts from a fresh neutral aggregation - so several stashed deltas add up;
# (2) for a cumulative reader the previously reported totals are merged in the same way.
# Each step is a callback handed to AttributesHashMap::GetAllEnteries; the callback is put under contract for one delivered (attributes,
# aggregation) pair and an arbitrary state of the merged map (inductive step); slices of the real buildMetrics body carry the callbacks.
TU_TMS = ("tu_temporal_storage", '#include "%s/sdk/src/metrics/state/temporal_metric_storage.cc"\n' % R.core.REPO)
TMS_PRE = r"""
size_t g_k;
typedef struct xc_aggr { unsigned long content; } xc_aggr;    /* an aggregation: the amount it holds (Merge adds amounts) */
/* the merged AttributesHashMap seen at the delivered key K (not the overflow key), the overflow series and the rest: the abstract map whose
   operations ./check C08 proves of the real class (cardinality limit: an absent key at the limit is served from / folded into the overflow series) */
typedef struct xc_ahm { int kp; unsigned long kc; int op; unsigned long oc; unsigned long rest; unsigned long n_others; unsigned long limit; } xc_ahm;
typedef struct xc_ahm_list { xc_ahm **items; size_t count; } xc_ahm_list;      /* std::list<std::shared_ptr<AttributesHashMap>> as a sequence */
unsigned long g_enum_calls, g_cb_calls, g_new_map_calls; const void *g_enum_map;
const void *g_cb_attrs; xc_aggr g_cb_aggr_obj;
static void xc_havoc_ghosts(void) { size_t a; g_k = a; g_enum_calls = g_cb_calls = g_new_map_calls = 0; g_enum_map = 0; }
#define AHM_SIZE(m) ((m)->n_others + (unsigned long)(m)->kp + (unsigned long)(m)->op)
#define AHM_FULL(m) (AHM_SIZE(m) + 1 >= (m)->limit)
#define AHM_TOTAL(m) (((m)->kp ? (m)->kc : 0UL) + ((m)->op ? (m)->oc : 0UL) + (m)->rest)
#define BIG (1UL << 40)
#define AHM_WF(m) (((m)->kp == 0 || (m)->kp == 1) && ((m)->op == 0 || (m)->op == 1) && (m)->limit >= 1 && (m)->limit <= 100000 && AHM_SIZE(m) <= (m)->limit && \
   (AHM_SIZE(m) == (m)->limit ==> (m)->op == 1) && (m)->kc <= BIG && (m)->oc <= BIG && (m)->rest <= BIG)
"""
TMS_POST = r"""
typedef struct xc_last_reported { xc_ahm *attributes_map; SystemTimestamp collection_ts; } xc_last_reported;      /* LastReportedMetrics */
static xc_aggr xc_o_get, xc_o_merge, xc_o_create; static xc_ahm xc_o_map; static xc_last_reported xc_o_last;
/* AttributesHashMap operations on the abstract map (their contracts on the real class: ./check C08) */
static xc_aggr *xc_ahm_Get(const xc_ahm *m, const void *key) { if (!m->kp) return NULL; xc_o_get.content = m->kc; return &xc_o_get; }
static xc_aggr *xc_ahm_GetOrSetDefault(xc_ahm *m, const void *key)
{
  if (m->kp) { xc_o_get.content = m->kc; return &xc_o_get; }
  if (AHM_FULL(m)) { if (!m->op) { m->op = 1; m->oc = 0; } xc_o_get.content = m->oc; return &xc_o_get; }     /* served from the overflow series */
  m->kp = 1; m->kc = 0; xc_o_get.content = 0; return &xc_o_get;
}
static void xc_ahm_Set(xc_ahm *m, const void *key, xc_aggr *v)
{
  if (m->kp) { m->kc = v->content; return; }
  if (AHM_FULL(m)) { if (m->op) m->oc = m->oc + v->content; else { m->op = 1; m->oc = v->content; } return; }              /* folded into the overflow series */
  m->kp = 1; m->kc = v->content;
}
static xc_aggr *xc_Merge(xc_aggr *self, const xc_aggr *other) { xc_o_merge.content = self->content + other->content; return &xc_o_merge; }
static xc_aggr *xc_CreateAggregation(void) { xc_o_create.content = 0; return &xc_o_create; }       /* a fresh aggregation holds nothing */
static xc_ahm *xc_new_ahm(void) { g_new_map_calls++; return &xc_o_map; }
static xc_last_reported *xc_last_reported_of(void) { return &xc_o_last; }
"""


def _tms_types(em, base, targs, name):
    if base in ("std::unique_ptr", "std::shared_ptr") and targs:
        last = targs[0].strip().split("::")[-1]
        if last == "Aggregation":
            return CT_("xc_aggr", 1)
        if last.startswith("AttributesHashMap"):
            return CT_("xc_ahm", 1)
    if base == "std::list":
        return CT_("xc_ahm_list")
    if base.split("::")[-1] in ("AttributesHashMapWithCustomHash", "AttributesHashMap"):
        return CT_("xc_ahm")
    return None


from ..xc.emit import CT as CT_


def _tms_enum(em, node, recv, args):
    lam = em._find_lambda(args[0])
    if lam is None:
        raise common.ExtractionError("GetAllEnteries without a lambda argument")
    li = em.lambda_info(lam, None)
    caps = [em.capture_arg(c) for c in li["captures"]]
    r = recv["node"] if isinstance(recv, dict) and recv.get("xc_is_ptr") else recv
    em.report["AttributesHashMap::GetAllEnteries(callback) -> one callback invocation on an arbitrary entry (inductive step)"] += 1
    return "(g_enum_calls++, g_enum_map = (const void *)(%s), g_cb_calls++, %s(%s))" % (em.expr(r), li["cname"], ", ".join(caps + ["g_cb_attrs", "&g_cb_aggr_obj"]))


def _configure_tms(cfg):
    common.sdk_trace_boundary(cfg)
    common.chrono_boundary(cfg)
    cfg.type_handlers.insert(0, _tms_types)
    cfg.drop_types = getattr(cfg, "drop_types", set()) | {"std::lock_guard"}
    for r in ("sdk::metrics::FilteredOrderedAttributeMap", "sdk::metrics::InstrumentDescriptor", "sdk::metrics::AggregationConfig", "sdk::metrics::CollectorHandle"):
        cfg.opaque_records[r] = "xc_opaque"
    cfg.type_map["sdk::metrics::Aggregation"] = "xc_aggr"
    cfg.type_map["sdk::metrics::LastReportedMetrics"] = "xc_last_reported"
    # auto x = std::move(list): some nodes carry only the sugared spelling of the type
    cfg.type_map["typename std::remove_reference<list<shared_ptr<AttributesHashMapWithCustomHash<>>> &>::type"] = "xc_ahm_list"
    cfg.type_map["typename std::remove_reference<unique_ptr<AttributesHashMapWithCustomHash<>> &>::type"] = "xc_ahm *"
    if not hasattr(cfg, "seq_handlers"):
        cfg.seq_handlers = {}
    cfg.seq_handlers["std::list"] = lambda em, seq, targs: ("(%s).items" % seq, "(%s).count" % seq)
    cfg.seq_handlers["xc_ahm_list"] = cfg.seq_handlers["std::list"]
    unp = lambda r: (r["node"] if isinstance(r, dict) and r.get("xc_is_ptr") else r)
    cfg.ext_q["DefaultAggregation::CreateAggregation"] = lambda em, node, recv, args: "xc_CreateAggregation()"
    cfg.ext_q["Aggregation::Merge"] = lambda em, node, recv, args: "xc_Merge(%s, %s)" % (em.expr(unp(recv)), em.addr_of(args[0]))
    for cls in ("AttributesHashMapWithCustomHash", "AttributesHashMap"):
        cfg.ext_q[cls + "::Get"] = lambda em, node, recv, args: "xc_ahm_Get(%s, (const void *)%s)" % (em.expr(unp(recv)), em.addr_of(args[0]))
        cfg.ext_q[cls + "::Set"] = lambda em, node, recv, args: "xc_ahm_Set(%s, (const void *)%s, %s)" % (em.expr(unp(recv)), em.addr_of(args[0]), em.expr(args[1]))
        cfg.ext_q[cls + "::GetAllEnteries"] = _tms_enum
        cfg.ext_q[cls + "::Size"] = lambda em, node, recv, args: "AHM_SIZE(%s)" % em.expr(unp(recv))
        cfg.ext_q[cls + "::GetOrSetDefault"] = lambda em, node, recv, args: "xc_ahm_GetOrSetDefault(%s, (const void *)%s)" % (em.expr(unp(recv)), em.addr_of(args[0]))
    for U in ("std::unique_ptr::", "std::shared_ptr::", "std::__shared_ptr_access::"):
        cfg.ext_methods[U + "operator->"] = lambda em, recv, args, n: recv
        cfg.ext_methods[U + "operator*"] = lambda em, recv, args, n: "(*%s)" % recv
        cfg.ext_methods[U + "get"] = lambda em, recv, args, n: recv
        cfg.ext_methods[U + "operator bool"] = lambda em, recv, args, n: "(%s != NULL)" % recv
        cfg.ext_methods[U + "operator="] = lambda em, recv, args, n: "%s = %s" % (recv, em.expr(args[0]))
    cfg.ctor_ext["std::unique_ptr"] = lambda em, node, args: (em.expr(args[0]) if args else "NULL")
    cfg.ctor_ext["std::shared_ptr"] = lambda em, node, args: (em.expr(args[0]) if args else "NULL")
    cfg.ext["new"] = lambda em, n: "xc_new_ahm()"
    cfg.ext_methods["std::unordered_map::operator[]"] = lambda em, recv, args, n: "(*xc_last_reported_of())"


def tms_lambda_contract(map_cap):
    M = "(*xc_cp_%s)" % map_cap
    return {"pre":
        "__CPROVER_requires(__CPROVER_is_fresh(xc_cp_%s, sizeof(xc_ahm *)) && __CPROVER_is_fresh(%s, sizeof(xc_ahm)) && __CPROVER_is_fresh(self, sizeof(*self)) && AHM_WF(%s))\n" % (map_cap, M, M) +
        "__CPROVER_requires(__CPROVER_is_fresh(aggregation, sizeof(xc_aggr)) && aggregation->content <= BIG)\n"
        "__CPROVER_assigns(__CPROVER_object_whole(%s), xc_o_get, xc_o_merge, xc_o_create)\n" % M +
        # conservation: whatever the state of the merged map (the series present or not, the map at its cardinality limit or not), the amount held
        # by the delivered aggregation is added to the map's total exactly once; the cardinality invariant is kept; the walk goes on
        "__CPROVER_ensures(AHM_TOTAL(%(M)s) == ((__CPROVER_old(%(M)s->kp) ? __CPROVER_old(%(M)s->kc) : 0UL) + (__CPROVER_old(%(M)s->op) ? __CPROVER_old(%(M)s->oc) : 0UL) + __CPROVER_old(%(M)s->rest)) + aggregation->content)\n" % {"M": M} +
        "__CPROVER_ensures(AHM_SIZE(%s) <= %s->limit && %s->limit == __CPROVER_old(%s->limit))\n" % (M, M, M, M) +
        "__CPROVER_ensures(__CPROVER_return_value)\n"}


SL_UNREP = {"func": ("TemporalMetricStorage::buildMetrics", 6), "from": "merged_metrics", "to": "<reported", "cname": "buildMetrics_merge_unreported"}
SL_CUM = {"func": ("TemporalMetricStorage::buildMetrics", 6), "from": "last_aggr_hashmap", "to": "#2", "cname": "buildMetrics_merge_cumulative"}
contracts_tms = {"buildMetrics_merge_unreported__l1": tms_lambda_contract("merged_metrics"), "buildMetrics_merge_cumulative__l1": tms_lambda_contract("merged_metrics")}
proofs_tms = [
    Proof("Temporal_merge_unreported_callback", [SL_UNREP], enforce="buildMetrics_merge_unreported__l1",
          desc="several deltas stashed for one collector add up: the delivered amount is added to the merged map's total exactly once, also at the cardinality limit"),
    Proof("Temporal_merge_cumulative_callback", [SL_CUM], enforce="buildMetrics_merge_cumulative__l1",
          desc="cumulative reader: the previously reported totals are added to the new deltas' total exactly once, also at the cardinality limit"),
]
for _p in proofs_tms:
    _p.tu = TU_TMS
    _p.pre_c = TMS_PRE
    _p.post_struct_c = TMS_POST
    _p.spec_headers = ("xc_trace_boundary.h",)
    _p.force_records = ("common::SystemTimestamp",)
    _p.configure = _configure_tms
    _p.own_config = True
    _p.contracts = contracts_tms
    _p.timeout = 300
proofs += proofs_tms


def refute_storage(mod, proof, violations, ix, workdir, seed):
    """directed native search on a real MeterProvider with a counter and two readers: every plan of up to 7 steps (Add to set A / B, collect by
    reader 1 / 2) under every combination of reader temporalities"""
    import os, re as _re, subprocess
    from . import c08 as _c08
    srcs = _c08._repo_sources()
    binpath = R.build_native("c06_storage_native", [os.path.join(R.core.HERE, "replay", "c06_storage_native.cc")] + [os.path.join(R.core.REPO, s) for s in srcs], ["-O1"])
    full = subprocess.run([binpath, "search"], stdout=subprocess.PIPE, stderr=subprocess.STDOUT, text=True, timeout=900).stdout
    m = _re.findall(r"^FOUND (.*)$", full, _re.M)
    if not m:
        # second search: the merged map at its cardinality limit (the driver of C08: thousands of attribute sets over two collections)
        b2 = R.build_native("c08_native", [os.path.join(R.core.HERE, "replay", "c08_native.cc")] + [os.path.join(R.core.REPO, s) for s in srcs], ["-O1"])
        full2 = subprocess.run([b2, "search"], stdout=subprocess.PIPE, stderr=subprocess.STDOUT, text=True, timeout=900).stdout
        m2 = _re.findall(r"^FOUND (.*)$", full2, _re.M)
        if not m2:
            return None
        a2 = m2[-1].split()
        r = R.native_check("c08_native", ["c08_native.cc"], a2, ["-O1"], repo_sources=srcs)
        r["input"] = {"driver_args": a2, "meaning": "overflow <n1> <n2>: n1 distinct attribute sets, Collect, n2 further distinct sets, Collect (cumulative reader, default limit 2000)", "found_by": "directed native search (refute mode)"}
        return r if r["reproduced"] else None
    args = m[-1].split()
    r = R.native_check("c06_storage_native", ["c06_storage_native.cc"], args, ["-O1"], repo_sources=srcs)
    r["input"] = {"driver_args": args, "meaning": "plan <a = Add 1 to set A, b = Add 10 to set B, 1 / 2 = reader 1 / 2 collects> <reader 1 delta?> <reader 2 delta?>", "found_by": "directed native search (refute mode)"}
    return r if r["reproduced"] else None


for _p in proofs_tms:
    refuters[_p.name] = refute_storage


# ---------------------------------------------------------------------------------------------
# buildMetrics, the per-collector bookkeeping after the unreported deltas were merged (slice `reported .. result_to_export` of the real body): what a
# reader is handed is the map just merged for it - for a delta reader the deltas stashed since ITS previous collection and nothing older - and that
# map becomes its "last reported" entry stamped with this collection's time; a delta reader's interval starts where its previous one ended, a
# cumulative reader's previous totals are merged in exactly once. std::unordered_map<CollectorHandle *, LastReportedMetrics> is seen at the
# collector's slot (find / end / operator[] / insert per the C++ standard).
BK_PRE = TMS_PRE + r"""
typedef struct xc_lrit { int slot; } xc_lrit;                 /* iterator of the last-reported map: 0 = the collector's entry, -1 = end() */
int g_lr_present; unsigned long g_enum_on_old;
"""
BK_POST = TMS_POST.replace("static xc_aggr xc_o_get, xc_o_merge, xc_o_create; static xc_ahm xc_o_map; static xc_last_reported xc_o_last;",
    "typedef struct xc_lr_pair { const void *first; xc_last_reported second; } xc_lr_pair;      /* value_type of the last-reported map */\n"
    "static xc_aggr xc_o_get, xc_o_merge, xc_o_create; static xc_ahm xc_o_map; static xc_lr_pair xc_o_pair;\n#define xc_o_last (xc_o_pair.second)").replace(
    "static xc_last_reported *xc_last_reported_of(void) { return &xc_o_last; }", r"""
static xc_lrit xc_lr_find(void) { xc_lrit it; it.slot = g_lr_present ? 0 : -1; return it; }
static xc_lrit xc_lr_end(void) { xc_lrit it; it.slot = -1; return it; }
/* operator[](collector): the entry, value-initialised first if absent */
static xc_last_reported *xc_last_reported_of(void) { if (!g_lr_present) { g_lr_present = 1; xc_o_last.attributes_map = NULL; xc_o_last.collection_ts.nanos_since_epoch_ = 0; } return &xc_o_last; }
/* insert({collector, value}): only if absent */
static void xc_lr_insert(xc_last_reported v) { if (!g_lr_present) { g_lr_present = 1; xc_o_last = v; } }
""")


def _bk_types(em, base, targs, name):
    if base in ("std::__detail::_Node_iterator", "std::__detail::_Node_const_iterator", "std::__detail::_Node_iterator_base") or name.endswith("::iterator"):
        return CT_("xc_lrit")
    if base == "std::pair" and targs and "LastReportedMetrics" in targs[-1]:
        return CT_("xc_last_reported")
    return None


def _configure_bk(cfg):
    _configure_tms(cfg)
    cfg.type_handlers.insert(0, _bk_types)
    cfg.type_map["std::unordered_map<opentelemetry::sdk::metrics::CollectorHandle *, opentelemetry::sdk::metrics::LastReportedMetrics>::iterator"] = "xc_lrit"
    M = "std::unordered_map::"
    cfg.ext_methods[M + "find"] = lambda em, recv, args, n: "xc_lr_find()"
    cfg.ext_methods[M + "end"] = lambda em, recv, args, n: "xc_lr_end()"
    cfg.ext_methods[M + "insert"] = lambda em, recv, args, n: "xc_lr_insert(%s)" % em.expr(args[0])
    for it in ("std::__detail::_Node_iterator", "std::__detail::_Node_const_iterator", "std::__detail::_Node_iterator_base"):
        cfg.ext_methods[it + "::operator!="] = lambda em, recv, args, n: "(%s.slot != %s.slot)" % (recv, em.expr(args[0]))
        cfg.ext_methods[it + "::operator=="] = lambda em, recv, args, n: "(%s.slot == %s.slot)" % (recv, em.expr(args[0]))
        cfg.ext_methods[it + "::operator->"] = lambda em, recv, args, n: "(&xc_o_pair)"
    for k in ("std::operator!=", "std::operator==", "std::__detail::operator!=", "std::__detail::operator=="):
        cfg.ext_q[k] = (lambda neg: (lambda em, node, recv, args: "(%s.slot %s %s.slot)" % (em.pexpr_post(args[0]), "!=" if neg else "==", em.pexpr_post(args[1]))))("!=" in k)
    cfg.ext["make_pair"] = lambda em, node, recv, args: em.expr(args[1])
    cfg.ctor_ext["LastReportedMetrics"] = None


SL_BK = {"func": ("TemporalMetricStorage::buildMetrics", 6), "from": "reported", "to": "result_to_export", "cname": "buildMetrics_bookkeeping"}
contracts_bk = {"buildMetrics_bookkeeping": {"pre":
    "__CPROVER_requires(__CPROVER_is_fresh(self, sizeof(*self)) && __CPROVER_is_fresh(merged_metrics, sizeof(*merged_metrics)) && __CPROVER_is_fresh(*merged_metrics, sizeof(xc_ahm)) && AHM_WF(*merged_metrics))\n"
    "__CPROVER_requires(__CPROVER_is_fresh(last_collection_ts, sizeof(*last_collection_ts)) && __CPROVER_is_fresh(xc_out_result_to_export, sizeof(xc_ahm *)) && (g_lr_present == 0 || g_lr_present == 1))\n"
    "__CPROVER_requires(__CPROVER_is_fresh(aggregation_temporarily, sizeof(int)) && __CPROVER_is_fresh(collection_ts, sizeof(*collection_ts)) && __CPROVER_is_fresh(xc_out_reported, sizeof(xc_lrit)) && __CPROVER_is_fresh(collector, sizeof(*collector)))\n"
    "__CPROVER_requires(!g_lr_present || (__CPROVER_is_fresh(xc_o_last.attributes_map, sizeof(xc_ahm)) && AHM_WF(xc_o_last.attributes_map)))\n"
    "__CPROVER_assigns(*merged_metrics, *last_collection_ts, *xc_out_result_to_export, *xc_out_reported, g_lr_present, xc_o_pair, g_enum_calls, g_enum_map, g_cb_calls, xc_o_get, xc_o_merge, xc_o_create; "
    "*merged_metrics != NULL: __CPROVER_object_whole(*merged_metrics))\n"
    # what the reader is handed is the map merged for it in this collection (never an older one), and it becomes its last reported entry, stamped now
    "__CPROVER_ensures(*xc_out_result_to_export == __CPROVER_old(*merged_metrics) && g_lr_present == 1 && xc_o_last.attributes_map == __CPROVER_old(*merged_metrics))\n"
    "__CPROVER_ensures(xc_o_last.collection_ts.nanos_since_epoch_ == collection_ts->nanos_since_epoch_)\n"
    # a delta reader's interval starts where its previous one ended (at the caller's value, SDK start, the first time); a cumulative one's always at SDK start
    "__CPROVER_ensures((*aggregation_temporarily != 2 && __CPROVER_old(g_lr_present)) ==> last_collection_ts->nanos_since_epoch_ == __CPROVER_old(xc_o_last.collection_ts.nanos_since_epoch_))\n"
    "__CPROVER_ensures((*aggregation_temporarily == 2 || !__CPROVER_old(g_lr_present)) ==> last_collection_ts->nanos_since_epoch_ == __CPROVER_old(last_collection_ts->nanos_since_epoch_))\n"
    # a cumulative reader's previous totals are walked exactly once (merged in through the callback), a delta reader's never
    "__CPROVER_ensures(g_enum_calls == ((*aggregation_temporarily == 2 && __CPROVER_old(g_lr_present)) ? 1UL : 0UL))\n"
    "__CPROVER_ensures((*aggregation_temporarily == 2 && __CPROVER_old(g_lr_present)) ==> g_enum_map == __CPROVER_old(xc_o_last.attributes_map))\n"}}
_pb = Proof("Temporal_bookkeeping", [SL_BK], enforce="buildMetrics_bookkeeping", timeout=300,
            desc="per-collector bookkeeping: the reader is handed the map merged in this collection, which becomes its last reported entry; interval start; previous totals merged once for cumulative readers")
_pb.tu = TU_TMS
_pb.pre_c = BK_PRE
_pb.post_struct_c = BK_POST
_pb.spec_headers = ("xc_trace_boundary.h",)
_pb.force_records = ("common::SystemTimestamp",)
_pb.configure = _configure_bk
_pb.own_config = True
_pb.contracts = dict(contracts_tms, **contracts_bk)
proofs.append(_pb)
refuters[_pb.name] = refute_storage


# ---------------------------------------------------------------------------------------------
# SyncMetricStorage::Collect (sdk/src/metrics/state/sync_metric_storage.cc): "each measurement falling in exactly one collection interval": the
# live map is handed to the temporal storage exactly once and replaced by a fresh empty one in the same step.
TU_SMS = ("tu_sync_storage", '#include "%s/sdk/src/metrics/state/sync_metric_storage.cc"\n' % R.core.REPO)
SMS_PRE = r"""
typedef struct xc_ahm { char xc_unused; } xc_ahm;
unsigned long g_build_calls, g_new_map_calls; const void *g_build_delta, *g_build_collector, *g_build_self; long g_build_start, g_build_end; int g_build_ret;
static void xc_havoc_ghosts(void) { int r; g_build_calls = 0; g_new_map_calls = 0; g_build_delta = g_build_collector = g_build_self = 0; g_build_start = g_build_end = 0; g_build_ret = r; }
"""
SMS_POST = r"""
static xc_ahm xc_o_fresh;
static xc_ahm *xc_new_ahm(void) { g_new_map_calls++; return &xc_o_fresh; }
static bool xc_buildMetrics(const void *tms, const void *collector, SystemTimestamp start, SystemTimestamp end, const xc_ahm *delta)
{ g_build_calls++; g_build_self = tms; g_build_collector = collector; g_build_start = start.nanos_since_epoch_; g_build_end = end.nanos_since_epoch_; g_build_delta = delta; return g_build_ret != 0; }
"""


def _sms_types(em, base, targs, name):
    if base in ("std::unique_ptr", "std::shared_ptr") and targs and targs[0].strip().split("::")[-1].startswith("AttributesHashMap"):
        return CT_("xc_ahm", 1)
    if base in ("nostd::function_ref", "function_ref", "nostd::span", "span"):
        return CT_("xc_opaque")
    return None


def _configure_sms(cfg):
    common.sdk_trace_boundary(cfg)
    common.chrono_boundary(cfg)
    cfg.type_handlers.insert(0, _sms_types)
    cfg.value_classes |= {"SystemTimestamp"}
    cfg.drop_types = getattr(cfg, "drop_types", set()) | {"std::lock_guard"}
    for r in ("sdk::metrics::TemporalMetricStorage", "sdk::metrics::CollectorHandle", "sdk::metrics::InstrumentDescriptor", "common::SpinLockMutex", "sdk::metrics::AttributesProcessor"):
        cfg.opaque_records[r] = "xc_opaque"
    cfg.ctor_ext["std::shared_ptr"] = lambda em, node, args: (em.expr(args[0]) if args else "NULL")
    cfg.ctor_ext["std::unique_ptr"] = lambda em, node, args: (em.expr(args[0]) if args else "NULL")
    for U in ("std::unique_ptr::", "std::shared_ptr::", "std::__shared_ptr::"):
        cfg.ext_methods[U + "reset"] = lambda em, recv, args, n: "%s = %s" % (recv, em.expr(args[0]) if [a for a in args if a.get("kind") != "CXXDefaultArgExpr"] else "NULL")
        cfg.ext_methods[U + "operator="] = lambda em, recv, args, n: "%s = %s" % (recv, em.expr(args[0]))
    cfg.ext["new"] = lambda em, n: "xc_new_ahm()"
    cfg.ext_q["TemporalMetricStorage::buildMetrics"] = lambda em, node, recv, args: "xc_buildMetrics((const void *)%s, (const void *)%s, %s, %s, %s)" % (
        em.addr_of(recv["node"] if isinstance(recv, dict) and recv.get("xc_is_ptr") else recv), em.expr(args[0]), em.expr(args[2]), em.expr(args[3]), em.expr(args[4]))


contracts_sms = {"SyncMetricStorage_Collect": {"pre":
    "__CPROVER_requires(__CPROVER_is_fresh(self, sizeof(*self)) && __CPROVER_is_fresh(self->attributes_hashmap_, sizeof(xc_ahm)))\n"
    "__CPROVER_assigns(self->attributes_hashmap_, g_build_calls, g_new_map_calls, g_build_delta, g_build_collector, g_build_self, g_build_start, g_build_end)\n"
    # the map that was collecting measurements is handed over exactly once, to this storage's temporal storage, for the calling collector and interval ...
    "__CPROVER_ensures(g_build_calls == 1 && g_build_delta == __CPROVER_old(self->attributes_hashmap_) && g_build_self == &self->temporal_metric_storage_ && g_build_collector == collector)\n"
    "__CPROVER_ensures(g_build_start == sdk_start_ts.nanos_since_epoch_ && g_build_end == collection_ts.nanos_since_epoch_ && __CPROVER_return_value == (g_build_ret != 0))\n"
    # ... and from now on measurements go into a fresh map (one allocation), so each measurement falls in exactly one collection
    "__CPROVER_ensures(g_new_map_calls == 1 && self->attributes_hashmap_ == &xc_o_fresh && self->attributes_hashmap_ != __CPROVER_old(self->attributes_hashmap_))\n"}}
_ps = Proof("SyncStorage_Collect", [("SyncMetricStorage::Collect", 5)], enforce="SyncMetricStorage_Collect", timeout=300,
            desc="the live map is handed to the temporal storage exactly once and replaced by a fresh one in the same step")
_ps.tu = TU_SMS
_ps.pre_c = SMS_PRE
_ps.post_struct_c = SMS_POST
_ps.spec_headers = ("xc_trace_boundary.h",)
_ps.force_records = ("common::SystemTimestamp",)
_ps.configure = _configure_sms
_ps.own_config = True
_ps.contracts = contracts_sms
proofs.append(_ps)
refuters[_ps.name] = refute_storage
