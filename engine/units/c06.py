"""C06 - counter measurements are conserved: Sum aggregation algebra (sdk/src/metrics/aggregation/sum_aggregation.cc)."""
from ..core import Proof
from .. import refute as R
from . import common

prop_id = "C06"
tu_name = "tu_sum"
tu_text = '#include "%s/sdk/src/metrics/aggregation/sum_aggregation.cc"\n' % R.core.REPO
spec_headers = ("xc_metrics_boundary.h",)
pre_c = r"""
static void xc_havoc_ghosts(void) { }
#define FEQ(a, b) ((a) == (b) || (__CPROVER_isnand(a) && __CPROVER_isnand(b)))
/* the mathematical sum / difference of two int64 fits int64 (the statement speaks of sums, not of wrap-around) */
#define ADD_FITS(a, b) (!__CPROVER_overflow_plus((long)(a), (long)(b)))
#define SUB_FITS(a, b) (!__CPROVER_overflow_minus((long)(a), (long)(b)))
"""
post_struct_c = common.POINT_UNION_C
force_records = ("sdk::metrics::SumPointData", "sdk::metrics::HistogramPointData", "sdk::metrics::LastValuePointData", "sdk::metrics::DropPointData")
L, D = "LongSumAggregation", "DoubleSumAggregation"


def configure(cfg):
    common.metrics_boundary(cfg)
    common.chrono_boundary(cfg)
    common.aggregation_boundary(cfg)
    cfg.cnames_sig = tuple(getattr(cfg, "cnames_sig", ())) + (
        (L + "::Aggregate", "int64_t", L + "_Aggregate"), (D + "::Aggregate", "(double", D + "_Aggregate"))


def binop_contract(T, other, is_long, diff):
    # Merge: the merged point is the sum of both points (every measurement counted once); Diff(next) = next - this
    # (what was added since); operands unchanged; the result is a new aggregation of the same monotonicity
    sub = {"T": T, "o": other, "RES": "(((%s *)__CPROVER_return_value)->point_data_)" % T, "SELF": "(self->point_data_)",
           "OTHER": "(((const %s *)%s)->point_data_)" % (T, other), "tag": "0" if is_long else "1", "f": "u.i" if is_long else "u.d"}
    if is_long:
        sub["fits"] = ("SUB_FITS(%(OTHER)s.value_.u.i, %(SELF)s.value_.u.i)" if diff else "ADD_FITS(%(OTHER)s.value_.u.i, %(SELF)s.value_.u.i)") % sub
        sub["val"] = ("%(RES)s.value_.u.i == %(OTHER)s.value_.u.i - %(SELF)s.value_.u.i" if diff else "%(RES)s.value_.u.i == %(OTHER)s.value_.u.i + %(SELF)s.value_.u.i") % sub
    else:
        sub["fits"] = "1"
        sub["val"] = ("FEQ(%(RES)s.value_.u.d, %(OTHER)s.value_.u.d - %(SELF)s.value_.u.d)" if diff else "FEQ(%(RES)s.value_.u.d, %(OTHER)s.value_.u.d + %(SELF)s.value_.u.d)") % sub
    return {"pre": (
        "__CPROVER_requires(__CPROVER_is_fresh(self, sizeof(%(T)s)) && __CPROVER_is_fresh(%(o)s, sizeof(%(T)s)))\n"
        "__CPROVER_requires(%(SELF)s.value_.tag == %(tag)s && %(OTHER)s.value_.tag == %(tag)s && %(fits)s)\n"
        "__CPROVER_assigns()\n"
        "__CPROVER_ensures(__CPROVER_is_fresh(__CPROVER_return_value, sizeof(%(T)s)))\n"
        "__CPROVER_ensures(%(RES)s.value_.tag == %(tag)s && %(val)s)\n"
        "__CPROVER_ensures(%(RES)s.is_monotonic_ == %(SELF)s.is_monotonic_)\n"
        "__CPROVER_ensures(%(SELF)s.value_.tag == %(tag)s && %(SELF)s.value_.%(f)s == __CPROVER_old(self->point_data_.value_.%(f)s) || "
        "(%(tag)s == 1 && __CPROVER_isnand(%(SELF)s.value_.u.d)))\n"
        "__CPROVER_ensures(%(OTHER)s.value_.%(f)s == __CPROVER_old(((const %(T)s *)%(o)s)->point_data_.value_.%(f)s) || "
        "(%(tag)s == 1 && __CPROVER_isnand(%(OTHER)s.value_.u.d)))\n") % sub}


def aggregate_contract(T, is_long):
    # a measurement is added exactly once; a negative measurement on a monotonic counter is not a valid measurement and is ignored
    sub = {"T": T, "tag": "0" if is_long else "1", "f": "u.i" if is_long else "u.d"}
    if is_long:
        sub["fits"] = "ADD_FITS(self->point_data_.value_.u.i, value)"
        sub["added"] = "self->point_data_.value_.u.i == __CPROVER_old(self->point_data_.value_.u.i) + value"
        sub["same"] = "self->point_data_.value_.u.i == __CPROVER_old(self->point_data_.value_.u.i)"
    else:
        sub["fits"] = "1"
        sub["added"] = "FEQ(self->point_data_.value_.u.d, __CPROVER_old(self->point_data_.value_.u.d) + value)"
        sub["same"] = "FEQ(self->point_data_.value_.u.d, __CPROVER_old(self->point_data_.value_.u.d))"
    return {"pre": (
        "__CPROVER_requires(__CPROVER_is_fresh(self, sizeof(%(T)s)) && self->point_data_.value_.tag == %(tag)s && %(fits)s)\n"
        "__CPROVER_assigns(self->point_data_.value_)\n"
        "__CPROVER_ensures(self->point_data_.value_.tag == %(tag)s)\n"
        "__CPROVER_ensures(!(self->point_data_.is_monotonic_ && value < 0) ==> %(added)s)\n"
        "__CPROVER_ensures((self->point_data_.is_monotonic_ && value < 0) ==> %(same)s)\n") % sub}


def topoint_contract(T, is_long):
    sub = {"T": T, "tag": "0" if is_long else "1", "f": "u.i" if is_long else "u.d"}
    return {"pre": (
        "__CPROVER_requires(__CPROVER_is_fresh(self, sizeof(%(T)s)) && self->point_data_.value_.tag == %(tag)s)\n"
        "__CPROVER_assigns()\n"
        "__CPROVER_ensures(__CPROVER_return_value.tag == 0 && __CPROVER_return_value.u.a0.value_.tag == %(tag)s && "
        "(__CPROVER_return_value.u.a0.value_.%(f)s == self->point_data_.value_.%(f)s || (%(tag)s == 1 && __CPROVER_isnand(self->point_data_.value_.u.d))) && "
        "__CPROVER_return_value.u.a0.is_monotonic_ == self->point_data_.is_monotonic_)\n") % sub}


def ctor_contract(is_long):
    return {"pre": "__CPROVER_assigns()\n"
            "__CPROVER_ensures(__CPROVER_return_value.point_data_.value_.tag == %s && __CPROVER_return_value.point_data_.value_.%s == 0 && "
            "__CPROVER_return_value.point_data_.is_monotonic_ == is_monotonic)\n" % (("0", "u.i") if is_long else ("1", "u.d"))}


contracts = {
    L + "_Merge": binop_contract(L, "delta", True, False), L + "_Diff": binop_contract(L, "next", True, True),
    D + "_Merge": binop_contract(D, "delta", False, False), D + "_Diff": binop_contract(D, "next", False, True),
    L + "_Aggregate": aggregate_contract(L, True), D + "_Aggregate": aggregate_contract(D, False),
    L + "_ToPoint": topoint_contract(L, True), D + "_ToPoint": topoint_contract(D, False),
    L + "_ctor_1_bool": ctor_contract(True), D + "_ctor_1_bool": ctor_contract(False),
}
proofs = [
    Proof("LongSum_Merge", [(L + "::Merge", 1)], enforce=L + "_Merge"),
    Proof("LongSum_Diff", [(L + "::Diff", 1)], enforce=L + "_Diff"),
    Proof("DoubleSum_Merge", [(D + "::Merge", 1)], enforce=D + "_Merge", solver="portfolio3"),
    Proof("DoubleSum_Diff", [(D + "::Diff", 1)], enforce=D + "_Diff", solver="portfolio3"),
    Proof("LongSum_Aggregate", [(L + "::Aggregate", 2, "int64_t")], enforce=L + "_Aggregate"),
    Proof("DoubleSum_Aggregate", [(D + "::Aggregate", 2, "(double")], enforce=D + "_Aggregate", solver="portfolio3"),
    Proof("LongSum_ToPoint", [(L + "::ToPoint", 0)], enforce=L + "_ToPoint"),
    Proof("DoubleSum_ToPoint", [(D + "::ToPoint", 0)], enforce=D + "_ToPoint"),
    Proof("LongSum_ctor", [(L + "::" + L, 1, "(bool")], enforce=L + "_ctor_1_bool"),
    Proof("DoubleSum_ctor", [(D + "::" + D, 1, "(bool")], enforce=D + "_ctor_1_bool"),
]
trusted = ("std::lock_guard<SpinLockMutex> dropped (sequential semantics of one call)", "OTEL_INTERNAL_LOG_* statements dropped",
           "nostd::variant as tagged unions (xc_value, xc_point); unique_ptr<Aggregation> as a plain pointer; new = malloc + constructor")
assumptions = (
    "only the Sum aggregation algebra is under contract (Aggregate adds the measurement once, Merge = sum, Diff = next - this, ToPoint, constructor) "
    "for the long and the double variant; the argument of Merge/Diff is assumed to be an aggregation of the same class",
    "int64 sums are required to fit int64 (precondition); double sums are IEEE additions",
    "the storage / reader / temporality machinery of C06 (SyncMetricStorage, TemporalMetricStorage, per-reader stashes, interval start times, "
    "threads) is NOT covered",
)
not_covered = ("SyncMetricStorage::Collect", "TemporalMetricStorage::buildMetrics", "AttributesHashMap", "collection intervals / start timestamps", "recorder threads racing collectors")

DRIVER = ("c06_native", ["c06_native.cc"], ["sdk/src/metrics/aggregation/sum_aggregation.cc", "sdk/src/common/global_log_handler.cc"])


def refute_search(mod, proof, violations, ix, workdir, seed):
    """directed native search on the real Sum aggregations: both classes x monotonic or not x small value sequences, Merge and Diff"""
    import os, re as _re, subprocess
    binpath = R.build_native(DRIVER[0], [os.path.join(R.core.HERE, "replay", s) for s in DRIVER[1]] + [os.path.join(R.core.REPO, s) for s in DRIVER[2]])
    full = subprocess.run([binpath, "search"], stdout=subprocess.PIPE, stderr=subprocess.STDOUT, text=True, timeout=300).stdout
    m = _re.findall(r"^FOUND (.*)$", full, _re.M)
    if not m:
        return None
    args = m[-1].split()
    r = R.native_check(DRIVER[0], DRIVER[1], args, repo_sources=DRIVER[2])
    r["input"] = {"driver_args": args, "meaning": "case <0 long|1 double> <monotonic> <a> <b> : Aggregate(a) on x, Aggregate(b) on y, then x.Merge(y), x.Diff(y)", "found_by": "directed native search (refute mode)"}
    return r if r["reproduced"] else None


refuters = {p.name: refute_search for p in proofs}
