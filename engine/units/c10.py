"""C10 - runtime context stack (api/include/opentelemetry/context/runtime_context.h: ThreadLocalContextStorage::Stack, Detach/Attach)."""
from ..core import Proof
from .. import refute as R
from . import common

prop_id = "C10"
tu_name = "tu_context"
tu_text = '#include "opentelemetry/context/runtime_context.h"\n'
spec_headers = ("xc_trace_boundary.h",)
force_records = ("context::Context", "context::ThreadLocalContextStorage::Stack", "context::Token")
pre_c = r"""
size_t g_k; size_t g_w; unsigned long g_deleted;
static void xc_havoc_ghosts(void) { size_t a; g_k = a; }
#define XC_MAXC 4096UL
#define CLAMP(k, n) ((k) * ((k) < (n)))
/* representation invariant of the per-thread stack; abstract view = the sequence base_[0 .. size_) of context identities */
#define WF_STACK(s) ((s)->size_ <= (s)->capacity_ && (s)->capacity_ <= XC_MAXC && \
   ((s)->capacity_ == 0 ? (s)->base_ == NULL : __CPROVER_is_fresh((s)->base_, (s)->capacity_ * sizeof(Context))))
#define ID(c) ((c).head_.id)
"""
post_struct_c = r"""
Stack g_stack;     /* the thread_local stack_ of GetStack(): one instance per thread (language guarantee, assumed) */
/* operator new[] + default construction of n contexts: assumed contract */
Context *xc_new_Context_array(size_t n)
__CPROVER_requires(n <= 2 * XC_MAXC + 2)
__CPROVER_assigns()
__CPROVER_ensures(__CPROVER_is_fresh(__CPROVER_return_value, n * sizeof(Context)))
__CPROVER_ensures(g_k < n ==> ID(__CPROVER_return_value[g_k]) == 0);
Token *xc_new_Token(Context c)
__CPROVER_assigns()
__CPROVER_ensures(__CPROVER_is_fresh(__CPROVER_return_value, sizeof(Token)) && ID(__CPROVER_return_value->context_) == ID(c));
"""
assumed_contracts = {"xc_new_Context_array": "operator new[] + default construction (fresh array, every element the empty context)",
                     "xc_new_Token": "new Token(context)"}


def configure(cfg):
    common.context_boundary(cfg)


S = "self"
G = "(&g_stack)"
OLDB = lambda s, k: "__CPROVER_old(%s->base_[CLAMP(%s, %s->capacity_)])" % (s, k, s)

contracts = {
    "Stack_Pop": {"pre": "__CPROVER_requires(__CPROVER_is_fresh(self, sizeof(*self)) && WF_STACK(self))\n"
        "__CPROVER_assigns(self->size_; self->base_ != NULL: __CPROVER_object_whole(self->base_))\n"
        "__CPROVER_ensures(__CPROVER_old(self->size_) == 0 ==> self->size_ == 0)\n"
        "__CPROVER_ensures(__CPROVER_old(self->size_) > 0 ==> self->size_ == __CPROVER_old(self->size_) - 1)\n"
        "__CPROVER_ensures(g_k < self->size_ ==> ID(self->base_[g_k]) == ID(%s))\n" % OLDB("self", "g_k") +
        "__CPROVER_ensures(g_w < self->size_ ==> ID(self->base_[g_w]) == ID(%s))\n" % OLDB("self", "g_w") +
        "__CPROVER_ensures(self->capacity_ == __CPROVER_old(self->capacity_) && self->base_ == __CPROVER_old(self->base_))\n"},
    "Stack_Top": {"pre": "__CPROVER_requires(__CPROVER_is_fresh(self, sizeof(*self)) && WF_STACK(self))\n__CPROVER_assigns()\n"
        "__CPROVER_ensures(ID(__CPROVER_return_value) == (self->size_ == 0 ? 0 : ID(self->base_[CLAMP(self->size_ - 1, self->capacity_)])))\n"},
    "Stack_Contains": {
        "ghost": {(1, "body_start"): "g_w = pos - 1;"},
        "pre": "__CPROVER_requires(__CPROVER_is_fresh(self, sizeof(*self)) && WF_STACK(self))\n__CPROVER_assigns(g_w)\n"
        "__CPROVER_ensures(__CPROVER_return_value ==> (g_w < self->size_ && ID(self->base_[g_w]) == ID(token.context_)))\n"
        # the witness is the most recent occurrence: nothing above it matches
        "__CPROVER_ensures(__CPROVER_return_value ==> ((g_w < g_k && g_k < self->size_) ==> ID(self->base_[g_k]) != ID(token.context_)))\n"
        "__CPROVER_ensures(!__CPROVER_return_value ==> (g_k < self->size_ ==> ID(self->base_[g_k]) != ID(token.context_)))\n",
        "loops": {1: "__CPROVER_assigns(pos, g_w)\n"
                     "__CPROVER_loop_invariant(pos <= self->size_)\n"
                     "__CPROVER_loop_invariant((pos <= g_k && g_k < self->size_) ==> ID(self->base_[g_k]) != ID(token.context_))\n"
                     "__CPROVER_decreases(pos)\n"}},
    "Stack_Resize": {"pre":
        "__CPROVER_requires(__CPROVER_is_fresh(self, sizeof(*self)) && self->size_ >= 1 && self->size_ - 1 <= self->capacity_ && self->capacity_ <= XC_MAXC && new_capacity <= 2 * XC_MAXC + 2)\n"
        "__CPROVER_requires(self->capacity_ == 0 ? self->base_ == NULL : __CPROVER_is_fresh(self->base_, self->capacity_ * sizeof(Context)))\n"
        "__CPROVER_assigns(self->base_, self->capacity_, g_deleted)\n__CPROVER_frees(self->base_ != NULL: self->base_)\n"
        "__CPROVER_ensures(self->capacity_ == (new_capacity == 0 ? 2 : new_capacity) && self->size_ == __CPROVER_old(self->size_))\n"
        "__CPROVER_ensures(__CPROVER_is_fresh(self->base_, self->capacity_ * sizeof(Context)))\n"
        # every element that fits is carried over, the rest is the empty context
        "__CPROVER_ensures((g_k < __CPROVER_old(self->size_) - 1 && g_k < self->capacity_) ==> ID(self->base_[g_k]) == ID(%s))\n" % OLDB("self", "g_k") +
        "__CPROVER_ensures((g_k >= __CPROVER_old(self->size_) - 1 && g_k < self->capacity_) ==> ID(self->base_[g_k]) == 0)\n",
        "loops": {1: "__CPROVER_assigns(i, __CPROVER_object_whole(temp))\n"
                     "__CPROVER_loop_invariant(i <= (old_size < new_capacity ? old_size : new_capacity))\n"
                     "__CPROVER_loop_invariant((g_k < i && g_k < new_capacity) ==> ID(temp[g_k]) == ID(self->base_[CLAMP(g_k, self->capacity_)]))\n"
                     "__CPROVER_loop_invariant((g_k >= i && g_k < new_capacity) ==> ID(temp[g_k]) == 0)\n"
                     "__CPROVER_decreases(new_capacity - i)\n"}},
    "Stack_Push": {"pre": "__CPROVER_requires(__CPROVER_is_fresh(self, sizeof(*self)) && WF_STACK(self) && self->size_ < XC_MAXC)\n"
        "__CPROVER_assigns(self->size_, g_deleted; self->size_ >= self->capacity_: self->base_; self->size_ >= self->capacity_: self->capacity_; self->base_ != NULL: __CPROVER_object_whole(self->base_))\n__CPROVER_frees(self->base_ != NULL: self->base_)\n"
        "__CPROVER_ensures(self->size_ == __CPROVER_old(self->size_) + 1 && self->size_ <= self->capacity_ && self->capacity_ <= 2 * XC_MAXC + 2)\n"
        "__CPROVER_ensures(__CPROVER_old(self->size_) < __CPROVER_old(self->capacity_) ==> self->capacity_ == __CPROVER_old(self->capacity_))\n"
        "__CPROVER_ensures(__CPROVER_old(self->size_) >= __CPROVER_old(self->capacity_) ==> __CPROVER_is_fresh(self->base_, self->capacity_ * sizeof(Context)))\n"
        "__CPROVER_ensures(ID(self->base_[self->size_ - 1]) == ID(context))\n"
        "__CPROVER_ensures(g_k < self->size_ - 1 ==> ID(self->base_[g_k]) == ID(%s))\n" % OLDB("self", "g_k")},
    "ThreadLocalContextStorage_GetCurrent": {"pre": "__CPROVER_requires(WF_STACK(%s))\n__CPROVER_assigns()\n" % G +
        "__CPROVER_ensures(ID(__CPROVER_return_value) == (g_stack.size_ == 0 ? 0 : ID(g_stack.base_[CLAMP(g_stack.size_ - 1, g_stack.capacity_)])))\n"},
    "ThreadLocalContextStorage_Attach": {"pre": "__CPROVER_requires(WF_STACK(%s) && g_stack.size_ < XC_MAXC)\n" % G +
        "__CPROVER_assigns(g_stack, g_deleted; g_stack.base_ != NULL: __CPROVER_object_whole(g_stack.base_))\n__CPROVER_frees(g_stack.base_ != NULL: g_stack.base_)\n"
        "__CPROVER_ensures(g_stack.size_ == __CPROVER_old(g_stack.size_) + 1 && ID(g_stack.base_[g_stack.size_ - 1]) == ID(context))\n"
        "__CPROVER_ensures(g_k < g_stack.size_ - 1 ==> ID(g_stack.base_[g_k]) == ID(%s))\n" % OLDB(G, "g_k") +
        "__CPROVER_ensures(ID(__CPROVER_return_value->context_) == ID(context))\n"},
    # Detach(token): top matches -> pop one; token not on the stack -> nothing changes, false; otherwise everything above the most
    # recent occurrence of the token is unwound together with it
    "ThreadLocalContextStorage_Detach": {"pre": "__CPROVER_requires(WF_STACK(%s) && __CPROVER_is_fresh(token, sizeof(*token)))\n" % G +
        "__CPROVER_assigns(g_stack.size_, g_w; g_stack.base_ != NULL: __CPROVER_object_whole(g_stack.base_))\n"
        "__CPROVER_ensures(g_stack.size_ <= __CPROVER_old(g_stack.size_) && g_stack.capacity_ == __CPROVER_old(g_stack.capacity_))\n"
        "__CPROVER_ensures(g_k < g_stack.size_ ==> ID(g_stack.base_[g_k]) == ID(%s))\n" % OLDB(G, "g_k") +
        "__CPROVER_ensures(!__CPROVER_return_value ==> g_stack.size_ == __CPROVER_old(g_stack.size_))\n"
        # false exactly when the token is not on the stack (and the stack top is not the token either: an empty stack with the empty token detaches)
        "__CPROVER_ensures(!__CPROVER_return_value ==> (g_k < g_stack.size_ ==> ID(g_stack.base_[g_k]) != ID(token->context_)))\n"
        # true: the element just above the new top was the token, and nothing that was unwound above it matched
        "__CPROVER_ensures((__CPROVER_return_value && __CPROVER_old(g_stack.size_) > 0) ==> g_stack.size_ < __CPROVER_old(g_stack.size_))\n"
        "__CPROVER_ensures((__CPROVER_return_value && __CPROVER_old(g_stack.size_) > 0 && g_k == g_stack.size_) ==> ID(%s) == ID(token->context_))\n" % OLDB(G, "g_k") +
        "__CPROVER_ensures((__CPROVER_return_value && g_stack.size_ < g_k && g_k < __CPROVER_old(g_stack.size_)) ==> ID(%s) != ID(token->context_))\n" % OLDB(G, "g_k"),
        "loops": {1: "__CPROVER_assigns(g_stack.size_, __CPROVER_object_whole(g_stack.base_))\n"
                     "__CPROVER_loop_invariant(g_stack.base_ != NULL && g_stack.size_ <= __CPROVER_loop_entry(g_stack.size_) && g_w < g_stack.size_ && g_stack.size_ <= g_stack.capacity_)\n"
                     "__CPROVER_loop_invariant(ID(g_stack.base_[g_w]) == ID(token->context_))\n"
                     "__CPROVER_loop_invariant(g_k < g_stack.size_ ==> ID(g_stack.base_[g_k]) == ID(__CPROVER_loop_entry(g_stack.base_[CLAMP(g_k, g_stack.capacity_)])))\n"
                     "__CPROVER_loop_invariant((g_stack.size_ <= g_k && g_k < __CPROVER_loop_entry(g_stack.size_)) ==> ID(__CPROVER_loop_entry(g_stack.base_[CLAMP(g_k, g_stack.capacity_)])) != ID(token->context_))\n"
                     "__CPROVER_decreases(g_stack.size_)\n"}},
}

# the same statement once more without any helper contract: the real Detach with everything it calls inlined, on a stack of capacity 4 with
# arbitrary contents (bounded stand-in; robust against refactorings of the helpers the modular proof relies on by name)
H_DETACH_B = r"""
Context *xc_new_Context_array(size_t n) { Context *p = (Context *)malloc(n * sizeof(Context)); __CPROVER_assume(p != 0); for (size_t i = 0; i < n; i++) ID(p[i]) = 0; return p; }
void h_Detach_bounded(void)
{
  Context *arr = (Context *)malloc(4 * sizeof(Context)); __CPROVER_assume(arr != 0);
  Context old[4]; size_t n; Token tok; ThreadLocalContextStorage st;
  xc_havoc_ghosts();
  __CPROVER_assume(n <= 4);
  g_stack.base_ = arr; g_stack.size_ = n; g_stack.capacity_ = 4;
  for (size_t i = 0; i < 4; i++) { if (i >= n) ID(arr[i]) = 0; old[i] = arr[i]; }     /* slots above the top hold the empty context */
  /* the most recent frame equal to the token, if any */
  int found = 0; size_t j = 0;
  for (size_t i = 0; i < 4; i++) if (i < n && ID(old[i]) == ID(tok.context_)) { found = 1; j = i; }
  bool r = ThreadLocalContextStorage_Detach(&st, &tok);
  if (found)
  {
    __CPROVER_assert(r, "a token that is on the stack is detached");
    __CPROVER_assert(g_stack.size_ == j, "the context current before the matching (most recent) Attach is restored");
  }
  else
  {
    __CPROVER_assert(g_stack.size_ == n, "a token that is not on the stack changes nothing");
    __CPROVER_assert(!r || (n == 0 && ID(tok.context_) == 0), "a token that is not on the stack is refused");
  }
  size_t k; __CPROVER_assume(k < g_stack.size_);
  __CPROVER_assert(k < n && ID(g_stack.base_[k]) == ID(old[k]), "the frames below are untouched");
  __CPROVER_assert(0, "XC_CANARY end of harness reachable");
}
"""

proofs = [
    Proof("Stack_Pop", [("Stack::Pop", 0)], enforce="Stack_Pop", replace=["Stack_Resize", "xc_new_Context_array"]),
    Proof("Stack_Top", [("Stack::Top", 0)], enforce="Stack_Top"),
    Proof("Stack_Contains", [("Stack::Contains", 1)], enforce="Stack_Contains"),
    Proof("Stack_Resize", [("Stack::Resize", 1)], enforce="Stack_Resize", replace=["xc_new_Context_array"]),
    Proof("Stack_Push", [("Stack::Push", 1)], enforce="Stack_Push", replace=["Stack_Resize"]),
    Proof("GetCurrent", [("ThreadLocalContextStorage::GetCurrent", 0)], enforce="ThreadLocalContextStorage_GetCurrent", replace=["Stack_Top"]),
    Proof("Attach", [("ThreadLocalContextStorage::Attach", 1)], enforce="ThreadLocalContextStorage_Attach", replace=["Stack_Push", "xc_new_Token"]),
    Proof("Detach", [("ThreadLocalContextStorage::Detach", 1)], enforce="ThreadLocalContextStorage_Detach",
          replace=["Stack_Pop", "Stack_Top", "Stack_Contains"]),
    Proof("Detach_bounded", [("ThreadLocalContextStorage::Detach", 1)], harness=H_DETACH_B, loop_contracts=False, unwind=10, level="bounded",
          bound_note="stack capacity 4, every size 0..4, arbitrary context identities and token; no helper contracts (callees inlined)",
          desc="Detach against the sequence view, helpers inlined"),
]
trusted = ("Context as the identity of its head node (Context::operator== compares head_)", "thread_local: one stack per thread")
assumptions = (
    "what one thread attaches is invisible to another: thread_local storage (language guarantee), not verified",
    "operator new[] yields a fresh array of default-constructed (empty) contexts; delete[] is free",
    "stack depth at most 4096 (object-size bound of the proofs, not an iteration bound)",
    "Context values (SetValue/GetValue linked list) and Scope/Token destructors are not covered by these proofs",
)
not_covered = ("Context::SetValue/SetValues/GetValue/HasKey (linked list of shared_ptr nodes)", "Scope (RAII) and Token destructor calling Detach",
               "RuntimeContext static wrappers", "visibility across threads")

DRIVER = ("c10_native", ["c10_native.cc"])


def refute_search(mod, proof, violations, ix, workdir, seed):
    """directed native search on the real RuntimeContext: every Attach sequence over three contexts up to length 5, every token detached"""
    import os, re as _re, subprocess
    binpath = R.build_native(DRIVER[0], [os.path.join(R.core.HERE, "replay", s) for s in DRIVER[1]], ["-O1"])
    full = subprocess.run([binpath, "search"], stdout=subprocess.PIPE, stderr=subprocess.STDOUT, text=True, timeout=600).stdout
    m = _re.findall(r"^FOUND (.*)$", full, _re.M)
    if not m:
        return None
    args = m[-1].split()
    r = R.native_check(DRIVER[0], DRIVER[1], args, ["-O1"])
    r["input"] = {"driver_args": args, "meaning": "seq <letters a-c = Attach(context)> <n>: Detach the token of Attach number n, then unwind", "found_by": "directed native search (refute mode)"}
    return r if r["reproduced"] else None


refuters = {p.name: refute_search for p in proofs}
