"""C10 - runtime context stack (api/include/opentelemetry/context/runtime_context.h: ThreadLocalContextStorage::Stack, Detach/Attach)."""
from ..core import Proof
from .. import refute as R
from . import common

prop_id = "C10"
tu_name = "tu_context"
tu_text = '#include "opentelemetry/context/runtime_context.h"\n'
spec_headers = ("xc_trace_boundary.h",)
force_records = ("context::Context", "context::ThreadLocalContextStorage::Stack", "context::Token")
pre_c = r"""
size_t g_k; size_t g_w; unsigned long g_deleted;
static void xc_havoc_ghosts(void) { size_t a; g_k = a; }
#define XC_MAXC 4096UL
#define CLAMP(k, n) ((k) * ((k) < (n)))
/* representation invariant of the per-thread stack; abstract view = the sequence base_[0 .. size_) of context identities */
#define WF_STACK(s) ((s)->size_ <= (s)->capacity_ && (s)->capacity_ <= XC_MAXC && \
   ((s)->capacity_ == 0 ? (s)->base_ == NULL : __CPROVER_is_fresh((s)->base_, (s)->capacity_ * sizeof(Context))))
#define ID(c) ((c).head_.id)
"""
post_struct_c = r"""
Stack g_stack;     /* the thread_local stack_ of GetStack(): one instance per thread (language guarantee, assumed) */
/* operator new[] + default construction of n contexts: assumed contract */
Context *xc_new_Context_array(size_t n)
__CPROVER_requires(n <= 2 * XC_MAXC + 2)
__CPROVER_assigns()
__CPROVER_ensures(__CPROVER_is_fresh(__CPROVER_return_value, n * sizeof(Context)))
__CPROVER_ensures(g_k < n ==> ID(__CPROVER_return_value[g_k]) == 0);
Token *xc_new_Token(Context c)
__CPROVER_assigns()
__CPROVER_ensures(__CPROVER_is_fresh(__CPROVER_return_value, sizeof(Token)) && ID(__CPROVER_return_value->context_) == ID(c));
"""
assumed_contracts = {"xc_new_Context_array": "operator new[] + default construction (fresh array, every element the empty context)",
                     "xc_new_Token": "new Token(context)",
                     "xc_memcpy_n": "std::memcpy with a symbolic length (C standard): destination bytes equal the source bytes, nothing else written"}


def configure(cfg):
    common.context_boundary(cfg)


S = "self"
G = "(&g_stack)"
OLDB = lambda s, k: "__CPROVER_old(%s->base_[CLAMP(%s, %s->capacity_)])" % (s, k, s)

contracts = {
    "Stack_Pop": {"pre": "__CPROVER_requires(__CPROVER_is_fresh(self, sizeof(*self)) && WF_STACK(self))\n"
        "__CPROVER_assigns(self->size_; self->base_ != NULL: __CPROVER_object_whole(self->base_))\n"
        "__CPROVER_ensures(__CPROVER_old(self->size_) == 0 ==> self->size_ == 0)\n"
        "__CPROVER_ensures(__CPROVER_old(self->size_) > 0 ==> self->size_ == __CPROVER_old(self->size_) - 1)\n"
        "__CPROVER_ensures(g_k < self->size_ ==> ID(self->base_[g_k]) == ID(%s))\n" % OLDB("self", "g_k") +
        "__CPROVER_ensures(g_w < self->size_ ==> ID(self->base_[g_w]) == ID(%s))\n" % OLDB("self", "g_w") +
        "__CPROVER_ensures(self->capacity_ == __CPROVER_old(self->capacity_) && self->base_ == __CPROVER_old(self->base_))\n"},
    "Stack_Top": {"pre": "__CPROVER_requires(__CPROVER_is_fresh(self, sizeof(*self)) && WF_STACK(self))\n__CPROVER_assigns()\n"
        "__CPROVER_ensures(ID(__CPROVER_return_value) == (self->size_ == 0 ? 0 : ID(self->base_[CLAMP(self->size_ - 1, self->capacity_)])))\n"},
    "Stack_Contains": {
        "ghost": {(1, "body_start"): "g_w = pos - 1;"},
        "pre": "__CPROVER_requires(__CPROVER_is_fresh(self, sizeof(*self)) && WF_STACK(self))\n__CPROVER_assigns(g_w)\n"
        "__CPROVER_ensures(__CPROVER_return_value ==> (g_w < self->size_ && ID(self->base_[g_w]) == ID(token.context_)))\n"
        # the witness is the most recent occurrence: nothing above it matches
        "__CPROVER_ensures(__CPROVER_return_value ==> ((g_w < g_k && g_k < self->size_) ==> ID(self->base_[g_k]) != ID(token.context_)))\n"
        "__CPROVER_ensures(!__CPROVER_return_value ==> (g_k < self->size_ ==> ID(self->base_[g_k]) != ID(token.context_)))\n",
        "loops": {1: "__CPROVER_assigns(pos, g_w)\n"
                     "__CPROVER_loop_invariant(pos <= self->size_)\n"
                     "__CPROVER_loop_invariant((pos <= g_k && g_k < self->size_) ==> ID(self->base_[g_k]) != ID(token.context_))\n"
                     "__CPROVER_decreases(pos)\n"}},
    "Stack_Resize": {"pre":
        "__CPROVER_requires(__CPROVER_is_fresh(self, sizeof(*self)) && self->size_ >= 1 && self->size_ - 1 <= self->capacity_ && self->capacity_ <= XC_MAXC && new_capacity <= 2 * XC_MAXC + 2)\n"
        "__CPROVER_requires(self->capacity_ == 0 ? self->base_ == NULL : __CPROVER_is_fresh(self->base_, self->capacity_ * sizeof(Context)))\n"
        "__CPROVER_assigns(self->base_, self->capacity_, g_deleted)\n__CPROVER_frees(self->base_ != NULL: self->base_)\n"
        "__CPROVER_ensures(self->capacity_ == (new_capacity == 0 ? 2 : new_capacity) && self->size_ == __CPROVER_old(self->size_))\n"
        "__CPROVER_ensures(__CPROVER_is_fresh(self->base_, self->capacity_ * sizeof(Context)))\n"
        # every element that fits is carried over, the rest is the empty context
        "__CPROVER_ensures((g_k < __CPROVER_old(self->size_) - 1 && g_k < self->capacity_) ==> ID(self->base_[g_k]) == ID(%s))\n" % OLDB("self", "g_k") +
        "__CPROVER_ensures((g_k >= __CPROVER_old(self->size_) - 1 && g_k < self->capacity_) ==> ID(self->base_[g_k]) == 0)\n",
        "loops": {1: "__CPROVER_assigns(i, __CPROVER_object_whole(temp))\n"
                     "__CPROVER_loop_invariant(i <= (old_size < new_capacity ? old_size : new_capacity))\n"
                     "__CPROVER_loop_invariant((g_k < i && g_k < new_capacity) ==> ID(temp[g_k]) == ID(self->base_[CLAMP(g_k, self->capacity_)]))\n"
                     "__CPROVER_loop_invariant((g_k >= i && g_k < new_capacity) ==> ID(temp[g_k]) == 0)\n"
                     "__CPROVER_decreases(new_capacity - i)\n"}},
    "Stack_Push": {"pre": "__CPROVER_requires(__CPROVER_is_fresh(self, sizeof(*self)) && WF_STACK(self) && self->size_ < XC_MAXC)\n"
        "__CPROVER_assigns(self->size_, g_deleted; self->size_ >= self->capacity_: self->base_; self->size_ >= self->capacity_: self->capacity_; self->base_ != NULL: __CPROVER_object_whole(self->base_))\n__CPROVER_frees(self->base_ != NULL: self->base_)\n"
        "__CPROVER_ensures(self->size_ == __CPROVER_old(self->size_) + 1 && self->size_ <= self->capacity_ && self->capacity_ <= 2 * XC_MAXC + 2)\n"
        "__CPROVER_ensures(__CPROVER_old(self->size_) < __CPROVER_old(self->capacity_) ==> self->capacity_ == __CPROVER_old(self->capacity_))\n"
        "__CPROVER_ensures(__CPROVER_old(self->size_) >= __CPROVER_old(self->capacity_) ==> __CPROVER_is_fresh(self->base_, self->capacity_ * sizeof(Context)))\n"
        "__CPROVER_ensures(ID(self->base_[self->size_ - 1]) == ID(context))\n"
        "__CPROVER_ensures(g_k < self->size_ - 1 ==> ID(self->base_[g_k]) == ID(%s))\n" % OLDB("self", "g_k")},
    "ThreadLocalContextStorage_GetCurrent": {"pre": "__CPROVER_requires(WF_STACK(%s))\n__CPROVER_assigns()\n" % G +
        "__CPROVER_ensures(ID(__CPROVER_return_value) == (g_stack.size_ == 0 ? 0 : ID(g_stack.base_[CLAMP(g_stack.size_ - 1, g_stack.capacity_)])))\n"},
    "ThreadLocalContextStorage_Attach": {"pre": "__CPROVER_requires(WF_STACK(%s) && g_stack.size_ < XC_MAXC)\n" % G +
        "__CPROVER_assigns(g_stack, g_deleted; g_stack.base_ != NULL: __CPROVER_object_whole(g_stack.base_))\n__CPROVER_frees(g_stack.base_ != NULL: g_stack.base_)\n"
        "__CPROVER_ensures(g_stack.size_ == __CPROVER_old(g_stack.size_) + 1 && ID(g_stack.base_[g_stack.size_ - 1]) == ID(context))\n"
        "__CPROVER_ensures(g_k < g_stack.size_ - 1 ==> ID(g_stack.base_[g_k]) == ID(%s))\n" % OLDB(G, "g_k") +
        "__CPROVER_ensures(ID(__CPROVER_return_value->context_) == ID(context))\n"},
    # Detach(token): top matches -> pop one; token not on the stack -> nothing changes, false; otherwise everything above the most
    # recent occurrence of the token is unwound together with it
    "ThreadLocalContextStorage_Detach": {"pre": "__CPROVER_requires(WF_STACK(%s) && __CPROVER_is_fresh(token, sizeof(*token)))\n" % G +
        "__CPROVER_assigns(g_stack.size_, g_w; g_stack.base_ != NULL: __CPROVER_object_whole(g_stack.base_))\n"
        "__CPROVER_ensures(g_stack.size_ <= __CPROVER_old(g_stack.size_) && g_stack.capacity_ == __CPROVER_old(g_stack.capacity_))\n"
        "__CPROVER_ensures(g_k < g_stack.size_ ==> ID(g_stack.base_[g_k]) == ID(%s))\n" % OLDB(G, "g_k") +
        "__CPROVER_ensures(!__CPROVER_return_value ==> g_stack.size_ == __CPROVER_old(g_stack.size_))\n"
        # false exactly when the token is not on the stack (and the stack top is not the token either: an empty stack with the empty token detaches)
        "__CPROVER_ensures(!__CPROVER_return_value ==> (g_k < g_stack.size_ ==> ID(g_stack.base_[g_k]) != ID(token->context_)))\n"
        # true: the element just above the new top was the token, and nothing that was unwound above it matched
        "__CPROVER_ensures((__CPROVER_return_value && __CPROVER_old(g_stack.size_) > 0) ==> g_stack.size_ < __CPROVER_old(g_stack.size_))\n"
        "__CPROVER_ensures((__CPROVER_return_value && __CPROVER_old(g_stack.size_) > 0 && g_k == g_stack.size_) ==> ID(%s) == ID(token->context_))\n" % OLDB(G, "g_k") +
        "__CPROVER_ensures((__CPROVER_return_value && g_stack.size_ < g_k && g_k < __CPROVER_old(g_stack.size_)) ==> ID(%s) != ID(token->context_))\n" % OLDB(G, "g_k"),
        "loops": {1: "__CPROVER_assigns(g_stack.size_, __CPROVER_object_whole(g_stack.base_))\n"
                     "__CPROVER_loop_invariant(g_stack.base_ != NULL && g_stack.size_ <= __CPROVER_loop_entry(g_stack.size_) && g_w < g_stack.size_ && g_stack.size_ <= g_stack.capacity_)\n"
                     "__CPROVER_loop_invariant(ID(g_stack.base_[g_w]) == ID(token->context_))\n"
                     "__CPROVER_loop_invariant(g_k < g_stack.size_ ==> ID(g_stack.base_[g_k]) == ID(__CPROVER_loop_entry(g_stack.base_[CLAMP(g_k, g_stack.capacity_)])))\n"
                     "__CPROVER_loop_invariant((g_stack.size_ <= g_k && g_k < __CPROVER_loop_entry(g_stack.size_)) ==> ID(__CPROVER_loop_entry(g_stack.base_[CLAMP(g_k, g_stack.capacity_)])) != ID(token->context_))\n"
                     "__CPROVER_decreases(g_stack.size_)\n"}},
}

# the same statement once more without any helper contract: the real Detach with everything it calls inlined, on a stack of capacity 4 with
# arbitrary contents (bounded stand-in; robust against refactorings of the helpers the modular proof relies on by name)
H_DETACH_B = r"""
Context *xc_new_Context_array(size_t n) { Context *p = (Context *)malloc(n * sizeof(Context)); __CPROVER_assume(p != 0); for (size_t i = 0; i < n; i++) ID(p[i]) = 0; return p; }
void h_Detach_bounded(void)
{
  Context *arr = (Context *)malloc(4 * sizeof(Context)); __CPROVER_assume(arr != 0);
  Context old[4]; size_t n; Token tok; ThreadLocalContextStorage st;
  xc_havoc_ghosts();
  __CPROVER_assume(n <= 4);
  g_stack.base_ = arr; g_stack.size_ = n; g_stack.capacity_ = 4;
  for (size_t i = 0; i < 4; i++) { if (i >= n) ID(arr[i]) = 0; old[i] = arr[i]; }     /* slots above the top hold the empty context */
  /* the most recent frame equal to the token, if any */
  int found = 0; size_t j = 0;
  for (size_t i = 0; i < 4; i++) if (i < n && ID(old[i]) == ID(tok.context_)) { found = 1; j = i; }
  bool r = ThreadLocalContextStorage_Detach(&st, &tok);
  if (found)
  {
    __CPROVER_assert(r, "a token that is on the stack is detached");
    __CPROVER_assert(g_stack.size_ == j, "the context current before the matching (most recent) Attach is restored");
  }
  else
  {
    __CPROVER_assert(g_stack.size_ == n, "a token that is not on the stack changes nothing");
    __CPROVER_assert(!r || (n == 0 && ID(tok.context_) == 0), "a token that is not on the stack is refused");
  }
  size_t k; __CPROVER_assume(k < g_stack.size_);
  __CPROVER_assert(k < n && ID(g_stack.base_[k]) == ID(old[k]), "the frames below are untouched");
  __CPROVER_assert(0, "XC_CANARY end of harness reachable");
}
"""

proofs = [
    Proof("Stack_Pop", [("Stack::Pop", 0)], enforce="Stack_Pop", replace=["Stack_Resize", "xc_new_Context_array"]),
    Proof("Stack_Top", [("Stack::Top", 0)], enforce="Stack_Top"),
    Proof("Stack_Contains", [("Stack::Contains", 1)], enforce="Stack_Contains"),
    Proof("Stack_Resize", [("Stack::Resize", 1)], enforce="Stack_Resize", replace=["xc_new_Context_array"]),
    Proof("Stack_Push", [("Stack::Push", 1)], enforce="Stack_Push", replace=["Stack_Resize"]),
    Proof("GetCurrent", [("ThreadLocalContextStorage::GetCurrent", 0)], enforce="ThreadLocalContextStorage_GetCurrent", replace=["Stack_Top"]),
    Proof("Attach", [("ThreadLocalContextStorage::Attach", 1)], enforce="ThreadLocalContextStorage_Attach", replace=["Stack_Push", "xc_new_Token"]),
    Proof("Detach", [("ThreadLocalContextStorage::Detach", 1)], enforce="ThreadLocalContextStorage_Detach",
          replace=["Stack_Pop", "Stack_Top", "Stack_Contains"]),
    Proof("Detach_bounded", [("ThreadLocalContextStorage::Detach", 1)], harness=H_DETACH_B, loop_contracts=False, unwind=10, level="bounded",
          bound_note="stack capacity 4, every size 0..4, arbitrary context identities and token; no helper contracts (callees inlined)",
          desc="Detach against the sequence view, helpers inlined"),
]
trusted = ("Context as the identity of its head node (Context::operator== compares head_)", "thread_local: one stack per thread")
assumptions = (
    "what one thread attaches is invisible to another: thread_local storage (language guarantee), not verified",
    "operator new[] yields a fresh array of default-constructed (empty) contexts; delete[] is free",
    "stack depth at most 4096 (object-size bound of the proofs, not an iteration bound)",
    "Context values (SetValue/GetValue linked list) and Scope/Token destructors are not covered by these proofs",
)
not_covered = ("Context::SetValue/SetValues/GetValue/HasKey (linked list of shared_ptr nodes)", "Scope (RAII) and Token destructor calling Detach",
               "RuntimeContext static wrappers", "visibility across threads")

DRIVER = ("c10_native", ["c10_native.cc"])


# Token::~Token -> RuntimeContext::Detach(*this) -> GetRuntimeContextStorage()->Detach(token): releasing a token (and with it a Scope, which only owns a
# token) detaches exactly this token, once, on the registered storage. The storage object is a boundary: its Detach is a ghost-recorded call
def _configure_tok(cfg):
    common.context_boundary(cfg)
    cfg.ext_q["RuntimeContext::GetRuntimeContextStorage"] = lambda em, node, recv, args: "g_storage"
    cfg.ext_q["RuntimeContextStorage::Detach"] = lambda em, node, recv, args: "xc_storage_Detach(%s)" % em.addr_of(args[0])
    cfg.ext_q["RuntimeContextStorage::Attach"] = lambda em, node, recv, args: "xc_storage_Attach(%s)" % em.expr(args[0])
    cfg.ext_q["RuntimeContextStorage::GetCurrent"] = lambda em, node, recv, args: "xc_storage_GetCurrent()"


TOK_POST = post_struct_c + r"""
int g_storage; unsigned g_detach_calls; const Token *g_detach_tok; _Bool g_detach_ret;
static _Bool xc_storage_Detach(Token *t) { g_detach_calls++; g_detach_tok = t; return g_detach_ret; }
unsigned g_attach_calls; unsigned long g_attach_ctx; Token *g_attach_ret; Context g_current;
static Token *xc_storage_Attach(Context c) { g_attach_calls++; g_attach_ctx = ID(c); return g_attach_ret; }
static Context xc_storage_GetCurrent(void) { return g_current; }
"""
_tok_contracts = {
    "RuntimeContext_Detach": {"pre": "__CPROVER_requires(__CPROVER_is_fresh(token, sizeof(*token)) && g_detach_calls == 0)\n__CPROVER_assigns(g_detach_calls, g_detach_tok)\n"
        "__CPROVER_ensures(g_detach_calls == 1 && g_detach_tok == token)\n"
        "__CPROVER_ensures(!__CPROVER_return_value == !g_detach_ret)\n"},
    "RuntimeContext_Attach": {"pre": "__CPROVER_requires(g_attach_calls == 0)\n__CPROVER_assigns(g_attach_calls, g_attach_ctx)\n"
        "__CPROVER_ensures(g_attach_calls == 1 && g_attach_ctx == ID(context) && __CPROVER_return_value == g_attach_ret)\n"},
    "RuntimeContext_GetCurrent": {"pre": "__CPROVER_assigns()\n__CPROVER_ensures(ID(__CPROVER_return_value) == ID(g_current))\n"},
    "Token_dtor": {"pre": "__CPROVER_requires(__CPROVER_is_fresh(self, sizeof(*self)) && g_detach_calls == 0)\n__CPROVER_assigns(g_detach_calls, g_detach_tok)\n"
        "__CPROVER_ensures(g_detach_calls == 1 && g_detach_tok == self)\n"},
}
proofs_tok = [
    Proof("RuntimeContext_Attach", [("RuntimeContext::Attach", 1)], enforce="RuntimeContext_Attach", configure=_configure_tok, contracts=_tok_contracts,
          desc="RuntimeContext::Attach hands exactly the caller's context to the registered storage, once, and returns the storage's token"),
    Proof("RuntimeContext_GetCurrent", [("RuntimeContext::GetCurrent", 0)], enforce="RuntimeContext_GetCurrent", configure=_configure_tok, contracts=_tok_contracts,
          desc="RuntimeContext::GetCurrent returns the registered storage's current context"),
    Proof("RuntimeContext_Detach", [("RuntimeContext::Detach", 1)], enforce="RuntimeContext_Detach", configure=_configure_tok, contracts=_tok_contracts,
          desc="RuntimeContext::Detach hands exactly the caller's token to the registered storage, once, and returns its answer"),
    Proof("Token_dtor", [("Token::~Token", 0)], enforce="Token_dtor", replace=["RuntimeContext_Detach"], configure=_configure_tok, contracts=_tok_contracts,
          desc="destroying a token (what releasing a Scope does) detaches exactly this token, once"),
]
for _p in proofs_tok:
    _p.post_struct_c = TOK_POST
    _p.own_config = True
proofs += proofs_tok


def refute_search(mod, proof, violations, ix, workdir, seed):
    """directed native search on the real RuntimeContext: every Attach sequence over three contexts up to length 5, every token detached"""
    import os, re as _re, subprocess
    binpath = R.build_native(DRIVER[0], [os.path.join(R.core.HERE, "replay", s) for s in DRIVER[1]], ["-O1"])
    full = subprocess.run([binpath, "search"], stdout=subprocess.PIPE, stderr=subprocess.STDOUT, text=True, timeout=600).stdout
    m = _re.findall(r"^FOUND (.*)$", full, _re.M)
    if not m:
        return None
    args = m[-1].split()
    r = R.native_check(DRIVER[0], DRIVER[1], args, ["-O1"])
    r["input"] = {"driver_args": args, "meaning": "seq <letters a-c = Attach(context)> <n>: Detach the token of Attach number n, then unwind", "found_by": "directed native search (refute mode)"}
    return r if r["reproduced"] else None


refuters = {p.name: refute_search for p in proofs}


def refute_tok(mod, proof, violations, ix, workdir, seed):
    """native replay on the real Token / RuntimeContext with a recording storage registered: release the token of the empty and of a non-empty context"""
    for which in ("e", "n"):
        r = R.native_check(DRIVER[0], DRIVER[1], ["tok", which], ["-O1"])
        if r["reproduced"]:
            r["input"] = {"driver_args": ["tok", which], "meaning": "tok e|n: Attach the empty (e) / a non-empty (n) context on a recording storage, destroy the token, count Detach calls", "found_by": "directed native replay (refute mode)"}
            return r
    return None


for _p in proofs_tok:
    refuters[_p.name] = refute_tok


# ---------------------------------------------------------------------------------------------
# Context values (api/include/opentelemetry/context/context.h): "A Context never changes after creation: SetValue returns a new context in
# which the new keys shadow older bindings while every previously obtained context keeps answering exactly as before"
TU_CTX = ("tu_context_values", '#include "opentelemetry/context/context.h"\n')
CTX_PRE = r"""
size_t g_k; size_t g_w; unsigned long g_deleted;
static void xc_havoc_ghosts(void) { size_t a; g_k = a; }
#define XC_MAXKEY 4096UL
/* ContextValue (nostd::variant of 8 alternatives): which alternative + its bits; copying a value copies both (reference counts of the
   shared_ptr alternatives are not modelled) */
typedef struct xc_ctxval { int tag; unsigned long bits; } xc_ctxval;
#define VEQ(a, b) ((a).tag == (b).tag && (a).bits == (b).bits)
"""
CTX_POST = r"""
/* std::memcpy / std::memcmp with a symbolic length: assumed contracts (C standard), pointwise through the ghost index g_k / witness g_w */
void *xc_memcpy_n(void *dst, const void *src, size_t n)
__CPROVER_requires(n <= XC_MAXKEY && __CPROVER_r_ok(src, n) && __CPROVER_w_ok(dst, n))
__CPROVER_assigns(__CPROVER_object_upto(dst, n))
__CPROVER_ensures(g_k < n ==> ((const char *)dst)[g_k] == ((const char *)src)[g_k]);
int xc_memcmp_n(const void *a, const void *b, size_t n)
__CPROVER_requires(n <= XC_MAXKEY && __CPROVER_r_ok(a, n) && __CPROVER_r_ok(b, n))
__CPROVER_assigns(g_w)
__CPROVER_ensures(__CPROVER_return_value == 0 ==> (g_k < n ==> ((const char *)a)[g_k] == ((const char *)b)[g_k]))
__CPROVER_ensures(__CPROVER_return_value != 0 ==> (g_w < n && ((const char *)a)[g_w] != ((const char *)b)[g_w]));
"""


def _ctxval_type(em, base, targs, name):
    if base in ("nostd::variant", "variant", "absl::otel_v1::variant") and targs and len(targs) == 8:
        return common.CT("xc_ctxval")
    if base in ("nostd::shared_ptr", "shared_ptr") and targs and targs[0].strip().endswith("DataList"):
        inner = em._ctype(targs[0])
        return common.CT(inner.base, inner.ptr + 1)
    return None


def _holds_mono(em, node, recv, args):
    src = common._node_source(em, node) if hasattr(common, "_node_source") else ""
    if "monostate" not in src:
        raise common.ExtractionError("holds_alternative of an alternative other than monostate: %s" % src[:80])
    return "(%s.tag == 0)" % em.pexpr_post(args[0])


def _configure_ctx(cfg):
    cfg.value_classes |= {"string_view", "Context"}
    cfg.src_file = R.core.REPO + "/api/include/opentelemetry/context/context.h"
    cfg.type_handlers.insert(0, _ctxval_type)
    cfg.ext["new"] = common._kv_new
    cfg.ctor_ext["nostd::shared_ptr"] = lambda em, node, args: (em.expr(args[0]) if args else "NULL")
    cfg.ext["memcpy"] = "xc_memcpy_n"
    def _vctor(em, node, args):
        real = [a for a in args if a.get("kind") != "CXXDefaultArgExpr"]
        if not real:
            return "((xc_ctxval){0, 0})"       # ContextValue{}: monostate
        if len(real) == 1 and em.ctype(real[0]["type"]).base == "xc_ctxval":
            return em.expr(real[0])
        raise common.ExtractionError("ContextValue construction from %s" % real[0]["type"].get("qualType"))
    for k in ("absl::otel_v1::variant", "nostd::variant", "variant"):
        cfg.ctor_ext[k] = _vctor
        cfg.ext_methods[k + "::operator="] = lambda em, recv, args, n: "%s = %s" % (recv, em.expr(args[0]))
    cfg.ext["holds_alternative"] = _holds_mono
    SP = "nostd::shared_ptr<context::Context::DataList>::"
    unp = lambda r: (r["node"] if isinstance(r, dict) and r.get("xc_is_ptr") else r)
    cfg.ext_q[SP + "operator="] = lambda em, node, recv, args: "%s = %s" % (em.expr(unp(recv)), em.expr(args[0]))
    cfg.ext_q[SP + "operator->"] = lambda em, node, recv, args: em.expr(unp(recv))
    cfg.ext_q[SP + "get"] = lambda em, node, recv, args: em.expr(unp(recv))
    cfg.ext_q[SP + "operator*"] = lambda em, node, recv, args: "(*%s)" % em.expr(unp(recv))
    cfg.ext_q["nostd::operator!="] = lambda em, node, recv, args: "(%s != %s)" % (em.expr(args[0]), em.expr(args[1]))
    cfg.ext_q["nostd::operator=="] = lambda em, node, recv, args: "(%s == %s)" % (em.expr(args[0]), em.expr(args[1]))
    cfg.ext["memcmp"] = "xc_memcmp_n"



def _configure_ctx_plain(cfg):
    _configure_ctx(cfg)
    cfg.ext["memcpy"] = "memcpy"       # CBMC's own bodies, fully unwound (bounded harnesses only)
    cfg.ext["memcmp"] = "memcmp"
    cfg.seq_handlers = dict(getattr(cfg, "seq_handlers", {}))
    cfg.seq_handlers["XcPairs"] = lambda em, seq, targs: ("(%s).items" % seq, "(%s).count" % seq)
    cfg.seq_handlers["context::XcPairs"] = cfg.seq_handlers["XcPairs"]


KEYOK = "(%(k)s.length_ <= XC_MAXKEY && __CPROVER_is_fresh(%(k)s.data_, %(k)s.length_))"
contracts["Context_SetValue"] = {"pre":
    "__CPROVER_requires(__CPROVER_is_fresh(self, sizeof(*self)) && " + KEYOK % {"k": "key"} + ")\n"
    # immutability, for every existing context and list (whatever its shape): nothing that exists before the call is written
    "__CPROVER_assigns()\n"
    "__CPROVER_ensures(__CPROVER_is_fresh(__CPROVER_return_value.head_, sizeof(DataList)))\n"
    "__CPROVER_ensures(__CPROVER_return_value.head_->key_length_ == key.length_ && __CPROVER_is_fresh(__CPROVER_return_value.head_->key_, key.length_))\n"
    "__CPROVER_ensures(g_k < key.length_ ==> __CPROVER_return_value.head_->key_[g_k] == key.data_[g_k])\n"
    "__CPROVER_ensures(VEQ(__CPROVER_return_value.head_->value_, value))\n"
    # the new binding is placed in front of (shadows) the unchanged old list
    "__CPROVER_ensures(__CPROVER_return_value.head_->next_ == __CPROVER_old(self->head_) && self->head_ == __CPROVER_old(self->head_))\n"}

contracts["DataList_dtor"] = {"pre":
    "__CPROVER_requires(__CPROVER_is_fresh(self, sizeof(*self)) && self->key_length_ <= XC_MAXKEY && (self->key_ == NULL || __CPROVER_is_fresh(self->key_, self->key_length_)))\n"
    "__CPROVER_requires(self->next_ == NULL || __CPROVER_is_fresh(self->next_, sizeof(DataList)))\n"
    # frame: nothing but the node's own key buffer is released, and nothing that survives is written (in particular not the following nodes,
    # which other contexts may share); the release of the next_ reference is the shared_ptr's business (not extracted)
    "__CPROVER_assigns(g_deleted)\n__CPROVER_frees(self->key_)\n"
    "__CPROVER_ensures(self->next_ == __CPROVER_old(self->next_))\n"}

# bounded stand-ins for the list walks: lists of at most 3 nodes, keys of at most 2 bytes (everything inlined, CBMC's memcmp/memcpy)
CTX_SPEC = r"""
#define KB(n, i) ((n)->key_[i])
#define MATCH(n, q) ((n)->key_length_ == (q).length_ && ((q).length_ < 1 || KB(n, 0) == (q).data_[0]) && ((q).length_ < 2 || KB(n, 1) == (q).data_[1]))
#define MONO(v) ((v).tag == 0)
/* a well-formed ContextValue: one of the 8 alternatives; monostate carries no payload */
#define WFV(v) ((v).tag >= 0 && (v).tag <= 7 && ((v).tag != 0 || (v).bits == 0))
static xc_ctxval spec_get3(DataList *n0, string_view q)
{
  xc_ctxval none = {0, 0};
  if (n0 == NULL) return none;
  if (MATCH(n0, q)) return n0->value_;
  DataList *n1 = n0->next_;
  if (n1 == NULL) return none;
  if (MATCH(n1, q)) return n1->value_;
  DataList *n2 = n1->next_;
  if (n2 == NULL) return none;
  if (MATCH(n2, q)) return n2->value_;
  DataList *n3 = n2->next_;
  if (n3 == NULL) return none;
  if (MATCH(n3, q)) return n3->value_;
  DataList *n4 = n3->next_;
  if (n4 == NULL) return none;
  if (MATCH(n4, q)) return n4->value_;
  __CPROVER_assert(n4->next_ == NULL, "spec_get3: list longer than the bound of this harness");
  return none;
}
static DataList g_n[3]; static char g_kb[3][2];
static Context mk_ctx(size_t depth)
{
  Context c;
  for (size_t i = 0; i < 3; i++)
  {
    size_t l; xc_ctxval v; char a, b;
    __CPROVER_assume(l <= 2 && WFV(v));
    g_kb[i][0] = a; g_kb[i][1] = b;
    g_n[i].key_ = g_kb[i]; g_n[i].key_length_ = l; g_n[i].value_ = v; g_n[i].next_ = (i + 1 < depth) ? &g_n[i + 1] : NULL;
  }
  c.head_ = depth ? &g_n[0] : NULL;
  return c;
}
"""
H_GET = CTX_SPEC + r"""
void h_Context_GetValue_bounded(void)
{
  size_t depth, ql; char qb[2]; xc_havoc_ghosts();
  __CPROVER_assume(depth <= 3 && ql <= 2);
  Context c = mk_ctx(depth);
  string_view q = {.data_ = qb, .length_ = ql};
  xc_ctxval want = spec_get3(c.head_, q);
  xc_ctxval got = Context_GetValue(c, q);
  __CPROVER_assert(VEQ(got, want), "GetValue returns the most recent binding of the key (first node from the head whose key equals it), else the empty value");
  bool has = Context_HasKey(c, q);
  __CPROVER_assert(has == !MONO(want), "HasKey is true exactly when GetValue yields a value");
  __CPROVER_assert(0, "XC_CANARY end of harness reachable");
}
"""
H_SHADOW = CTX_SPEC + r"""
void h_Context_SetValue_shadow_bounded(void)
{
  size_t depth, ql, kl, k2l; char qb[2], kb[2], k2b[2]; xc_ctxval v, v2; xc_havoc_ghosts();
  __CPROVER_assume(depth <= 3 && ql <= 2 && kl <= 2 && k2l <= 2 && WFV(v) && WFV(v2));
  Context c = mk_ctx(depth);
  string_view q = {.data_ = qb, .length_ = ql}, k = {.data_ = kb, .length_ = kl}, k2 = {.data_ = k2b, .length_ = k2l};
  DataList snap[3]; char snapk[3][2];
  for (size_t i = 0; i < 3; i++) { snap[i] = g_n[i]; snapk[i][0] = g_kb[i][0]; snapk[i][1] = g_kb[i][1]; }
  xc_ctxval before = spec_get3(c.head_, q);
  Context c2 = Context_SetValue(&c, k, v);
  xc_ctxval got2 = Context_GetValue(c2, q);
  int same = (ql == kl && (ql < 1 || qb[0] == kb[0]) && (ql < 2 || qb[1] == kb[1]));
  __CPROVER_assert(!same || VEQ(got2, v), "the new context answers the key just set with the new value (it shadows older bindings)");
  __CPROVER_assert(same || VEQ(got2, before), "every other key is answered as by the old context");
  xc_ctxval got = Context_GetValue(c, q);
  __CPROVER_assert(VEQ(got, before) && c.head_ == (depth ? &g_n[0] : NULL), "the old context answers exactly as before");
  for (size_t i = 0; i < 3; i++)
    __CPROVER_assert(snap[i].key_ == g_n[i].key_ && snap[i].key_length_ == g_n[i].key_length_ && snap[i].next_ == g_n[i].next_ && VEQ(snap[i].value_, g_n[i].value_)
                     && snapk[i][0] == g_kb[i][0] && snapk[i][1] == g_kb[i][1], "no node of the old context is modified");
  /* a second context derived from c2: c2 keeps answering as before */
  Context c3 = Context_SetValue(&c2, k2, v2);
  xc_ctxval again2 = Context_GetValue(c2, q);
  __CPROVER_assert(VEQ(again2, got2), "a context from which another one was derived keeps answering exactly as before");
  int same2 = (ql == k2l && (ql < 1 || qb[0] == k2b[0]) && (ql < 2 || qb[1] == k2b[1]));
  xc_ctxval got3 = Context_GetValue(c3, q);
  __CPROVER_assert(VEQ(got3, same2 ? v2 : got2), "the most recent binding wins");
  __CPROVER_assert(0, "XC_CANARY end of harness reachable");
}
"""
H_SETVALUES = CTX_SPEC + r"""
void h_Context_SetValues_bounded(void)
{
  size_t depth, ql, cnt; char qb[2]; XcPair items[2]; char ib[2][2]; xc_havoc_ghosts();
  __CPROVER_assume(depth <= 2 && ql <= 2 && cnt <= 2);
  Context c = mk_ctx(depth);
  string_view q = {.data_ = qb, .length_ = ql};
  for (size_t i = 0; i < 2; i++) { size_t l; __CPROVER_assume(l <= 2 && WFV(items[i].second)); items[i].first.data_ = ib[i]; items[i].first.length_ = l; }
  XcPairs values = {.items = items, .count = cnt};
  #define QEQ(sv) (ql == (sv).length_ && (ql < 1 || qb[0] == (sv).data_[0]) && (ql < 2 || qb[1] == (sv).data_[1]))
  /* a map has distinct keys */
  __CPROVER_assume(!(cnt == 2 && items[0].first.length_ == items[1].first.length_ && (items[0].first.length_ < 1 || ib[0][0] == ib[1][0]) && (items[0].first.length_ < 2 || ib[0][1] == ib[1][1])));
  xc_ctxval before = spec_get3(c.head_, q);
  Context c2 = Context_XcPairs(&c, &values);
  xc_ctxval got2 = Context_GetValue(c2, q);
  xc_ctxval want = (cnt >= 1 && QEQ(items[0].first)) ? items[0].second : (cnt >= 2 && QEQ(items[1].first)) ? items[1].second : before;
  __CPROVER_assert(VEQ(got2, want), "SetValues: the new keys shadow older bindings, every other key (also when no new key is given) is answered as by the old context");
  xc_ctxval got = Context_GetValue(c, q);
  __CPROVER_assert(VEQ(got, before), "the old context answers exactly as before");
  __CPROVER_assert(0, "XC_CANARY end of harness reachable");
}
"""
TU_CTX2 = ("tu_context_values2", '#include "opentelemetry/context/context.h"\n'
           'namespace opentelemetry { OPENTELEMETRY_BEGIN_NAMESPACE namespace context {\n' if False else
           '#include "opentelemetry/context/context.h"\n'
           'OPENTELEMETRY_BEGIN_NAMESPACE\nnamespace context {\n'
           '/* stand-in for the container type T of Context::SetValues<T>: what the template needs is iteration over (first, second) pairs */\n'
           'struct XcPair { nostd::string_view first; ContextValue second; };\n'
           'struct XcPairs { XcPair *items; size_t count; XcPair *begin() const { return items; } XcPair *end() const { return items + count; } };\n'
           'template Context Context::SetValues<XcPairs>(XcPairs &);\n'
           '}\nOPENTELEMETRY_END_NAMESPACE\n')

proofs_ctx = [
    Proof("Context_SetValue", [("Context::SetValue", 2)], enforce="Context_SetValue", replace=["xc_memcpy_n"], configure=_configure_ctx,
          desc="SetValue writes nothing that existed before (immutability for every list shape) and returns a fresh head node holding the key bytes and the value, linked in front of the old list"),
    Proof("DataList_dtor", [("DataList::~DataList", 0)], enforce="DataList_dtor", configure=_configure_ctx,
          desc="destroying a node releases its own key buffer and writes to no other node (a context that shares the rest of the list keeps answering as before)"),
    Proof("Context_GetValue_bounded", [("Context::GetValue", 1), ("Context::HasKey", 1)], harness=H_GET, loop_contracts=False, unwind=6, level="bounded",
          configure=_configure_ctx_plain, bound_note="lists of at most 3 nodes, keys of at most 2 bytes, every value alternative; everything inlined",
          desc="GetValue/HasKey against 'first node from the head with an equal key'"),
    Proof("Context_SetValue_shadow_bounded", [("Context::GetValue", 1), ("Context::SetValue", 2)], harness=H_SHADOW, loop_contracts=False, unwind=6, level="bounded",
          configure=_configure_ctx_plain, bound_note="old list of at most 3 nodes, keys of at most 2 bytes, two successive SetValue calls; everything inlined",
          desc="shadowing, most recent binding, old contexts answer as before, no old node modified"),
    Proof("Context_SetValues_bounded", [("Context::GetValue", 1), ("Context::SetValues<context::XcPairs>", 1)], harness=H_SETVALUES, loop_contracts=False, unwind=6, level="bounded",
          configure=_configure_ctx_plain, bound_note="old list of at most 2 nodes, 0..2 new (distinct) keys of at most 2 bytes; the container type T is a sequence of (first, second) pairs",
          desc="SetValues<T>: new keys shadow, other keys and the old context unchanged, including the empty container"),
]
proofs_ctx[-1].tu = TU_CTX2
for _p in proofs_ctx:
    _p.tu = getattr(_p, "tu", None) or TU_CTX
    _p.pre_c = CTX_PRE
    _p.post_struct_c = CTX_POST
    _p.spec_headers = ()
    _p.force_records = ()
proofs += proofs_ctx


def refute_ctx(mod, proof, violations, ix, workdir, seed):
    """directed native search on the real Context: every sequence of up to 3 SetValue / SetValues(std::map) steps, every context probed after every step"""
    import os, re as _re, subprocess
    binpath = R.build_native(DRIVER[0], [os.path.join(R.core.HERE, "replay", s) for s in DRIVER[1]], ["-O1"])
    full = subprocess.run([binpath, "ctxsearch"], stdout=subprocess.PIPE, stderr=subprocess.STDOUT, text=True, timeout=600).stdout
    m = _re.findall(r"^FOUND (.*)$", full, _re.M)
    if not m:
        return None
    args = m[-1].split()
    r = R.native_check(DRIVER[0], DRIVER[1], args, ["-O1"])
    r["input"] = {"driver_args": args, "meaning": "ctx <steps>: s:<key>:<int> = SetValue, m:<k>=<int>,... = SetValues(std::map) on the latest context; all contexts probed with keys '', a, b, ab", "found_by": "directed native search (refute mode)"}
    return r if r["reproduced"] else None


for _p in proofs_ctx:
    refuters[_p.name] = refute_ctx
