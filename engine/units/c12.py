"""C12 - samplers (sdk/src/trace/samplers/trace_id_ratio.cc, parent.cc, always_on.h, always_off.h)."""
from ..core import Proof
from .. import refute as R
from . import common

prop_id = "C12"
tu_name = "tu_samplers"
tu_text = ('#include "%(r)s/sdk/src/trace/samplers/trace_id_ratio.cc"\n#include "%(r)s/sdk/src/trace/samplers/parent.cc"\n'
           '#include "opentelemetry/sdk/trace/samplers/always_on.h"\n#include "opentelemetry/sdk/trace/samplers/always_off.h"\n') % {"r": R.core.REPO}
tu_filters = ("opentelemetry", "CalculateThreshold")
spec_headers = ("xc_trace_boundary.h",)
force_records = ("nostd::string_view", "trace::SpanContext", "sdk::trace::SamplingResult")

pre_c = common.ID_MACROS + r"""
size_t g_j; uint64_t g_G;
static void xc_havoc_ghosts(void) { size_t a; uint64_t b; g_j = a; g_G = b; }
#define DROP_ 0
#define RECORD_AND_SAMPLE_ 2
"""
post_struct_c = r"""
/* boundary: the delegate (root) sampler of ParentBasedSampler is an arbitrary sampler; the call is recorded */
SamplingResult g_delegate_result; unsigned long g_delegate_calls; SpanContext g_delegate_parent; TraceId g_delegate_trace_id;
SamplingResult xc_delegate_ShouldSample(xc_handle sampler, SpanContext parent, TraceId trace_id, string_view name, int kind, const xc_opaque *attrs, const xc_opaque *links)
{
  g_delegate_calls++; g_delegate_parent = parent; g_delegate_trace_id = trace_id;
  return g_delegate_result;
}
"""


def configure(cfg):
    common.trace_boundary(cfg)
    common.sdk_trace_boundary(cfg)


RET = "__CPROVER_return_value"
PV = "SC_VALID(parent_context)"

contracts = {
    # ratio <= 0 samples nothing, ratio >= 1 samples everything; no float->integer conversion leaves the integer range
    "CalculateThreshold": {"pre": "__CPROVER_requires(!__CPROVER_isnand(ratio))\n__CPROVER_assigns()\n"
        "__CPROVER_ensures(ratio <= 0.0 ==> __CPROVER_return_value == 0)\n"
        "__CPROVER_ensures(ratio >= 1.0 ==> __CPROVER_return_value == UINT64_MAX)\n"},
    "ParentBasedSampler_ShouldSample": {"pre":
        "__CPROVER_requires(__CPROVER_is_fresh(self, sizeof(*self)) && g_delegate_calls == 0)\n"
        "__CPROVER_assigns(g_delegate_calls, g_delegate_parent, g_delegate_trace_id)\n"
        # a span with a valid parent gets exactly the parent's sampled decision and trace state; the root sampler is not consulted
        "__CPROVER_ensures(%(pv)s ==> (g_delegate_calls == 0 && %(r)s.decision == ((parent_context.trace_flags_.rep_ & 1) ? RECORD_AND_SAMPLE_ : DROP_) && "
        "%(r)s.trace_state.id == parent_context.trace_state_.id && %(r)s.attributes.id == 0))\n"
        # without a valid parent the root sampler decides, once, and its answer is returned unchanged
        "__CPROVER_ensures(!%(pv)s ==> (g_delegate_calls == 1 && %(r)s.decision == g_delegate_result.decision && %(r)s.trace_state.id == g_delegate_result.trace_state.id && "
        "%(r)s.attributes.id == g_delegate_result.attributes.id))\n"
        "__CPROVER_ensures(!%(pv)s ==> ((g_j < 16 ==> g_delegate_trace_id.rep_[g_j] == trace_id.rep_[g_j]) && g_delegate_parent.trace_flags_.rep_ == parent_context.trace_flags_.rep_ && "
        "g_delegate_parent.is_remote_ == parent_context.is_remote_))\n" % {"pv": PV, "r": RET}},
    "AlwaysOnSampler_ShouldSample": {"pre": "__CPROVER_assigns()\n"
        "__CPROVER_ensures(%(r)s.decision == RECORD_AND_SAMPLE_ && %(r)s.attributes.id == 0)\n"
        "__CPROVER_ensures(%(r)s.trace_state.id == (%(pv)s ? parent_context.trace_state_.id : XC_TS_DEFAULT_ID))\n" % {"pv": PV, "r": RET}},
    "AlwaysOffSampler_ShouldSample": {"pre": "__CPROVER_assigns()\n"
        "__CPROVER_ensures(%(r)s.decision == DROP_ && %(r)s.attributes.id == 0)\n"
        "__CPROVER_ensures(%(r)s.trace_state.id == (%(pv)s ? parent_context.trace_state_.id : XC_TS_DEFAULT_ID))\n" % {"pv": PV, "r": RET}},
}

# The ratio sampler's decision is a function of (first 8 trace-id bytes, threshold) only.
#  (a) CTFB_deterministic: CalculateThresholdFromBuffer returns the same value for two ids that agree on the first 8 bytes
#      (2-safety on the real body; the same object is passed twice so both evaluations share their circuit).
#  (b) Ratio_ShouldSample: with the value of that call named by the ghost constant g_G, the decision is exactly
#      (threshold_ != 0 && g_G <= threshold_).  (a)+(b): the decision depends on nothing but the id and the threshold.
H_CTFB = r"""
void h_CTFB_deterministic(void)
{
  xc_havoc_ghosts();
  TraceId id; uint8_t other[8];
  uint64_t t1 = CalculateThresholdFromBuffer(id);
  for (unsigned i = 0; i < 8; i++) id.rep_[8 + i] = other[i];
  uint64_t t2 = CalculateThresholdFromBuffer(id);
  __CPROVER_assert(t1 == t2, "RATIO: the id threshold depends only on the first 8 bytes of the trace id (and on nothing else)");
  __CPROVER_assert(0, "XC_CANARY end of harness reachable");
}
"""
H_LEMMA = r"""
void h_Lemma_larger_threshold_adds_traces(void)
{
  xc_havoc_ghosts();
  uint64_t t1, t2, G; __CPROVER_assume(t1 <= t2);
  __CPROVER_assert((t1 != 0 && G <= t1) ==> (t2 != 0 && G <= t2), "LEMMA: a trace sampled at a threshold is sampled at every larger threshold");
  __CPROVER_assert(((uint64_t)0 != 0 && G <= 0) == 0, "LEMMA: threshold 0 samples nothing");
  __CPROVER_assert((UINT64_MAX != 0 && G <= UINT64_MAX), "LEMMA: threshold 2^64-1 samples everything");
  __CPROVER_assert(0, "XC_CANARY end of harness reachable");
}
"""
contracts["CalculateThresholdFromBuffer"] = {"pre": "__CPROVER_assigns()\n"
                                             "__CPROVER_ensures(__CPROVER_return_value == g_G)\n"}
contracts["TraceIdRatioBasedSampler_ShouldSample"] = {"pre":
    "__CPROVER_requires(__CPROVER_is_fresh(self, sizeof(*self)))\n__CPROVER_assigns()\n"
    "__CPROVER_ensures(__CPROVER_return_value.decision == ((self->threshold_ != 0 && g_G <= self->threshold_) ? RECORD_AND_SAMPLE_ : DROP_))\n"
    "__CPROVER_ensures(__CPROVER_return_value.attributes.id == 0 && __CPROVER_return_value.trace_state.id == 0)\n"}
assumed_contracts = {"CalculateThresholdFromBuffer": "names the value of the (pure, deterministic: proof CTFB_deterministic) call by the ghost constant g_G"}

# monotonicity of ratio -> threshold (so that 'larger ratio' means 'larger threshold')
H_MONO = r"""
double cex_r1, cex_r2;
void h_%(name)s(void)
{
  xc_havoc_ghosts();
  double r1, r2;
  __CPROVER_assume(!__CPROVER_isnand(r1) && !__CPROVER_isnand(r2) && r1 <= r2);
  %(range)s
  cex_r1 = r1; cex_r2 = r2;
  uint64_t t1 = CalculateThreshold(r1), t2 = CalculateThreshold(r2);
  __CPROVER_assert(t1 <= t2, "MONO: ratio1 <= ratio2 implies threshold(ratio1) <= threshold(ratio2)");
  __CPROVER_assert(0, "XC_CANARY end of harness reachable");
}
"""

# L2: everything after the multiplication (modf, scaling by 2^32, the additions, the two conversions, the shift) is monotone in
# the product, and the conversions stay in range. The slice is the real body from the declaration of hi_bits to the return.
H_L2 = r"""
double cex_p1, cex_p2;
void h_%(name)s(void)
{
  xc_havoc_ghosts();
  double p1, p2;
  __CPROVER_assume(p1 >= 0.0 && p1 <= p2 && p2 < 4294967295.0);      /* product = UINT32_MAX * ratio with 0 < ratio < 1 */
  %(range)s
  cex_p1 = p1; cex_p2 = p2;
  uint64_t t1 = CalculateThreshold_after_product(&p1), t2 = CalculateThreshold_after_product(&p2);
  __CPROVER_assert(t1 <= t2, "MONO-L2: the threshold is monotone in the product UINT32_MAX * ratio");
  __CPROVER_assert(0, "XC_CANARY end of harness reachable");
}
"""
SLICE_L2 = {"func": ("CalculateThreshold", 1), "from": "hi_bits", "to": "$return", "cname": "CalculateThreshold_after_product"}

proofs = [
    Proof("Threshold_L2_quick", [SLICE_L2], harness=H_L2 % {"name": "Threshold_L2_quick",
          "range": "__CPROVER_assume(p2 - p1 <= 4.0);"}, loop_contracts=False, solver="portfolio3", timeout=1500,
          check_flags=["--conversion-check"],
          desc="L2 restricted to products at most 4 apart (covers every carry pattern between neighbouring integers); full range in the thorough tier"),
    Proof("Threshold_L2", [SLICE_L2], harness=H_L2 % {"name": "Threshold_L2", "range": ""}, loop_contracts=False, solver="portfolio3", timeout=3000,
          tier="thorough", check_flags=["--conversion-check"], desc="L2 for every pair of products in [0, 2^32-1)"),
    Proof("CalculateThreshold", [("CalculateThreshold", 1)], enforce="CalculateThreshold", check_flags=["--conversion-check", "--float-overflow-check", "--nan-check"]),
    Proof("CTFB_deterministic", [("CalculateThresholdFromBuffer", 1)], harness=H_CTFB, loop_contracts=False, unwind=10, solver="portfolio3",
          complete_unwind_note="loop free apart from the 8-iteration loop of the harness"),
    Proof("Ratio_ShouldSample", [("TraceIdRatioBasedSampler::ShouldSample", 6)], enforce="TraceIdRatioBasedSampler_ShouldSample",
          replace=["CalculateThresholdFromBuffer"]),
    Proof("Lemma_larger_threshold_adds_traces", [("CalculateThreshold", 1)], harness=H_LEMMA, loop_contracts=False),
    Proof("ParentBased_ShouldSample", [("ParentBasedSampler::ShouldSample", 6)], enforce="ParentBasedSampler_ShouldSample"),
    Proof("AlwaysOn_ShouldSample", [("AlwaysOnSampler::ShouldSample", 6)], enforce="AlwaysOnSampler_ShouldSample"),
    Proof("AlwaysOff_ShouldSample", [("AlwaysOffSampler::ShouldSample", 6)], enforce="AlwaysOffSampler_ShouldSample"),
    Proof("Threshold_monotone_edges", [("CalculateThreshold", 1)], harness=H_MONO % {"name": "Threshold_monotone_edges",
          "range": "__CPROVER_assume(r1 <= 0.0 || r2 >= 1.0);"}, loop_contracts=False,
          desc="monotonicity when one of the ratios is outside (0,1)"),
    Proof("Threshold_monotone", [("CalculateThreshold", 1)], harness=H_MONO % {"name": "Threshold_monotone", "range": ""}, loop_contracts=False,
          tier="thorough", timeout=3000, solver="portfolio3", desc="monotonicity for every pair of doubles (floating-point multiplication: slow)"),
]
trusted = ("boundary shims for the delegate sampler and trace state handles",)
assumptions = (
    "monotonicity ratio1 <= ratio2 => threshold(ratio1) <= threshold(ratio2) is decomposed as L1 (correctly rounded multiplication by the positive constant "
    "UINT32_MAX is monotone and maps (0,1) into [0, 2^32-1): ASSUMED, every back end timed out on it, see Threshold_monotone in the thorough tier) and "
    "L2 (the rest of CalculateThreshold is monotone in the product: proved on the extracted slice) plus the two early returns (proved: Threshold_monotone_edges)",
    "ldexp(x, 32) == x * 2^32 exactly (xc_ldexp shim; CBMC has no body for ldexp); modf as modelled by CBMC's library",
    "doubles are IEEE-754 binary64, round to nearest even",
    "NaN ratios are outside the statement (precondition)",
)
not_covered = ("sampler descriptions (std::string formatting)", "TraceIdRatioBasedSampler constructor wiring threshold_ = CalculateThreshold(ratio) (one member initialiser)")

DRIVER = ("c12_native", ["c12_native.cc"], ["sdk/src/trace/samplers/parent.cc"])
DRIVER_FLAGS = ["-I" + R.core.REPO]


def _bits(vals, name):
    for k, v in vals.items():
        if k == name + "#bin" or k.endswith("::" + name + "#bin"):
            return int(v, 2)
    return None


def refute_mono(mod, proof, violations, ix, workdir, seed):
    vals = R.leaf_trace(workdir, proof.name, violations[0]["obligation"]) or {}
    a, b = _bits(vals, "cex_r1"), _bits(vals, "cex_r2")
    if a is None or b is None:
        return refute_search(mod, proof, violations, ix, workdir, seed)
    r = R.native_check(DRIVER[0], DRIVER[1], ["mono", "0x%016x" % a, "0x%016x" % b], DRIVER_FLAGS, repo_sources=DRIVER[2])
    r["input"] = {"ratio1_bits": "0x%016x" % a, "ratio2_bits": "0x%016x" % b}
    return r if r["reproduced"] else refute_search(mod, proof, violations, ix, workdir, seed)


def refute_search(mod, proof, violations, ix, workdir, seed):
    import os, re as _re, subprocess
    binpath = R.build_native(DRIVER[0], [os.path.join(R.core.HERE, "replay", s) for s in DRIVER[1]] +
                             [os.path.join(R.core.REPO, s) for s in DRIVER[2]], DRIVER_FLAGS)
    full = subprocess.run([binpath, "search"], stdout=subprocess.PIPE, stderr=subprocess.STDOUT, text=True, timeout=300).stdout
    m = _re.findall(r"^FOUND (.*)$", full, _re.M)
    if not m:
        return None
    args = m[-1].split()
    r = R.native_check(DRIVER[0], DRIVER[1], args, DRIVER_FLAGS, repo_sources=DRIVER[2])
    r["input"] = {"driver_args": args, "found_by": "directed native search (refute mode)"}
    return r if r["reproduced"] else None


def refute_l2(mod, proof, violations, ix, workdir, seed):
    """the verifier's counterexample is a pair of products; the ratios product / UINT32_MAX (and their neighbours) are replayed natively"""
    import struct
    vals = R.leaf_trace(workdir, proof.name, violations[0]["obligation"]) or {}
    a, b = _bits(vals, "cex_p1"), _bits(vals, "cex_p2")
    if a is None or b is None:
        return refute_search(mod, proof, violations, ix, workdir, seed)
    p1 = struct.unpack("<d", struct.pack("<Q", a))[0]
    p2 = struct.unpack("<d", struct.pack("<Q", b))[0]
    import math
    def nb(x):
        return [x, math.nextafter(x, 0.0), math.nextafter(x, 2.0)]
    for r1 in nb(p1 / 4294967295.0):
        for r2 in nb(p2 / 4294967295.0):
            if not (0.0 < r1 <= r2 < 1.0):
                continue
            b1 = struct.unpack("<Q", struct.pack("<d", r1))[0]
            b2 = struct.unpack("<Q", struct.pack("<d", r2))[0]
            r = R.native_check(DRIVER[0], DRIVER[1], ["mono", "0x%016x" % b1, "0x%016x" % b2], DRIVER_FLAGS, repo_sources=DRIVER[2])
            if r["reproduced"]:
                r["input"] = {"ratio1": repr(r1), "ratio2": repr(r2), "verifier_products": [repr(p1), repr(p2)]}
                return r
    return refute_search(mod, proof, violations, ix, workdir, seed)


refuters = {p.name: (refute_l2 if "_L2" in p.name else refute_mono if "monotone" in p.name or p.name == "CalculateThreshold" else refute_search) for p in proofs}
