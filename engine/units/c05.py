"""C05 - Tracer::StartSpan: identity, parentage, flags and trace state of new spans (sdk/src/trace/tracer.cc)."""
from ..core import Proof
from .. import refute as R
from . import common

prop_id = "C05"
tu_name = "tu_tracer"
SRC = "%s/sdk/src/trace/tracer.cc" % R.core.REPO
tu_text = '#include "%s"\n' % SRC
spec_headers = ("xc_trace_boundary.h",)
force_records = ("nostd::string_view", "trace::SpanContext", "sdk::trace::SamplingResult")
pre_c = common.ID_MACROS + r"""
size_t g_j;
static void xc_havoc_ghosts(void) { size_t a; g_j = a; }
#define RECORD_AND_SAMPLE_ 2
"""
post_struct_c = r"""
/* StartSpanOptions as seen by StartSpan: which alternative options.parent holds (0 SpanContext, 1 Context), the two alternatives, the kind */
typedef struct xc_StartSpanOptions { int parent_kind; SpanContext parent_sc; xc_ctx parent_ctx; int kind; } xc_StartSpanOptions;
static SpanContext xc_opt_parent_sc(const xc_StartSpanOptions *o) { if (o->parent_kind != 0) XC_THROW(); return o->parent_sc; }
static xc_ctx xc_opt_parent_ctx(const xc_StartSpanOptions *o) { if (o->parent_kind != 1) XC_THROW(); return o->parent_ctx; }
/* ghost inputs / records of the boundary calls */
xc_opaque g_idgen, g_sampler; bool g_idgen_is_random; bool g_tracer_enabled;
SpanId g_gen_span_id; TraceId g_gen_trace_id; unsigned long g_gen_span_calls, g_gen_trace_calls;
SamplingResult g_sampling_result; unsigned long g_sampler_calls; SpanContext g_sampler_parent; TraceId g_sampler_trace_id;
SpanContext g_new_sc; unsigned long g_new_sc_calls;
SpanContext g_current_span_context;   /* context of the span active on the calling thread */
SpanContext g_ctx_span_context; bool g_ctx_is_root;   /* span stored in options.parent's Context, and its root marker */
SpanId xc_GenerateSpanId(void) { g_gen_span_calls++; return g_gen_span_id; }
TraceId xc_GenerateTraceId(void) { g_gen_trace_calls++; return g_gen_trace_id; }
SamplingResult xc_sampler_ShouldSample(SpanContext parent, TraceId trace_id) { g_sampler_calls++; g_sampler_parent = parent; g_sampler_trace_id = trace_id; return g_sampling_result; }
xc_handle xc_new_SpanContext(SpanContext sc) { xc_handle h; h.id = 77; g_new_sc = sc; g_new_sc_calls++; return h; }
xc_handle xc_GetCurrentSpan(void) { xc_handle h; h.id = 5; return h; }
xc_handle xc_GetSpan(const xc_ctx *c) { xc_handle h; h.id = 6; return h; }
SpanContext xc_span_GetContext(xc_handle span) { return span.id == 5 ? g_current_span_context : g_ctx_span_context; }
bool xc_IsRootSpan(const xc_ctx *c) { return g_ctx_is_root; }
xc_handle xc_noop_tracer_StartSpan(void) { xc_handle h; h.id = 9; return h; }
"""


def configure(cfg):
    common.trace_boundary(cfg)
    common.sdk_trace_boundary(cfg)
    common.tracer_boundary(cfg)
    cfg.src_file = SRC
    cfg.ext_q["trace::GetSpan"] = lambda em, node, recv, args: "xc_GetSpan(%s)" % em.addr_of(args[0])


PC = "(*parent_context)"
PV = "SC_VALID(%s)" % PC
OLDPC = "__CPROVER_old(*parent_context)"
EQ_ID = lambda a, b: "((g_j < 16 ==> %s.trace_id_.rep_[g_j] == %s.trace_id_.rep_[g_j]) && (g_j < 8 ==> %s.span_id_.rep_[g_j] == %s.span_id_.rep_[g_j]) && %s.trace_flags_.rep_ == %s.trace_flags_.rep_ && %s.is_remote_ == %s.is_remote_ && %s.trace_state_.id == %s.trace_state_.id)" % (a, b, a, b, a, b, a, b, a, b)

contracts = {
    "StartSpan_identity": {"pre":
        "__CPROVER_requires(__CPROVER_is_fresh(self, sizeof(*self)) && __CPROVER_is_fresh(parent_context, sizeof(SpanContext)) && __CPROVER_is_fresh(name, sizeof(string_view)) && "
        "__CPROVER_is_fresh(options, sizeof(xc_StartSpanOptions)) && __CPROVER_is_fresh(attributes, 1) && __CPROVER_is_fresh(links, 1))\n"
        "__CPROVER_requires(__CPROVER_is_fresh(xc_out_trace_id, sizeof(TraceId)) && __CPROVER_is_fresh(xc_out_span_id, sizeof(SpanId)) && __CPROVER_is_fresh(xc_out_is_parent_span_valid, 1) && "
        "__CPROVER_is_fresh(xc_out_flags, 1) && __CPROVER_is_fresh(xc_out_sampling_result, sizeof(SamplingResult)) && __CPROVER_is_fresh(xc_out_trace_flags, sizeof(TraceFlags)) && "
        "__CPROVER_is_fresh(xc_out_span_context, sizeof(xc_handle)))\n"
        "__CPROVER_requires(g_sampler_calls == 0 && g_new_sc_calls == 0 && g_gen_span_calls == 0 && g_gen_trace_calls == 0)\n"
        "__CPROVER_assigns(*xc_out_trace_id, *xc_out_span_id, *xc_out_is_parent_span_valid, *xc_out_flags, *xc_out_sampling_result, *xc_out_trace_flags, *xc_out_span_context, "
        "g_sampler_calls, g_sampler_parent, g_sampler_trace_id, g_new_sc, g_new_sc_calls, g_gen_span_calls, g_gen_trace_calls)\n"
        # exactly one span context is built; it is not remote; span id is the generator's
        "__CPROVER_ensures(g_new_sc_calls == 1 && !g_new_sc.is_remote_ && g_gen_span_calls == 1 && (g_j < 8 ==> g_new_sc.span_id_.rep_[g_j] == g_gen_span_id.rep_[g_j]))\n"
        # valid parent: the parent's trace id, no new trace id; otherwise a new trace id from the generator
        "__CPROVER_ensures(%(pv)s ==> (g_gen_trace_calls == 0 && (g_j < 16 ==> g_new_sc.trace_id_.rep_[g_j] == %(pc)s.trace_id_.rep_[g_j]) && *xc_out_is_parent_span_valid))\n"
        "__CPROVER_ensures(!%(pv)s ==> (g_gen_trace_calls == 1 && (g_j < 16 ==> g_new_sc.trace_id_.rep_[g_j] == g_gen_trace_id.rep_[g_j]) && !*xc_out_is_parent_span_valid))\n"
        # the sampler is consulted once, with the resolved parent and the span's trace id
        "__CPROVER_ensures(g_sampler_calls == 1 && (g_j < 16 ==> g_sampler_trace_id.rep_[g_j] == g_new_sc.trace_id_.rep_[g_j]) && %(eqp)s)\n"
        # the sampled flag equals the sampler's decision, and only W3C level-1 flag bits are set
        "__CPROVER_ensures(((g_new_sc.trace_flags_.rep_ & 1) != 0) == (g_sampling_result.decision == RECORD_AND_SAMPLE_))\n"
        "__CPROVER_ensures((g_new_sc.trace_flags_.rep_ & ~1) == 0)\n"
        # trace state: the sampler's if given, else the parent's, else the default
        "__CPROVER_ensures(g_new_sc.trace_state_.id == (g_sampling_result.trace_state.id != 0 ? g_sampling_result.trace_state.id : "
        "(%(pv)s ? %(pc)s.trace_state_.id : XC_TS_DEFAULT_ID)))\n"
        "__CPROVER_ensures(%(unch)s)\n" % {"pv": PV, "pc": PC, "eqp": EQ_ID("g_sampler_parent", PC), "unch": EQ_ID(PC, OLDPC)}},
    # parent resolution: explicit SpanContext, else Context (its span, or 'root' marker), else the active span
    "StartSpan_parent": {"pre":
        "__CPROVER_requires(__CPROVER_is_fresh(self, sizeof(*self)) && __CPROVER_is_fresh(options, sizeof(xc_StartSpanOptions)) && __CPROVER_is_fresh(xc_out_parent_context, sizeof(SpanContext)))\n"
        "__CPROVER_requires(options->parent_kind == 0 || options->parent_kind == 1)\n"
        "__CPROVER_assigns(*xc_out_parent_context)\n"
        "__CPROVER_ensures((options->parent_kind == 0 && SC_VALID(options->parent_sc)) ==> %s)\n" % EQ_ID("(*xc_out_parent_context)", "options->parent_sc") +
        "__CPROVER_ensures((options->parent_kind == 0 && !SC_VALID(options->parent_sc)) ==> %s)\n" % EQ_ID("(*xc_out_parent_context)", "g_current_span_context") +
        "__CPROVER_ensures((options->parent_kind == 1 && SC_VALID(g_ctx_span_context)) ==> %s)\n" % EQ_ID("(*xc_out_parent_context)", "g_ctx_span_context") +
        "__CPROVER_ensures((options->parent_kind == 1 && !SC_VALID(g_ctx_span_context) && g_ctx_is_root) ==> !SC_VALID(*xc_out_parent_context))\n"
        "__CPROVER_ensures((options->parent_kind == 1 && !SC_VALID(g_ctx_span_context) && !g_ctx_is_root) ==> %s)\n" % EQ_ID("(*xc_out_parent_context)", "g_current_span_context")},
}
FUNC = ("sdk::trace::Tracer::StartSpan", 4)
proofs = [
    Proof("StartSpan_identity", [{"func": FUNC, "from": "generator", "to": "span_context", "cname": "StartSpan_identity"}], enforce="StartSpan_identity"),
    Proof("StartSpan_parent", [{"func": FUNC, "from": "parent_context", "to": "<generator", "cname": "StartSpan_parent"}], enforce="StartSpan_parent"),
]
trusted = ("boundary shims: tracer config, current span, options.parent variant, id generator, sampler, span-context allocation (ghost records)",)
assumptions = (
    "StartSpan is verified as two slices of the real body (parent resolution; identity/flags/trace-state derivation up to the construction of the span context); "
    "the statements before (tracer disabled -> no-op tracer) and after (construction of Span / NoopSpan, sampler attributes) are not covered",
    "ids returned by the id generator are taken as given (freshness / non-zero is the generator's business)",
    "the documented parent precedence 'explicit SpanContext, else Context, else active span' is proved as: an invalid explicit SpanContext falls back to the active span",
)
not_covered = ("id freshness and randomness", "the per-thread active-span stack (C10)", "Span construction and export of non-recorded spans")

import glob as _glob
import os as _os


def _repo_sources():
    r = R.core.REPO
    pats = ["sdk/src/trace/*.cc", "sdk/src/trace/samplers/*.cc", "sdk/src/common/*.cc", "sdk/src/common/platform/fork_unix.cc",
            "sdk/src/resource/*.cc", "sdk/src/version/*.cc"]
    out = []
    for p in pats:
        out += sorted(_os.path.relpath(f, r) for f in _glob.glob(_os.path.join(r, p)))
    return out


def _refute(search_cmd, meaning):
    def h(mod, proof, violations, ix, workdir, seed):
        import re as _re, subprocess
        srcs = _repo_sources()
        binpath = R.build_native("c05_native", [_os.path.join(R.core.HERE, "replay", "c05_native.cc")] + [_os.path.join(R.core.REPO, s) for s in srcs])
        full = subprocess.run([binpath, search_cmd], stdout=subprocess.PIPE, stderr=subprocess.STDOUT, text=True, timeout=300).stdout
        m = _re.findall(r"^FOUND (.*)$", full, _re.M)
        if not m:
            return None
        args = m[-1].split()
        r = R.native_check("c05_native", ["c05_native.cc"], args, repo_sources=srcs)
        r["input"] = {"driver_args": args, "meaning": meaning, "found_by": "directed native search (refute mode)"}
        return r if r["reproduced"] else None
    return h


# directed native searches on the real tracer: both constant samplers x all 256 parent flag bytes x remote/local; every combination of
# (parent alternative, explicit parent valid, root marker, active span)
refuters = {"StartSpan_identity": _refute("search", "child <sampler 0=AlwaysOff 1=AlwaysOn> <parent flags byte> <parent remote>"),
            "StartSpan_parent": _refute("search_parent", "parent <0=SpanContext 1=Context> <explicit parent valid> <root marker> <span active on the thread>")}
