"""C09 - W3C trace-context propagation (api/include/opentelemetry/trace/propagation/http_trace_context.h)."""
from ..core import Proof

prop_id = "C09"
tu_name = "tu_propagation"
tu_text = '''#include "opentelemetry/trace/propagation/http_trace_context.h"
#include "opentelemetry/trace/propagation/b3_propagator.h"
#include "opentelemetry/trace/propagation/jaeger.h"
'''
spec_headers = ("spec_hex.h",)
pre_c = '''
size_t g_k; size_t g_j;
static void xc_havoc_ghosts(void) { size_t a, b; g_k = a; g_j = b; }
'''


def configure(cfg):
    cfg.value_classes |= {"string_view", "TraceId", "SpanId", "TraceFlags"}


SV_OK = lambda v: ("__CPROVER_requires(%s.length_ <= XC_MAXLEN)\n"
                   "__CPROVER_requires(__CPROVER_is_fresh(%s.data_, %s.length_))\n" % (v, v, v))

contracts = {
    "HexToInt": {"pre": "__CPROVER_ensures(__CPROVER_return_value == HEXVAL(c))\n__CPROVER_assigns()\n"},
    "xc_all_of__IsValidHex__l1": {"loops": {1:
        "__CPROVER_assigns(first)\n"
        "__CPROVER_loop_invariant(__CPROVER_same_object(first, last) && __CPROVER_loop_entry(first) <= first && first <= last)\n"
        "__CPROVER_loop_invariant((g_k < (size_t)(first - __CPROVER_loop_entry(first))) ==> IS_HEX(__CPROVER_loop_entry(first)[g_k]))\n"
        "__CPROVER_decreases(last - first)\n"}},
    "IsValidHex": {"pre": SV_OK("s") +
        "__CPROVER_assigns()\n"
        "__CPROVER_ensures(__CPROVER_return_value ==> (g_k < s.length_ ==> IS_HEX(s.data_[g_k])))\n"},
}

proofs = [
    Proof("HexToInt", [("detail::HexToInt", 1)], enforce="HexToInt"),
    Proof("IsValidHex", [("detail::IsValidHex", 1)], enforce="IsValidHex", replace=["HexToInt"]),
]
