"""C09 - W3C trace-context propagation (api/include/opentelemetry/trace/propagation/http_trace_context.h)."""
from ..core import Proof
from .. import refute as R
from . import common

prop_id = "C09"
tu_name = "tu_propagation"
tu_text = '''#include "opentelemetry/trace/propagation/http_trace_context.h"
#include "opentelemetry/trace/propagation/b3_propagator.h"
#include "opentelemetry/trace/propagation/jaeger.h"
'''
spec_headers = ("spec_hex.h", "xc_trace_boundary.h")
force_records = ("nostd::string_view", "trace::SpanContext")
post_struct_c = common.trace_boundary_c(["traceparent", "tracestate"]) + "\nSpanContext g_extracted;\n"
pre_c = '''
size_t g_k; size_t g_j; size_t g_off; size_t g_off2; size_t g_trim_off; size_t g_trim_len;
static void xc_havoc_ghosts(void) { size_t a, b, c, d; g_k = a; g_j = b; g_off = c; g_off2 = d; }
'''


def configure(cfg):
    common.trace_boundary(cfg)


SV_OK = lambda v: ("__CPROVER_requires(%s.length_ <= XC_MAXLEN)\n"
                   "__CPROVER_requires(__CPROVER_is_fresh(%s.data_, %s.length_))\n" % (v, v, v))


# --- HexToBinary: pointwise functional contract with ghost byte index g_j -----------------------
# pad = number of leading zero bytes; byte q of the converted part comes from hex chars (2q-odd, 2q-odd+1)
HB_DEFS = """
#define HB_HS(hex) ((long)(hex).length_)
#define HB_ODD(hex) (HB_HS(hex) % 2)
#define HB_PAD(hex, bs) ((long)(bs) - (HB_HS(hex) + 1) / 2)
#define HB_Q(hex, bs, j) ((long)(j) - HB_PAD(hex, bs))
#define HB_I(hex, bs, j) (2 * HB_Q(hex, bs, j) - HB_ODD(hex))
#define HB_EXPECT_AT(hex, bs, buffer, j) \\
  ((long)(j) < HB_PAD(hex, bs) ? (buffer)[j] == 0 : \\
   (HB_ODD(hex) && HB_Q(hex, bs, j) == 0) ? (IS_HEX((hex).data_[0]) ==> (buffer)[j] == (uint8_t)HEXVAL((hex).data_[0])) : \\
   ((IS_HEX((hex).data_[HB_I(hex, bs, j)]) && IS_HEX((hex).data_[HB_I(hex, bs, j) + 1])) ==> \\
      (buffer)[j] == (uint8_t)((HEXVAL((hex).data_[HB_I(hex, bs, j)]) << 4) | HEXVAL((hex).data_[HB_I(hex, bs, j) + 1]))))
"""
pre_c += HB_DEFS


# --- SplitString: structural contract, quantifier over fields unrolled (count <= 4) -------------
SS_DEFS = """
#define SS_OFF(s, r, j) ((size_t)((r)[j].data_ - (s).data_))
#define SS_END(s, r, j) (SS_OFF(s, r, j) + (r)[j].length_)
#define SS_INSIDE(s, r, j) (__CPROVER_same_object((r)[j].data_, (s).data_) && SS_OFF(s, r, j) <= (s).length_ && (r)[j].length_ <= (s).length_ - SS_OFF(s, r, j))
#define SS_ADJ(s, sep, r, j) ((r)[(j) + 1].data_ == (r)[j].data_ + (r)[j].length_ + 1 && SS_END(s, r, j) < (s).length_ && (s).data_[SS_END(s, r, j)] == (sep))
#define SS_NOSEP(s, sep, r, j, k) ((SS_OFF(s, r, j) <= (k) && (k) < SS_END(s, r, j)) ==> (s).data_[k] != (sep))
"""
pre_c += SS_DEFS
pre_c += "#define TR_OFF ((size_t)(__CPROVER_return_value.data_ - str.data_))\n"
SS_FIELDS = "".join(
    "__CPROVER_%%s(%d < %%s ==> (SS_INSIDE(s, results, %d) && SS_NOSEP(s, separator, results, %d, g_k)))\n" % (j, j, j) for j in range(4))
SS_ADJS = "".join(
    "__CPROVER_%%s(%d + 1 < %%s ==> SS_ADJ(s, separator, results, %d))\n" % (j, j) for j in range(3))

def _ss(kind, n):
    return (SS_FIELDS % tuple(x for _ in range(4) for x in (kind, n))) + (SS_ADJS % tuple(x for _ in range(3) for x in (kind, n)))


pre_c += common.ID_MACROS
B = "trace_parent.data_"
N = "trace_parent.length_"
RET = "__CPROVER_return_value"


def wf_post(valid, b, n, sc, kind="ensures"):
    """soundness: a valid result implies the W3C shape of (b, n) (up to hex case) and exactly the encoded values;
    pointwise in the ghost positions g_off/g_off2 (characters) and g_j (id byte)."""
    C = "__CPROVER_" + kind
    return (
        "%(C)s(%(valid)s ==> (%(n)s >= 55 && %(b)s[2] == '-' && %(b)s[35] == '-' && %(b)s[52] == '-'))\n"
        "%(C)s(%(valid)s ==> ((g_off < 55 && g_off != 2 && g_off != 35 && g_off != 52) ==> IS_HEX(%(b)s[g_off])))\n"
        "%(C)s((%(valid)s && g_off == 0 && g_off2 == 1 && g_j == 0) ==> (HEXBYTE(%(b)s[0], %(b)s[1]) != 0xff && "
        "(HEXBYTE(%(b)s[0], %(b)s[1]) == 0 ? %(n)s == 55 : (%(n)s == 55 || %(b)s[55] == '-'))))\n"
        "%(C)s((%(valid)s && g_j < 16 && g_off == 3 + 2 * g_j && g_off2 == 4 + 2 * g_j) ==> %(sc)s.trace_id_.rep_[g_j] == HEXBYTE(%(b)s[g_off], %(b)s[g_off2]))\n"
        "%(C)s((%(valid)s && g_j < 8 && g_off == 36 + 2 * g_j && g_off2 == 37 + 2 * g_j) ==> %(sc)s.span_id_.rep_[g_j] == HEXBYTE(%(b)s[g_off], %(b)s[g_off2]))\n"
        "%(C)s((%(valid)s && g_off == 53 && g_off2 == 54 && g_j == 0) ==> %(sc)s.trace_flags_.rep_ == HEXBYTE(%(b)s[53], %(b)s[54]))\n"
        "%(C)s(%(valid)s ==> %(sc)s.is_remote_)\n" % dict(C=C, valid=valid, b=b, n=n, sc=sc))


def inject_post(sc, guard="1"):
    return (
        "__CPROVER_ensures((%(g)s) ==> (g_set_calls >= 1 && g_set_len[0] == 55 && " + common.key_lit_eq("g_set_key", "0", "traceparent") + "))\n"
        "__CPROVER_ensures((%(g)s) ==> (g_set_val[0][0] == '0' && g_set_val[0][1] == '0' && g_set_val[0][2] == '-' && g_set_val[0][35] == '-' && g_set_val[0][52] == '-'))\n"
        "__CPROVER_ensures((%(g)s) ==> (g_k < 32 ==> g_set_val[0][3 + g_k] == LOWER_HEX_DIGIT(NIB_AT(%(sc)s.trace_id_.rep_, g_k))))\n"
        "__CPROVER_ensures((%(g)s) ==> (g_k < 16 ==> g_set_val[0][36 + g_k] == LOWER_HEX_DIGIT(NIB_AT(%(sc)s.span_id_.rep_, g_k))))\n"
        "__CPROVER_ensures((%(g)s) ==> (g_set_val[0][53] == LOWER_HEX_DIGIT(HI_NIB(%(sc)s.trace_flags_.rep_)) && g_set_val[0][54] == LOWER_HEX_DIGIT(LO_NIB(%(sc)s.trace_flags_.rep_))))\n"
        "__CPROVER_ensures((%(g)s) ==> (g_ts_to_header_arg == %(sc)s.trace_state_.id))\n"
        "__CPROVER_ensures(((%(g)s) && g_ts_to_header_result.len == 0) ==> g_set_calls == 1)\n"
        "__CPROVER_ensures(((%(g)s) && g_ts_to_header_result.len != 0) ==> (g_set_calls == 2 && " + common.key_lit_eq("g_set_key", "1", "tracestate") +
        " && g_set_len[1] == g_ts_to_header_result.len && (g_k < g_ts_to_header_result.len ==> g_set_val[1][g_k] == g_ts_to_header_result.data[g_k])))\n"
    ) % dict(g=guard, sc=sc)


INJECT_FRAME = ("__CPROVER_requires(g_set_calls == 0 && g_ts_to_header_result.len <= XC_SET_CAP && __CPROVER_is_fresh(g_ts_to_header_result.data, g_ts_to_header_result.len))\n"
                "__CPROVER_assigns(g_set_calls, g_ts_to_header_arg, __CPROVER_object_whole(g_set_key), __CPROVER_object_whole(g_set_key_len), __CPROVER_object_whole(g_set_len), __CPROVER_object_whole(g_set_val))\n")

def lower16(n, total):
    return {"pre": "__CPROVER_requires(__CPROVER_is_fresh(buffer.data_, %d))\n"
                   "__CPROVER_assigns(__CPROVER_object_upto(buffer.data_, %d))\n"
                   "__CPROVER_ensures(g_k < %d ==> buffer.data_[g_k] == LOWER_HEX_DIGIT(NIB_AT(self.rep_, g_k)))\n" % (total, total, total),
            "loops": {1: "__CPROVER_assigns(i, __CPROVER_object_upto(buffer.data_, %d))\n"
                         "__CPROVER_loop_invariant(0 <= i && i <= %d)\n"
                         "__CPROVER_loop_invariant((g_k < %d && g_k < 2 * (size_t)i) ==> buffer.data_[g_k] == LOWER_HEX_DIGIT(NIB_AT(self.rep_, g_k)))\n"
                         "__CPROVER_decreases(%d - i)\n" % (total, n, total, n)}}

ECFTH = "HttpTraceContext_ExtractContextFromTraceHeaders"
TS_REC = ("(g_ts_from_header_calls == __CPROVER_old(g_ts_from_header_calls) + 1 && %s.trace_state_.id == g_ts_from_header_result && "
          "g_ts_header_data == %s.data_ && g_ts_header_len == %s.length_)")

contracts = dict(common.SV_CONTRACTS)
contracts.update({
    "TraceId_ToLowerBase16": lower16(16, 32),
    "SpanId_ToLowerBase16": lower16(8, 16),
    "TraceFlags_ToLowerBase16": {
        "pre": "__CPROVER_requires(__CPROVER_is_fresh(buffer.data_, 2))\n"
               "__CPROVER_assigns(__CPROVER_object_upto(buffer.data_, 2))\n"
               "__CPROVER_ensures(buffer.data_[0] == LOWER_HEX_DIGIT(HI_NIB(self.rep_)) && buffer.data_[1] == LOWER_HEX_DIGIT(LO_NIB(self.rep_)))\n"},
    "HttpTraceContext_InjectImpl": {"pre": INJECT_FRAME + inject_post("span_context")},
    "HttpTraceContext_Inject": {"pre": INJECT_FRAME +
        "__CPROVER_ensures(!SC_VALID(g_in_span_context) ==> g_set_calls == 0)\n" + inject_post("g_in_span_context", "SC_VALID(g_in_span_context)")},
    ECFTH: {"pre": common.sv_ok("trace_parent") +
        "__CPROVER_assigns(g_ts_from_header_calls, g_ts_header_data, g_ts_header_len)\n" +
        wf_post("SC_VALID(%s)" % RET, B, N, RET) +
        "__CPROVER_ensures(SC_VALID(%s) ==> %s)\n" % (RET, TS_REC % (RET, "trace_state", "trace_state")) +
        "__CPROVER_ensures(!SC_VALID(%s) ==> SC_IS_INVALID(%s))\n" % (RET, RET)},
    "HttpTraceContext_ExtractImpl": {
        "ghost": {("after_decl", "trace_parent"): "g_trim_off = POFF(trace_parent.data_); g_trim_len = trace_parent.length_;"},
        "pre": "__CPROVER_requires(g_get_calls == 0 && g_get_ret[0].length_ <= XC_MAXLEN && __CPROVER_is_fresh(g_get_ret[0].data_, g_get_ret[0].length_))\n"
        "__CPROVER_assigns(g_get_calls, __CPROVER_object_whole(g_get_seen), g_trim_off, g_trim_len, g_ts_from_header_calls, g_ts_header_data, g_ts_header_len)\n"
        # the trimmed window lies inside the header and only whitespace was removed
        "__CPROVER_ensures(g_trim_off <= g_get_ret[0].length_ && g_trim_len <= g_get_ret[0].length_ - g_trim_off)\n"
        "__CPROVER_ensures((g_k < g_trim_off || (g_trim_off + g_trim_len <= g_k && g_k < g_get_ret[0].length_)) ==> XC_ISSPACE(g_get_ret[0].data_[g_k]))\n" +
        wf_post("SC_VALID(%s)" % RET, "(g_get_ret[0].data_ + g_trim_off)", "g_trim_len", RET) +
        "__CPROVER_ensures(SC_VALID(%s) ==> %s)\n" % (RET, TS_REC % (RET, "g_get_ret[1]", "g_get_ret[1]")) +
        "__CPROVER_ensures(!SC_VALID(%s) ==> SC_IS_INVALID(%s))\n" % (RET, RET)},
    "HttpTraceContext_Extract": {
        "ghost": {("after_decl", "span_context"): "g_extracted = span_context;"},
        "pre": "__CPROVER_requires(g_get_calls == 0 && g_get_ret[0].length_ <= XC_MAXLEN && __CPROVER_is_fresh(g_get_ret[0].data_, g_get_ret[0].length_))\n"
        "__CPROVER_requires(__CPROVER_is_fresh(context, sizeof(xc_ctx)) && g_setspan_calls == 0 && g_new_span_calls == 0)\n"
        "__CPROVER_assigns(g_get_calls, __CPROVER_object_whole(g_get_seen), g_trim_off, g_trim_len, g_ts_from_header_calls, g_ts_header_data, g_ts_header_len, "
        "g_extracted, g_new_span_context, g_new_span_calls, g_setspan_calls, g_setspan_ctx_id, g_setspan_span_id)\n"
        # an invalid context is never installed: the caller's context comes back and SetSpan is not called
        "__CPROVER_ensures(!SC_VALID(g_extracted) ==> (g_setspan_calls == 0 && __CPROVER_return_value.id == context->id))\n"
        "__CPROVER_ensures(SC_VALID(g_extracted) ==> (g_setspan_calls == 1 && __CPROVER_return_value.id == g_setspan_result_id && g_setspan_ctx_id == context->id && "
        "g_setspan_span_id == g_new_span_id && g_new_span_calls == 1))\n"
        "__CPROVER_ensures(SC_VALID(g_extracted) ==> ((g_j < 16 ==> g_new_span_context.trace_id_.rep_[g_j] == g_extracted.trace_id_.rep_[g_j]) && "
        "(g_j < 8 ==> g_new_span_context.span_id_.rep_[g_j] == g_extracted.span_id_.rep_[g_j]) && g_new_span_context.trace_flags_.rep_ == g_extracted.trace_flags_.rep_ && "
        "g_new_span_context.is_remote_ == g_extracted.is_remote_ && g_new_span_context.trace_state_.id == g_extracted.trace_state_.id))\n"
        "__CPROVER_ensures(context->id == __CPROVER_old(context->id))\n" +
        wf_post("SC_VALID(g_extracted)", "(g_get_ret[0].data_ + g_trim_off)", "g_trim_len", "g_extracted")},
    "HexToInt": {"pre": "__CPROVER_ensures(__CPROVER_return_value == HEXVAL(c))\n__CPROVER_assigns()\n"},
    "xc_all_of__IsValidHex__l1": {"loops": {1:
        "__CPROVER_assigns(first)\n"
        "__CPROVER_loop_invariant(__CPROVER_same_object(first, last) && __CPROVER_loop_entry(first) <= first && first <= last)\n"
        "__CPROVER_loop_invariant((POFF(__CPROVER_loop_entry(first)) <= g_off && g_off < POFF(first)) ==> IS_HEX(PTR_OBJ_AT(first, g_off)))\n"
        "__CPROVER_loop_invariant((POFF(__CPROVER_loop_entry(first)) <= g_off2 && g_off2 < POFF(first)) ==> IS_HEX(PTR_OBJ_AT(first, g_off2)))\n"
        "__CPROVER_decreases(last - first)\n"}},
    "HexToBinary": {
        "pragmas": ['disable "undefined-shift"'],
        "pre": SV_OK("hex") +
        "__CPROVER_requires(buffer_size <= 16 && __CPROVER_is_fresh(buffer, buffer_size))\n"
        "__CPROVER_assigns(__CPROVER_object_whole(buffer))\n"
        "__CPROVER_ensures(__CPROVER_return_value == (hex.length_ <= 2 * buffer_size))\n"
        "__CPROVER_ensures(!__CPROVER_return_value ==> (g_j < buffer_size ==> buffer[g_j] == 0))\n"
        # on failure the whole buffer is zero (needed jointly by callers that ignore the result): 16 explicit positions
        + "".join("__CPROVER_ensures((!__CPROVER_return_value && %d < buffer_size) ==> buffer[%d] == 0)\n" % (k, k) for k in range(16)) +
        "__CPROVER_ensures(__CPROVER_return_value ==> (g_j < buffer_size ==> HB_EXPECT_AT(hex, buffer_size, buffer, g_j)))\n",
        "loops": {1:
        "__CPROVER_assigns(i, buffer_pos, __CPROVER_object_whole(buffer))\n"
        "__CPROVER_loop_invariant(0 <= i && i <= hex_size && i % 2 == hex_size % 2)\n"
        "__CPROVER_loop_invariant(buffer_pos == (long)buffer_size - (hex_size + 1) / 2 + (i + hex_size % 2) / 2)\n"
        "__CPROVER_loop_invariant((g_j < buffer_size && (long)g_j < buffer_pos) ==> HB_EXPECT_AT(hex, buffer_size, buffer, g_j))\n"
        "__CPROVER_loop_invariant((g_j < buffer_size && (long)g_j >= buffer_pos) ==> buffer[g_j] == 0)\n"
        "__CPROVER_decreases(hex_size - i)\n"}},
    "SplitString": {
        "pre": SV_OK("s") +
        "__CPROVER_requires(count <= 4 && __CPROVER_is_fresh(results, count * sizeof(string_view)))\n"
        "__CPROVER_assigns(__CPROVER_object_whole(results))\n"
        "__CPROVER_ensures(__CPROVER_return_value <= count && (count > 0 ==> __CPROVER_return_value >= 1))\n"
        "__CPROVER_ensures(count > 0 ==> __CPROVER_pointer_equals(results[0].data_, s.data_))\n" + "".join(
            ("__CPROVER_ensures(%(j)d < __CPROVER_return_value ==> (SS_INSIDE(s, results, %(j)d) && SS_NOSEP(s, separator, results, %(j)d, g_k)))\n" +
             ("__CPROVER_ensures(%(j)d + 1 < __CPROVER_return_value ==> (SS_END(s, results, %(j)d) < s.length_ && s.data_[SS_END(s, results, %(j)d)] == separator))\n"
              "__CPROVER_ensures(%(j)d + 1 < __CPROVER_return_value ==> __CPROVER_pointer_equals(results[%(j)d + 1].data_, results[%(j)d].data_ + results[%(j)d].length_ + 1))\n"
              if j < 3 else "")) % {"j": j} for j in range(4))
        + "".join("__CPROVER_ensures((%(j)d < count && %(j)d >= __CPROVER_return_value) ==> (results[%(j)d].length_ == __CPROVER_old(results[%(j)d * (%(j)d < count)].length_) && "
                  "results[%(j)d].data_ == __CPROVER_old(results[%(j)d * (%(j)d < count)].data_)))\n" % {"j": j} for j in range(1, 4)) +
        "__CPROVER_ensures(count > 0 ==> (SS_END(s, results, __CPROVER_return_value - 1) == s.length_ || "
        "(__CPROVER_return_value == count && s.data_[SS_END(s, results, __CPROVER_return_value - 1)] == separator)))\n",
        "loops": {1:
        "__CPROVER_assigns(i, filled, token_start, __CPROVER_object_whole(results))\n"
        "__CPROVER_loop_invariant(i <= s.length_ && filled < count && token_start <= i)\n"
        "__CPROVER_loop_invariant(filled == 0 ==> token_start == 0)\n"
        "__CPROVER_loop_invariant(filled > 0 ==> (results[0].data_ == s.data_ && token_start == SS_END(s, results, filled - 1) + 1 && s.data_[token_start - 1] == separator))\n" +
        _ss("loop_invariant", "filled") +
        "__CPROVER_loop_invariant((token_start <= g_k && g_k < i) ==> s.data_[g_k] != separator)\n" + "".join("__CPROVER_loop_invariant((%(j)d < count && %(j)d >= filled) ==> (results[%(j)d].length_ == __CPROVER_loop_entry(results[%(j)d * (%(j)d < count)].length_) && "
                  "results[%(j)d].data_ == __CPROVER_loop_entry(results[%(j)d * (%(j)d < count)].data_)))\n" % {"j": j} for j in range(1, 4)) +
        "__CPROVER_decreases(s.length_ - i)\n"}},
    "StringUtil_Trim_3": {
        "pre": SV_OK("str") +
        "__CPROVER_requires(left <= right && right < str.length_)\n"
        "__CPROVER_assigns()\n"
        "__CPROVER_ensures(__CPROVER_pointer_in_range_dfcc(str.data_, __CPROVER_return_value.data_, str.data_ + str.length_))\n"
        "__CPROVER_ensures(TR_OFF >= left && TR_OFF <= right + 1 && __CPROVER_return_value.length_ <= right + 1 - TR_OFF)\n"
        "__CPROVER_ensures(__CPROVER_return_value.length_ > 0 ==> (!XC_ISSPACE(str.data_[TR_OFF]) && !XC_ISSPACE(str.data_[TR_OFF + __CPROVER_return_value.length_ - 1])))\n"
        "__CPROVER_ensures((left <= g_k && g_k < TR_OFF) ==> XC_ISSPACE(str.data_[g_k]))\n"
        "__CPROVER_ensures((TR_OFF + __CPROVER_return_value.length_ <= g_k && g_k <= right) ==> XC_ISSPACE(str.data_[g_k]))\n",
        "loops": {
            1: "__CPROVER_assigns(left)\n"
               "__CPROVER_loop_invariant(__CPROVER_loop_entry(left) <= left && left <= right + 1)\n"
               "__CPROVER_loop_invariant((__CPROVER_loop_entry(left) <= g_k && g_k < left) ==> XC_ISSPACE(str.data_[g_k]))\n"
               "__CPROVER_decreases(right + 1 - left)\n",
            2: "__CPROVER_assigns(right)\n"
               "__CPROVER_loop_invariant(right <= __CPROVER_loop_entry(right) && left <= right + 1)\n"
               "__CPROVER_loop_invariant(left <= __CPROVER_loop_entry(right) ==> !XC_ISSPACE(str.data_[left]))\n"
               "__CPROVER_loop_invariant((right < g_k && g_k <= __CPROVER_loop_entry(right)) ==> XC_ISSPACE(str.data_[g_k]))\n"
               "__CPROVER_decreases(right)\n"}},
    "StringUtil_Trim_1": {
        "pre": SV_OK("str") +
        "__CPROVER_assigns()\n"
        "__CPROVER_ensures(__CPROVER_pointer_in_range_dfcc(str.data_, __CPROVER_return_value.data_, str.data_ + str.length_))\n"
        "__CPROVER_ensures(TR_OFF <= str.length_ && __CPROVER_return_value.length_ <= str.length_ - TR_OFF)\n"
        "__CPROVER_ensures(__CPROVER_return_value.length_ > 0 ==> (!XC_ISSPACE(str.data_[TR_OFF]) && !XC_ISSPACE(str.data_[TR_OFF + __CPROVER_return_value.length_ - 1])))\n"
        "__CPROVER_ensures((g_k < TR_OFF) ==> XC_ISSPACE(str.data_[g_k]))\n"
        "__CPROVER_ensures((TR_OFF + __CPROVER_return_value.length_ <= g_k && g_k < str.length_) ==> XC_ISSPACE(str.data_[g_k]))\n"},
    "IsValidHex": {"pre": SV_OK("s") +
        "__CPROVER_assigns()\n"
        "__CPROVER_ensures(__CPROVER_return_value ==> (SV_COVERS(s, g_off) ==> IS_HEX(SV_OBJ_AT(s, g_off))))\n"
        "__CPROVER_ensures(__CPROVER_return_value ==> (SV_COVERS(s, g_off2) ==> IS_HEX(SV_OBJ_AT(s, g_off2))))\n"},
})

proofs = [
    Proof("HexToInt", [("detail::HexToInt", 1)], enforce="HexToInt"),
    Proof("HexToBinary", [("detail::HexToBinary", 3)], enforce="HexToBinary", replace=["HexToInt"]),
    Proof("SplitString", [("detail::SplitString", 4)], enforce="SplitString"),
    Proof("Trim3", [("StringUtil::Trim", 3)], enforce="StringUtil_Trim_3"),
    Proof("Trim1", [("StringUtil::Trim", 1)], enforce="StringUtil_Trim_1", replace=["StringUtil_Trim_3"]),
    Proof("sv_eq", [("nostd::operator==", 2, "bool (nostd::string_view, nostd::string_view)")], enforce=common.SV_EQ),
    Proof("TraceId_ToLowerBase16", [("TraceId::ToLowerBase16", 1)], enforce="TraceId_ToLowerBase16"),
    Proof("SpanId_ToLowerBase16", [("SpanId::ToLowerBase16", 1)], enforce="SpanId_ToLowerBase16"),
    Proof("TraceFlags_ToLowerBase16", [("TraceFlags::ToLowerBase16", 1)], enforce="TraceFlags_ToLowerBase16"),
    Proof("InjectImpl", [("HttpTraceContext::InjectImpl", 2)], enforce="HttpTraceContext_InjectImpl",
          replace=["TraceId_ToLowerBase16", "SpanId_ToLowerBase16", "TraceFlags_ToLowerBase16"]),
    Proof("Inject", [("HttpTraceContext::Inject", 2)], enforce="HttpTraceContext_Inject", replace=["HttpTraceContext_InjectImpl"]),
    Proof("ExtractContextFromTraceHeaders", [("HttpTraceContext::ExtractContextFromTraceHeaders", 2)], enforce=ECFTH,
          replace=["SplitString", "IsValidHex", "HexToBinary"]),
    Proof("ExtractImpl", [("HttpTraceContext::ExtractImpl", 1)], enforce="HttpTraceContext_ExtractImpl",
          replace=[ECFTH, "StringUtil_Trim_1", common.SV_EQ]),
    Proof("Extract", [("HttpTraceContext::Extract", 2)], enforce="HttpTraceContext_Extract", replace=["HttpTraceContext_ExtractImpl"]),
    Proof("IsValidHex", [("detail::IsValidHex", 1)], enforce="IsValidHex", replace=["HexToInt"]),
]


# ---------------------------------------------------------------------------------------------
# completeness: every well-formed header yields a valid context with exactly the encoded values.
# Under WF the SplitString loop returns at index 55 at the latest and the hex loops run 2/32/16/2 times,
# so --unwind 57 with unwinding assertions is complete for every header length (not a bounded stand-in).
WF_C = r"""
static int xc_hexval(char c) { return HEXVAL(c); }
/* oracle written from the property statement (W3C level-1 shape up to hex case) */
static bool xc_wf_traceparent(const char *b, unsigned long n, uint8_t *tid, uint8_t *sid, uint8_t *fl)
{
  if (n < 55) return false;
  if (b[2] != '-' || b[35] != '-' || b[52] != '-') return false;
  for (unsigned i = 0; i < 55; i++)
    if (i != 2 && i != 35 && i != 52 && !IS_HEX(b[i])) return false;
  int ver = xc_hexval(b[0]) * 16 + xc_hexval(b[1]);
  if (ver == 0xff) return false;
  if (ver == 0 ? n != 55 : !(n == 55 || b[55] == '-')) return false;
  bool tz = true, sz = true;
  for (unsigned i = 0; i < 16; i++) { tid[i] = (uint8_t)(xc_hexval(b[3 + 2 * i]) * 16 + xc_hexval(b[4 + 2 * i])); tz = tz && tid[i] == 0; }
  for (unsigned i = 0; i < 8; i++) { sid[i] = (uint8_t)(xc_hexval(b[36 + 2 * i]) * 16 + xc_hexval(b[37 + 2 * i])); sz = sz && sid[i] == 0; }
  *fl = (uint8_t)(xc_hexval(b[53]) * 16 + xc_hexval(b[54]));
  return !tz && !sz;
}
"""

H_COMPLETE = WF_C + r"""
void h_Extract_completeness(void)
{
  xc_havoc_ghosts();
  unsigned long n; __CPROVER_assume(n >= 55 && n <= XC_MAXLEN);
  char *b = malloc(n); __CPROVER_assume(b != NULL);
  uint8_t tid[16], sid[8], fl;
  __CPROVER_assume(xc_wf_traceparent(b, n, tid, sid, &fl));
  string_view tp; tp.data_ = b; tp.length_ = n;
  string_view ts; ts.data_ = b; ts.length_ = 0;
  SpanContext sc = HttpTraceContext_ExtractContextFromTraceHeaders(tp, ts);
  __CPROVER_assert(SC_VALID(sc), "COMPLETE: well-formed traceparent yields a valid span context");
  __CPROVER_assert(g_j < 16 ==> sc.trace_id_.rep_[g_j] == tid[g_j], "COMPLETE: trace id equals the encoded one");
  __CPROVER_assert(g_j < 8 ==> sc.span_id_.rep_[g_j] == sid[g_j], "COMPLETE: span id equals the encoded one");
  __CPROVER_assert(sc.trace_flags_.rep_ == fl && sc.is_remote_, "COMPLETE: flags byte equals the encoded one, context is remote");
  __CPROVER_assert(0, "XC_CANARY end of harness reachable");
}
"""

# round trip: the traceparent that Inject is *proved* to write (HttpTraceContext_Inject's postcondition, which holds for
# every ghost position g_k, i.e. for all 55 bytes) is fed to the real extraction code.
H_ROUNDTRIP = r"""
void h_RoundTrip(void)
{
  xc_havoc_ghosts();
  SpanContext in;
  __CPROVER_assume(SC_VALID(in));
  char O[55];
  /* = the proved postcondition of Inject, instantiated at every position */
  __CPROVER_assume(O[0] == '0' && O[1] == '0' && O[2] == '-' && O[35] == '-' && O[52] == '-');
  for (unsigned k = 0; k < 32; k++) __CPROVER_assume(O[3 + k] == LOWER_HEX_DIGIT(NIB_AT(in.trace_id_.rep_, k)));
  for (unsigned k = 0; k < 16; k++) __CPROVER_assume(O[36 + k] == LOWER_HEX_DIGIT(NIB_AT(in.span_id_.rep_, k)));
  __CPROVER_assume(O[53] == LOWER_HEX_DIGIT(HI_NIB(in.trace_flags_.rep_)) && O[54] == LOWER_HEX_DIGIT(LO_NIB(in.trace_flags_.rep_)));
  g_get_ret[0].data_ = O; g_get_ret[0].length_ = 55;
  g_get_ret[1].data_ = ""; g_get_ret[1].length_ = 0;
  xc_carrier carrier;
  SpanContext out = HttpTraceContext_ExtractImpl(&carrier);
  __CPROVER_assert(SC_VALID(out) && out.is_remote_, "ROUNDTRIP: extracted context is valid and remote");
  __CPROVER_assert(g_j < 16 ==> out.trace_id_.rep_[g_j] == in.trace_id_.rep_[g_j], "ROUNDTRIP: same trace id");
  __CPROVER_assert(g_j < 8 ==> out.span_id_.rep_[g_j] == in.span_id_.rep_[g_j], "ROUNDTRIP: same span id");
  __CPROVER_assert(out.trace_flags_.rep_ == in.trace_flags_.rep_, "ROUNDTRIP: same flags byte");
  __CPROVER_assert(0, "XC_CANARY end of harness reachable");
}
"""

proofs += [
    Proof("Extract_completeness_q", [("HttpTraceContext::ExtractContextFromTraceHeaders", 2)],
          harness=H_COMPLETE.replace("h_Extract_completeness", "h_Extract_completeness_q").replace("n <= XC_MAXLEN", "n <= 57")
          .replace("char *b = malloc(n); __CPROVER_assume(b != NULL);", "char b[57];"), unwind=57,
          loop_contracts=False, complete_unwind_note="as Extract_completeness, header length 55..57 (quick tier); the thorough tier covers every length",
          property_level=("h_Extract_completeness", ".*unwind.*"), timeout=900,
          desc="completeness for header lengths 55..57 (every length up to 65536 in the thorough tier)"),
    Proof("Extract_completeness", [("HttpTraceContext::ExtractContextFromTraceHeaders", 2)], harness=H_COMPLETE, unwind=57, tier="thorough",
          loop_contracts=False, complete_unwind_note="under the well-formedness assumption every loop ends within 56 iterations; unwinding assertions prove it",
          property_level=("h_Extract_completeness", ".*unwind.*"), timeout=1500,
          desc="completeness: WF header => valid context with the encoded ids/flags (any length up to 65536)"),
    Proof("RoundTrip", [("HttpTraceContext::ExtractImpl", 1)], harness=H_ROUNDTRIP, unwind=57,
          loop_contracts=False, complete_unwind_note="all loops have constant bounds (16/8 id bytes, 55 header bytes)",
          timeout=1500, desc="the header Inject is proved to write, fed to the real extraction, gives back the same ids and flags byte, "
          "for all 2^128 x 2^64 x 2^8 valid contexts; composition with Inject's contract is by instantiating its postcondition at all 55 positions"),
]

# ---------------------------------------------------------------------------------------------
# refute mode + native replay
XC_R = 58
H_REFUTE_EXTRACT = WF_C + r"""
char cex_hdr[%(R)d]; unsigned long cex_len;
void h_refute_extract(void)
{
  xc_havoc_ghosts();
  unsigned long n; __CPROVER_assume(n <= %(R)d);
  char *hdr = malloc(n);            /* exact-size object: an out-of-bounds read of the view is an out-of-bounds read of the object */
  __CPROVER_assume(hdr != NULL);
  for (unsigned i = 0; i < %(R)d; i++) if (i < n) cex_hdr[i] = hdr[i];
  cex_len = n;
  /* search space of the refutation (not of the proofs): near-well-formed headers of 50..%(R)d bytes, at most one
     leading blank, the three dashes in place */
  __CPROVER_assume(n >= 50);
  unsigned lead = hdr[0] == ' ' ? 1 : 0;
  __CPROVER_assume(hdr[lead + 2] == '-' && hdr[lead + 35] == '-' && (lead + 52 >= n || hdr[lead + 52] == '-'));
  g_get_ret[0].data_ = hdr; g_get_ret[0].length_ = n;
  g_get_ret[1].data_ = ""; g_get_ret[1].length_ = 0;
  HttpTraceContext self; xc_carrier carrier; xc_ctx ctx; ctx.id = 5; g_setspan_result_id = 9;
  xc_ctx out = HttpTraceContext_Extract(&self, &carrier, &ctx);
  SpanContext sc = g_new_span_context;
  unsigned long a = 0, e = n;
  while (a < e && XC_ISSPACE(hdr[a])) a++;
  while (e > a && XC_ISSPACE(hdr[e - 1])) e--;
  uint8_t tid[16], sid[8], fl = 0;
  bool wf = xc_wf_traceparent(hdr + a, e - a, tid, sid, &fl);
  bool valid = SC_VALID(sc);
  __CPROVER_assert(valid == wf, "REFUTE: valid result iff well-formed header");
  if (valid && wf)
  {
    for (unsigned i = 0; i < 16; i++) __CPROVER_assert(sc.trace_id_.rep_[i] == tid[i], "REFUTE: trace id");
    for (unsigned i = 0; i < 8; i++) __CPROVER_assert(sc.span_id_.rep_[i] == sid[i], "REFUTE: span id");
    __CPROVER_assert(sc.trace_flags_.rep_ == fl && sc.is_remote_, "REFUTE: flags/remote");
    __CPROVER_assert(out.id == 9 && g_setspan_calls == 1, "REFUTE: valid context installed");
  }
  if (!valid) __CPROVER_assert(out.id == 5 && g_setspan_calls == 0, "REFUTE: caller's context returned unchanged");
}
""" % {"R": XC_R}

H_REFUTE_INJECT = r"""
uint8_t cex_tid[16]; uint8_t cex_sid[8]; uint8_t cex_flags;
void h_refute_inject(void)
{
  xc_havoc_ghosts();
  SpanContext in; g_in_span_context = in;
  for (unsigned i = 0; i < 16; i++) cex_tid[i] = in.trace_id_.rep_[i];
  for (unsigned i = 0; i < 8; i++) cex_sid[i] = in.span_id_.rep_[i];
  cex_flags = in.trace_flags_.rep_;
  g_ts_to_header_result.len = 0; g_ts_to_header_result.data = "";
  HttpTraceContext self; xc_carrier carrier; xc_ctx ctx; ctx.id = 3;
  HttpTraceContext_Inject(&self, &carrier, &ctx);
  if (!SC_VALID(in)) { __CPROVER_assert(g_set_calls == 0, "REFUTE: invalid context never injected"); return; }
  __CPROVER_assert(g_set_calls == 1 && g_set_len[0] == 55, "REFUTE: one 55-byte header");
  __CPROVER_assert(g_set_val[0][0] == '0' && g_set_val[0][1] == '0' && g_set_val[0][2] == '-' && g_set_val[0][35] == '-' && g_set_val[0][52] == '-', "REFUTE: 00- and dashes");
  for (unsigned k = 0; k < 32; k++) __CPROVER_assert(g_set_val[0][3 + k] == LOWER_HEX_DIGIT(NIB_AT(in.trace_id_.rep_, k)), "REFUTE: trace id digits");
  for (unsigned k = 0; k < 16; k++) __CPROVER_assert(g_set_val[0][36 + k] == LOWER_HEX_DIGIT(NIB_AT(in.span_id_.rep_, k)), "REFUTE: span id digits");
  __CPROVER_assert(g_set_val[0][53] == LOWER_HEX_DIGIT(HI_NIB(in.trace_flags_.rep_)) && g_set_val[0][54] == LOWER_HEX_DIGIT(LO_NIB(in.trace_flags_.rep_)), "REFUTE: flags digits");
}
"""

DRIVER = ("c09_native", ["c09_native.cc"])
DRIVER_FLAGS = ["-fsanitize=address,undefined", "-fno-sanitize-recover=all"]


def _hex(bs):
    return "".join("%02x" % (b & 0xff) for b in bs)


def refute_extract(mod, proof, violations, ix, workdir, seed):
    """1. directed native search over near-well-formed headers on the real code (ASan/UBSan build);
    2. (thorough tier only, slow) bounded inlined CBMC search."""
    import os, re as _re
    binpath = R.build_native(DRIVER[0], [os.path.join(R.core.HERE, "replay", s) for s in DRIVER[1]], DRIVER_FLAGS)
    rc, out = R.run_native(binpath, ["search"], timeout=300)
    if rc != 0:
        import subprocess
        full = subprocess.run([binpath, "search"], stdout=subprocess.PIPE, stderr=subprocess.STDOUT, text=True).stdout
        cands = _re.findall(r"^(?:CAND|FOUND) ([0-9a-f]*)$", full, _re.M)
        if cands:
            hx = cands[-1]
            r = R.native_check(DRIVER[0], DRIVER[1], ["extract", hx], DRIVER_FLAGS)
            r["input"] = {"traceparent_bytes_hex": hx, "found_by": "directed native search (refute mode)"}
            if r["reproduced"]:
                return r
    if os.environ.get("VERIF_TIER", "quick") != "thorough":
        return None
    import sys
    me = sys.modules[__name__]
    vals = R.bounded_cex(me, "refute_extract", [("HttpTraceContext::Extract", 2)], H_REFUTE_EXTRACT, ix,
                         workdir, unwind=XC_R + 2, timeout=420)
    if not vals:
        return None
    n = R.to_int(vals.get("cex_len")) or 0
    hdr = R.array_from(vals, "cex_hdr", XC_R)[:n]
    r = R.native_check(DRIVER[0], DRIVER[1], ["extract", _hex(hdr)], DRIVER_FLAGS)
    r["input"] = {"traceparent_bytes_hex": _hex(hdr), "failed_assertion": vals.get("__failed__")}
    return r


def refute_inject(mod, proof, violations, ix, workdir, seed):
    import sys
    me = sys.modules[__name__]
    vals = R.bounded_cex(me, "refute_inject", [("HttpTraceContext::Inject", 2)], H_REFUTE_INJECT, ix, workdir, unwind=65, timeout=900)
    if not vals:
        return None
    tid = R.array_from(vals, "cex_tid", 16)
    sid = R.array_from(vals, "cex_sid", 8)
    fl = R.to_int(vals.get("cex_flags")) or 0
    r = R.native_check(DRIVER[0], DRIVER[1], ["inject", _hex(tid), _hex(sid), "%02x" % fl], DRIVER_FLAGS)
    r["input"] = {"trace_id": _hex(tid), "span_id": _hex(sid), "flags": "%02x" % fl, "failed_assertion": vals.get("__failed__")}
    return r


def refute_flags(mod, proof, violations, ix, workdir, seed):
    vals = R.leaf_trace(workdir, proof.name, violations[0]["obligation"])
    if not vals:
        return None
    b = None
    for k, v in vals.items():
        if k.endswith("xc_a_self.rep_") or k == "self.rep_":
            b = R.to_int(v)
    if b is None:
        return None
    r = R.native_check(DRIVER[0], DRIVER[1], ["flags", b], DRIVER_FLAGS)
    r["input"] = {"flags_byte": b}
    return r


def refute_hextoint(mod, proof, violations, ix, workdir, seed):
    vals = R.leaf_trace(workdir, proof.name, violations[0]["obligation"])
    c = None
    for k, v in (vals or {}).items():
        if k.endswith("xc_a_c") or k == "c":
            c = R.to_int(v)
    if c is None:
        return refute_extract(mod, proof, violations, ix, workdir, seed)
    c &= 0xff
    # the byte is placed in the trace-id field of an otherwise well-formed header (and, for a byte that is a hex digit, used as is)
    hdr = list(b"00-0af7651916cd43dd8448eb211c80319c-b9c7c989f97918e1-01")
    hdr[3] = c
    r = R.native_check(DRIVER[0], DRIVER[1], ["extract", _hex(hdr)], DRIVER_FLAGS)
    r["input"] = {"byte": c, "traceparent_bytes_hex": _hex(hdr)}
    if not r["reproduced"]:
        return refute_extract(mod, proof, violations, ix, workdir, seed)
    return r


refuters = {"TraceFlags_ToLowerBase16": refute_flags, "HexToInt": refute_hextoint}
for _n in ("TraceId_ToLowerBase16", "SpanId_ToLowerBase16", "InjectImpl", "Inject"):
    refuters[_n] = refute_inject
for _n in ("IsValidHex", "HexToBinary", "SplitString", "Trim3", "Trim1", "sv_eq", "ExtractContextFromTraceHeaders",
           "ExtractImpl", "Extract", "Extract_completeness", "Extract_completeness_q"):
    refuters[_n] = refute_extract
refuters["RoundTrip"] = refute_inject
