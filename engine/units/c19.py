"""C19 - view selection (sdk/include/opentelemetry/sdk/metrics/view/view_registry.h): a registered view applies to exactly the instruments whose
type, name, unit and meter identity match its selectors. Only ViewRegistry::MatchInstrument / MatchMeter are under contract; the predicates
themselves (std::regex), the instrument name/unit validators (std::regex) and the scope configurators are not."""
from ..core import Proof
from .. import refute as R
from . import common
from ..xc.emit import CT, ExtractionError

prop_id = "C19"
tu_name = "tu_view_registry"
tu_text = ('#include "%s/sdk/include/opentelemetry/sdk/metrics/view/view_registry.h"\n' % R.core.REPO)
spec_headers = ("xc_trace_boundary.h",)
force_records = ("nostd::string_view",)
pre_c = r"""
/* Predicate::Match (virtual: exact / pattern / match-everything): a ghost answer per filter, and a record of what each filter was asked about */
int g_ans[5];                       /* 0 instrument name, 1 unit, 2 meter name, 3 version, 4 schema */
unsigned long g_asked[5]; const char *g_asked_data[5];
static void xc_havoc_ghosts(void) { int a0, a1, a2, a3, a4; g_ans[0] = a0; g_ans[1] = a1; g_ans[2] = a2; g_ans[3] = a3; g_ans[4] = a4;
  g_asked[0] = g_asked[1] = g_asked[2] = g_asked[3] = g_asked[4] = 0; g_asked_data[0] = g_asked_data[1] = g_asked_data[2] = g_asked_data[3] = g_asked_data[4] = 0; }
typedef struct xc_pred { int which; } xc_pred;
"""
post_struct_c = r"""
/* a filter is identified by its number (the pointer is never dereferenced: dfcc gives static objects arbitrary contents) */
static const xc_pred *xc_filter(int which) { return (const xc_pred *)(unsigned long)(which + 1); }
static bool xc_pred_Match(const xc_pred *p, string_view s) { int w = (int)(unsigned long)p - 1; __CPROVER_assume(w >= 0 && w < 5); g_asked[w]++; g_asked_data[w] = s.data_; return g_ans[w] != 0; }
"""


def configure(cfg):
    cfg.value_classes |= {"string_view"}
    unp = lambda r: (r["node"] if isinstance(r, dict) and r.get("xc_is_ptr") else r)
    cfg.ext_q["InstrumentSelector::GetNameFilter"] = lambda em, node, recv, args: "xc_filter(0)"
    cfg.ext_q["InstrumentSelector::GetUnitFilter"] = lambda em, node, recv, args: "xc_filter(1)"
    cfg.ext_q["MeterSelector::GetNameFilter"] = lambda em, node, recv, args: "xc_filter(2)"
    cfg.ext_q["MeterSelector::GetVersionFilter"] = lambda em, node, recv, args: "xc_filter(3)"
    cfg.ext_q["MeterSelector::GetSchemaFilter"] = lambda em, node, recv, args: "xc_filter(4)"
    cfg.ext_q["Predicate::Match"] = lambda em, node, recv, args: "xc_pred_Match(%s, %s)" % (em.expr(unp(recv)), em.expr(args[0]))
    cfg.ext_q["InstrumentSelector::GetInstrumentType"] = lambda em, node, recv, args: "(%s)->instrument_type_" % em.expr(unp(recv))
    for n, f in (("GetName", "name_"), ("GetVersion", "version_"), ("GetSchemaURL", "schema_url_")):
        cfg.ext_q["InstrumentationScope::" + n] = (lambda ff: (lambda em, node, recv, args: "(%s).%s" % (em.pexpr_post(unp(recv)) if not (isinstance(recv, dict) and recv.get("xc_is_ptr")) else "(*%s)" % em.expr(unp(recv)), ff)))(f)
    cfg.field_type_override = dict(getattr(cfg, "field_type_override", {}))
    for k in ("InstrumentationScope::name_", "InstrumentationScope::version_", "InstrumentationScope::schema_url_", "InstrumentDescriptor::name_", "InstrumentDescriptor::unit_",
              "InstrumentDescriptor::description_"):
        cfg.field_type_override[k] = "xc_str %s"
    cfg.ext_methods["std::basic_string::size"] = lambda em, recv, args, n: "%s.len" % recv
    cfg.ext_methods["std::__cxx11::basic_string::size"] = lambda em, recv, args, n: "%s.len" % recv


contracts = {
    "ViewRegistry_MatchInstrument": {"pre":
        "__CPROVER_requires(__CPROVER_is_fresh(selector, sizeof(*selector)) && __CPROVER_is_fresh(instrument_descriptor, sizeof(*instrument_descriptor)))\n"
        "__CPROVER_assigns(__CPROVER_object_whole(g_asked), __CPROVER_object_whole(g_asked_data))\n"
        # exactly: name matches the name selector AND unit matches the unit selector AND the instrument type is the selector's type
        "__CPROVER_ensures(__CPROVER_return_value == (g_ans[0] != 0 && g_ans[1] != 0 && selector->instrument_type_ == instrument_descriptor->type_))\n"
        # each filter is asked about the right string
        "__CPROVER_ensures(g_asked[0] >= 1 && g_asked_data[0] == instrument_descriptor->name_.data && (g_asked[1] >= 1 ==> g_asked_data[1] == instrument_descriptor->unit_.data) && g_asked[2] + g_asked[3] + g_asked[4] == 0)\n"},
    "ViewRegistry_MatchMeter": {"pre":
        "__CPROVER_requires(__CPROVER_is_fresh(selector, sizeof(*selector)) && __CPROVER_is_fresh(instrumentation_scope, sizeof(*instrumentation_scope)))\n"
        "__CPROVER_assigns(__CPROVER_object_whole(g_asked), __CPROVER_object_whole(g_asked_data))\n"
        # exactly: the meter name matches, and version / schema URL match unless the scope has none
        "__CPROVER_ensures(__CPROVER_return_value == (g_ans[2] != 0 && (instrumentation_scope->version_.len == 0 || g_ans[3] != 0) && (instrumentation_scope->schema_url_.len == 0 || g_ans[4] != 0)))\n"
        "__CPROVER_ensures(g_asked[2] >= 1 && g_asked_data[2] == instrumentation_scope->name_.data && (g_asked[3] >= 1 ==> g_asked_data[3] == instrumentation_scope->version_.data) && "
        "(g_asked[4] >= 1 ==> g_asked_data[4] == instrumentation_scope->schema_url_.data) && g_asked[0] + g_asked[1] == 0)\n"},
}
proofs = [
    Proof("MatchInstrument", [("ViewRegistry::MatchInstrument", 2)], enforce="ViewRegistry_MatchInstrument", timeout=300,
          desc="a view's instrument selector applies exactly when name, unit and type match"),
    Proof("MatchMeter", [("ViewRegistry::MatchMeter", 2)], enforce="ViewRegistry_MatchMeter", timeout=300,
          desc="a view's meter selector applies exactly when the meter name matches and version / schema URL match unless absent"),
]
trusted = ("Predicate::Match (virtual: exact / regex / everything) as a ghost answer per filter",)
assumptions = ("only ViewRegistry::MatchInstrument and MatchMeter are under contract; the predicates themselves, FindViews' walk over the registered views and the default view, "
               "the instrument name / unit validators (std::regex), view attribute processors and the scope configurators are NOT covered",)
not_covered = ("InstrumentMetaDataValidator (std::regex)", "PatternPredicate (std::regex)", "ViewRegistry::FindViews", "ScopeConfigurator", "provider GetTracer/GetMeter/GetLogger identity")
refuters = {}


def refute_match(mod, proof, violations, ix, workdir, seed):
    """directed native search through the real ViewRegistry::FindViews: every combination of selector / instrument / meter components over small alphabets"""
    import os, re as _re, subprocess
    src = ["sdk/src/metrics/state/filtered_ordered_attribute_map.cc"]
    binpath = R.build_native("c19_native", [os.path.join(R.core.HERE, "replay", "c19_native.cc")] + [os.path.join(R.core.REPO, s) for s in src], ["-O1"])
    full = subprocess.run([binpath, "search"], stdout=subprocess.PIPE, stderr=subprocess.STDOUT, text=True, timeout=300).stdout
    m = _re.findall(r"^FOUND (.*)$", full, _re.M)
    if not m:
        return None
    args = m[-1].split()
    r = R.native_check("c19_native", ["c19_native.cc"], args, ["-O1"], repo_sources=src)
    r["input"] = {"driver_args": args, "meaning": "match <selector: instrument name, unit, type, meter name, version, schema> <actual: instrument name, unit, type, meter name, version, schema>  ('-' = empty)",
                  "found_by": "directed native search (refute mode)"}
    return r if r["reproduced"] else None


refuters = {p.name: refute_match for p in proofs}
