"""Property runner: extraction -> proofs in parallel -> classification -> evidence."""
import concurrent.futures
import hashlib
import json
import os
import re
import shutil
import sys
import time
import traceback

from .xc import cxxast, emit, stdshims
from .xc.cxxast import ExtractionError
from . import prove as P

HERE = os.path.dirname(os.path.abspath(__file__))
ROOT = os.path.abspath(os.path.join(HERE, ".."))
WORK = os.path.abspath(os.environ.get("VERIF_WORK", os.path.join(ROOT, ".work")))
REPO = cxxast.REPO

_INDEX_CACHE = {}


def get_index(tu_name, tu_text, filters=("opentelemetry",)):
    key = (tu_name, hashlib.sha256(tu_text.encode()).hexdigest(), tuple(filters))
    if key not in _INDEX_CACHE:
        roots = cxxast.dump_tu(tu_name, tu_text, filters=filters)
        ix = cxxast.Index(roots)
        # file-scope namespace aliases (namespace trace_api = opentelemetry::trace;) live outside the dumped namespace
        for inc in re.findall(r'#include "(/[^"]+)"', tu_text):
            try:
                src = open(inc).read()
            except OSError:
                continue
            for al, tgt in re.findall(r"namespace\s+(\w+)\s*=\s*(?:::)?opentelemetry::([\w:]+)\s*;", src):
                ix.ns_alias.setdefault(al, tgt)
        _INDEX_CACHE[key] = ix
    return _INDEX_CACHE[key]


class Proof:
    """One verification task = one cbmc run.

    kind 'contract': --enforce-contract on `enforce`, callees in `replace` replaced by their contracts.
    kind 'harness' : `harness` text contains the assertions; callees in `replace` replaced; loops either
                     closed by loop contracts or fully unwound (unwind=N with unwinding assertions).
    level 'deductive' results count as discharged obligations; 'bounded' ones never do.
    """

    def __init__(self, name, roots, enforce=None, replace=(), harness=None, solver="portfolio", unwind=None,
                 tier="quick", level="deductive", bound_note="", timeout=1500, property_level=(".*",),
                 contracts=None, extra_c="", complete_unwind_note="", loop_contracts=True, configure=None,
                 expect_obligations=(), object_bits=None, mem_gb=24, refute=None, replay=None, unwindset=(),
                 desc="", check_flags=()):
        self.name, self.roots, self.enforce, self.replace = name, list(roots), enforce, list(replace)
        self.harness, self.solver, self.unwind, self.tier, self.level = harness, solver, unwind, tier, level
        self.bound_note, self.timeout, self.property_level = bound_note, timeout, tuple(property_level)
        self.contracts = contracts
        self.extra_c = extra_c
        self.complete_unwind_note = complete_unwind_note
        self.loop_contracts = loop_contracts
        self.configure = configure
        self.expect_obligations = tuple(expect_obligations)
        self.object_bits = object_bits
        self.mem_gb = mem_gb
        self.refute = refute        # dict describing how to obtain a counterexample (see refute())
        self.replay = replay
        self.unwindset = tuple(unwindset)
        self.desc = desc
        self.check_flags = tuple(check_flags)


class PropertyModule:
    """Filled by engine/units/cNN.py"""
    prop_id = ""
    tu_name = ""
    tu_text = ""
    spec_headers = ()       # prelude headers with spec macros
    contracts = {}
    proofs = ()
    assumptions = ()
    trusted = ()
    not_covered = ()

    @staticmethod
    def configure(cfg):
        pass


def build_c(mod, proof, ix):
    cfg = stdshims.default_config()
    if not getattr(proof, "own_config", False):      # a proof of a second translation unit may bring its whole boundary configuration
        mod.configure(cfg)
    if proof.configure:
        proof.configure(cfg)
    contracts = dict(mod.contracts)
    if proof.contracts:
        contracts.update(proof.contracts)
    if proof.harness is not None and not proof.loop_contracts and not proof.replace and not proof.enforce:
        # plain (unwound) harness: pure execution semantics of the extracted text, no contract text at all
        contracts = {k: {kk: vv for kk, vv in v.items() if kk == "pragmas"} for k, v in contracts.items()}
    em = emit.Emitter(ix, cfg, contracts)
    root_cnames = []
    for rn in (proof.force_records if getattr(proof, "force_records", None) is not None else getattr(mod, "force_records", ())):
        rec = em.find_record(rn)
        if rec is None:
            raise ExtractionError("record %s not found" % rn)
        em.need_struct(rec)
    for r in proof.roots:
        if isinstance(r, dict):     # slice: {"func": (q, np, sig), "from": var, "to": var, "cname": name}
            f = r["func"]
            qn, d = ix.find_function(f[0], f[1], f[2] if len(f) > 2 else None)
            root_cnames.append(em.need_slice(d, r["from"], r["to"], r["cname"]))
            continue
        if isinstance(r, str):
            r = (r, None)
        q, np = r[0], r[1]
        sig = r[2] if len(r) > 2 else None
        qn, d = ix.find_function(q, np, sig)
        root_cnames.append(em.need_function(d))
    text = [getattr(proof, "defines_c", "") or "", getattr(mod, "defines_c", ""), '#include "xc.h"']
    # a proof may bring its own boundary (second translation unit of a property): spec_headers / pre_c / post_struct_c attributes
    def pm(name, default=""):
        v = getattr(proof, name, None)
        return v if v is not None else getattr(mod, name, default)
    for h in pm("spec_headers", ()):
        text.append('#include "%s"' % h)
    if getattr(proof, "umap", False):
        from .units import common as _common
        text.append(_common.UMAP_C)
    text.append(pm("pre_c"))
    text.append(em.text(mid=pm("post_struct_c")))
    text.append(proof.extra_c)
    if proof.harness is not None:
        text.append(proof.harness)
        entry = "h_" + proof.name
    else:
        fo = em.funcs[proof.enforce]
        entry = "h_" + proof.name
        text.append(auto_harness(entry, fo))
    return "\n".join(text), entry, em


def auto_harness(entry, fo):
    m = re.match(r"^(.*?)\b(\w+)\((.*)\)$", fo.proto, re.S)
    ret, name, plist = m.group(1).strip(), m.group(2), m.group(3).strip()
    decls, args = [], []
    if plist and plist != "void":
        depth = 0
        cur = ""
        parts = []
        for ch in plist:
            if ch in "([":
                depth += 1
            if ch in ")]":
                depth -= 1
            if ch == "," and depth == 0:
                parts.append(cur)
                cur = ""
            else:
                cur += ch
        parts.append(cur)
        for i, p in enumerate(parts):
            p = p.strip()
            mm = re.match(r"^(.*?)(\w+)((\[\w*\])*)$", p)
            t, n, arr = mm.group(1), mm.group(2), mm.group(3)
            t = t.replace("const ", "") if "*" not in t else t
            decls.append("  %s xc_a_%s%s;" % (t.strip(), n, arr))
            args.append("xc_a_" + n)
    call = "%s(%s);" % (name, ", ".join(args))
    return "void %s(void)\n{\n%s\n  xc_havoc_ghosts();\n  %s\n  __CPROVER_assert(0, \"XC_CANARY end of harness reachable\");\n}\n" % (
        entry, "\n".join(decls), call)


_LOOPS = None


def _loops_baseline():
    """engine/loops_baseline.json (tools/gen_loops_baseline.py): loops per extracted function on the unchanged tree"""
    global _LOOPS
    if _LOOPS is None:
        try:
            with open(os.path.join(HERE, "loops_baseline.json")) as f:
                _LOOPS = json.load(f)
        except Exception:
            _LOOPS = {}
    return _LOOPS


def run_one(mod, proof, ix, workdir):
    t0 = time.time()
    out = {"name": proof.name, "level": proof.level, "tier": proof.tier}
    try:
        text, entry, em = build_c(mod, proof, ix)
        out["functions"] = [{"c_name": fo.cname, "source": fo.qual, "line": fo.line, "loops": fo.nloops,
                             "role": ("enforced" if fo.cname == proof.enforce else
                                      "replaced-by-contract" if fo.cname in proof.replace else "inlined")}
                            for fo in em.funcs.values()]
        out["extraction"] = {"rules": dict(em.report), "external_calls": dict(em.used_ext)}
        # a callee that the current code no longer calls is simply not replaced (harmless refactors must not break the check)
        import re as _re
        body_text = "\n".join(fo.body for fo in em.funcs.values())
        declared = set(getattr(mod, "assumed_contracts", {}).keys())
        replace = [r for r in proof.replace if r in em.funcs or (r in declared and _re.search(r"\b%s\(" % _re.escape(r), body_text))]
        out["unused_replacements"] = [r for r in proof.replace if r not in replace]
        # a loop without a loop contract: constant-bound helper loops are unwound completely by cbmc as before; a loop the contracts do not know
        # (the code gained a loop) would be unwound for ever, so the loops OF THE FUNCTIONS CONCERNED are capped at 64 rounds through --unwindset
        # (a global --unwind would also hit the loops of the dfcc instrumentation library). An obligation failing inside that execution prefix fails
        # for real; a failing unwinding assertion alone means "not decided" (see run.py)
        unwind = proof.unwind
        unwindset = tuple(proof.unwindset)
        if proof.loop_contracts and unwind is None and (proof.enforce or proof.replace):
            cdict = dict(mod.contracts)
            if proof.contracts:
                cdict.update(proof.contracts)
            known = _loops_baseline().get(mod.prop_id, {}).get(proof.name)
            uncovered = [fo for fo in em.funcs.values() if fo.cname not in replace and
                         fo.nloops > len(cdict.get(fo.cname, {}).get("loops", {})) and
                         (known is None or fo.nloops > known.get(fo.cname, 0))]
            if uncovered:
                # (dfcc renames the body of the function under contract to <f>_wrapped_for_contract_checking)
                cap = int(getattr(proof, "new_loop_unwind", 64))
                unwindset = unwindset + tuple("%s%s.%d:%d" % (fo.cname, suf, i, cap) for fo in uncovered for i in range(fo.nloops)
                                              for suf in (("", "_wrapped_for_contract_checking") if fo.cname == proof.enforce else ("",)))
                out["loops_without_contract"] = [fo.cname for fo in uncovered]
        res = P.prove(workdir, proof.name, text, entry, enforce=proof.enforce, replace=replace,
                      loop_contracts=proof.loop_contracts, solver=proof.solver, unwind=unwind,
                      timeout=proof.timeout, object_bits=proof.object_bits, mem_gb=proof.mem_gb,
                      unwindset=unwindset, extra_checks=proof.check_flags,
                      unwinding_assertions=not getattr(proof, "no_unwinding_assertions", False))
        out["status"] = "ok"
        out["result"] = res
        out["c_file"] = os.path.join(workdir, proof.name + ".c")
    except ExtractionError as e:
        out["status"] = "extraction-error"
        out["error"] = str(e)
    except P.Undecided as e:
        out["status"] = "undecided"
        out["error"] = str(e)
    except Exception as e:  # defensive: never turn a tool bug into a violation
        out["status"] = "internal-error"
        out["error"] = "%s\n%s" % (e, traceback.format_exc()[-2000:])
    out["wall_s"] = round(time.time() - t0, 2)
    return out
