// Native driver for C09: runs the REAL opentelemetry-cpp code (headers of the current /repo tree) on a
// recorded input and evaluates the property-level oracle. Exit 1 = oracle violated (REPRODUCED), 0 = holds.
#include <cstdio>
#include <cstring>
#include <map>
#include <string>
#include <vector>
#include "opentelemetry/context/context.h"
#include "opentelemetry/trace/default_span.h"
#include "opentelemetry/trace/propagation/http_trace_context.h"

using namespace opentelemetry;

class MapCarrier : public context::propagation::TextMapCarrier
{
public:
  // values are handed out as views onto exact-size heap buffers, so that ASan sees any read past the view
  nostd::string_view Get(nostd::string_view key) const noexcept override
  {
    auto it = h.find(std::string(key));
    if (it == h.end()) return nostd::string_view("");
    char *buf = new char[it->second.size() ? it->second.size() : 1];
    memcpy(buf, it->second.data(), it->second.size());
    bufs.push_back(buf);
    return nostd::string_view(buf, it->second.size());
  }
  mutable std::vector<char *> bufs;
  ~MapCarrier() override { for (char *b : bufs) delete[] b; }
  void Set(nostd::string_view key, nostd::string_view value) noexcept override
  {
    h[std::string(key)] = std::string(value);
    nset++;
  }
  std::map<std::string, std::string> h;
  int nset = 0;
};

static int hexval(char c)
{
  if (c >= '0' && c <= '9') return c - '0';
  if (c >= 'a' && c <= 'f') return c - 'a' + 10;
  if (c >= 'A' && c <= 'F') return c - 'A' + 10;
  return -1;
}
static std::string unhex(const char *s)
{
  std::string o;
  size_t n = strlen(s);
  for (size_t i = 0; i + 1 < n; i += 2) o.push_back(char(hexval(s[i]) * 16 + hexval(s[i + 1])));
  return o;
}
static bool is_ws(char c) { return c == ' ' || (c >= 9 && c <= 13); }

// W3C level-1 shape of [b, b+n) up to hex case (the oracle, written from the property statement)
static bool wf_traceparent(const char *b, size_t n, uint8_t tid[16], uint8_t sid[8], uint8_t *flags)
{
  if (n < 55) return false;
  if (b[2] != '-' || b[35] != '-' || b[52] != '-') return false;
  for (size_t i = 0; i < 55; i++)
    if (i != 2 && i != 35 && i != 52 && hexval(b[i]) < 0) return false;
  int ver = hexval(b[0]) * 16 + hexval(b[1]);
  if (ver == 0xff) return false;
  if (ver == 0 ? n != 55 : !(n == 55 || b[55] == '-')) return false;
  bool tz = true, sz = true;
  for (int i = 0; i < 16; i++) { tid[i] = uint8_t(hexval(b[3 + 2 * i]) * 16 + hexval(b[4 + 2 * i])); tz = tz && tid[i] == 0; }
  for (int i = 0; i < 8; i++) { sid[i] = uint8_t(hexval(b[36 + 2 * i]) * 16 + hexval(b[37 + 2 * i])); sz = sz && sid[i] == 0; }
  *flags = uint8_t(hexval(b[53]) * 16 + hexval(b[54]));
  return !tz && !sz;
}

static int do_flags(int byte)
{
  char out[2];
  trace::TraceFlags(uint8_t(byte)).ToLowerBase16(out);
  const char *lower = "0123456789abcdef";
  bool ok = out[0] == lower[(byte >> 4) & 15] && out[1] == lower[byte & 15];
  printf("flags=0x%02x -> \"%c%c\" expected \"%c%c\" %s\n", byte, out[0], out[1], lower[(byte >> 4) & 15], lower[byte & 15],
         ok ? "ok" : "ORACLE-VIOLATED(not lowercase hex of the flags byte)");
  return ok ? 0 : 1;
}

static int do_inject(const std::string &tid, const std::string &sid, int flags)
{
  trace::SpanContext sc(trace::TraceId(nostd::span<const uint8_t, 16>(reinterpret_cast<const uint8_t *>(tid.data()), 16)),
                        trace::SpanId(nostd::span<const uint8_t, 8>(reinterpret_cast<const uint8_t *>(sid.data()), 8)),
                        trace::TraceFlags(uint8_t(flags)), false);
  nostd::shared_ptr<trace::Span> sp{new trace::DefaultSpan(sc)};
  context::Context ctx;
  ctx = trace::SetSpan(ctx, sp);
  MapCarrier c;
  trace::propagation::HttpTraceContext().Inject(c, ctx);
  const char *lower = "0123456789abcdef";
  if (!sc.IsValid())
  {
    bool ok = c.nset == 0;
    printf("invalid context injected %d headers %s\n", c.nset, ok ? "ok" : "ORACLE-VIOLATED");
    return ok ? 0 : 1;
  }
  std::string exp = "00-";
  for (int i = 0; i < 16; i++) { exp.push_back(lower[(uint8_t(tid[i]) >> 4) & 15]); exp.push_back(lower[uint8_t(tid[i]) & 15]); }
  exp.push_back('-');
  for (int i = 0; i < 8; i++) { exp.push_back(lower[(uint8_t(sid[i]) >> 4) & 15]); exp.push_back(lower[uint8_t(sid[i]) & 15]); }
  exp.push_back('-');
  exp.push_back(lower[(flags >> 4) & 15]);
  exp.push_back(lower[flags & 15]);
  bool ok = c.h["traceparent"] == exp;
  printf("traceparent=\"%s\" expected=\"%s\" %s\n", c.h["traceparent"].c_str(), exp.c_str(), ok ? "ok" : "ORACLE-VIOLATED");
  return ok ? 0 : 1;
}

static int do_extract(const std::string &hdr)
{
  MapCarrier c;
  c.h["traceparent"] = hdr;
  context::Context ctx;
  context::Context out = trace::propagation::HttpTraceContext().Extract(c, ctx);
  auto span         = trace::GetSpan(out);
  trace::SpanContext sc = span->GetContext();
  // oracle: trimmed window
  size_t a = 0, e = hdr.size();
  while (a < e && is_ws(hdr[a])) a++;
  while (e > a && is_ws(hdr[e - 1])) e--;
  uint8_t tid[16], sid[8], fl = 0;
  bool wf = wf_traceparent(hdr.data() + a, e - a, tid, sid, &fl);
  bool ok = true;
  if (sc.IsValid() != wf) ok = false;
  if (sc.IsValid() && wf)
  {
    ok = ok && memcmp(sc.trace_id().Id().data(), tid, 16) == 0 && memcmp(sc.span_id().Id().data(), sid, 8) == 0 &&
         sc.trace_flags().flags() == fl && sc.IsRemote();
  }
  if (!sc.IsValid()) ok = ok && (out == ctx);
  printf("extract valid=%d well-formed=%d %s\n", int(sc.IsValid()), int(wf), ok ? "ok" : "ORACLE-VIOLATED");
  return ok ? 0 : 1;
}

// Directed native search used by refute mode when the verifier's modular proof fails but gives no executable
// counterexample: near-well-formed headers (every position x interesting bytes, lengths 50..58, blanks, versions).
static int do_search()
{
  const std::string base = "00-0af7651916cd43dd8448eb211c80319c-b9c7c989f97918e1-01";
  std::vector<std::string> seeds = {base, "01" + base.substr(2), "fe" + base.substr(2), "ff" + base.substr(2), "cc" + base.substr(2) + "-ext",
                                    "00-00000000000000000000000000000000-b9c7c989f97918e1-01", "00-0af7651916cd43dd8448eb211c80319c-0000000000000000-01",
                                    "00-0AF7651916CD43DD8448EB211C80319C-B9C7C989F97918E1-0A"};
  const int bytes[] = {0, 9, 10, 13, ' ', '-', '/', '0', '1', '9', ':', '@', 'A', 'F', 'G', '`', 'a', 'f', 'g', 'z', 0x7f, 0x80, 0xb0, 0xb4, 0xc1, 0xe6, 0xff};
  std::vector<std::string> cands;
  for (auto &s : seeds)
  {
    cands.push_back(s);
    for (size_t cut = 0; cut <= 6 && cut < s.size(); cut++) cands.push_back(s.substr(0, s.size() - cut));
    for (const char *ext : {"-", "x", "-x", "--", "0", " ", "\t", "-00"}) cands.push_back(s + ext);
    for (const char *ws : {" ", "\t", "  ", "\n"}) { cands.push_back(ws + s); cands.push_back(s + ws); cands.push_back(ws + s + ws); }
    for (size_t i = 0; i < s.size(); i++)
      for (int b : bytes)
      {
        std::string m = s;
        m[i]          = char(b);
        cands.push_back(m);
      }
    for (size_t i = 0; i < s.size(); i++) { std::string m = s; m.erase(i, 1); cands.push_back(m); m = s; m.insert(i, 1, '-'); cands.push_back(m); }
  }
  cands.push_back("");
  cands.push_back(" ");
  cands.push_back("-");
  cands.push_back("---");
  size_t n = 0;
  for (auto &c : cands)
  {
    n++;
    fflush(stdout);
    FILE *save = stdout;
    (void)save;
    // announce the candidate first: if ASan aborts inside Extract the last announced candidate is the input
    printf("CAND ");
    for (unsigned char ch : c) printf("%02x", ch);
    printf("\n");
    fflush(stdout);
    if (do_extract(c) != 0)
    {
      printf("FOUND ");
      for (unsigned char ch : c) printf("%02x", ch);
      printf("\n");
      return 1;
    }
  }
  printf("searched %zu candidate headers, none violates the oracle\n", n);
  return 0;
}

int main(int argc, char **argv)
{
  if (argc >= 2 && !strcmp(argv[1], "search")) return do_search();
  if (argc >= 3 && !strcmp(argv[1], "flags")) return do_flags(int(strtol(argv[2], nullptr, 0)));
  if (argc >= 5 && !strcmp(argv[1], "inject")) return do_inject(unhex(argv[2]), unhex(argv[3]), int(strtol(argv[4], nullptr, 16)));
  if (argc >= 3 && !strcmp(argv[1], "extract")) return do_extract(unhex(argv[2]));
  fprintf(stderr, "usage: flags <byte> | inject <tid hex> <sid hex> <flags hex> | extract <header bytes as hex>\n");
  return 2;
}
