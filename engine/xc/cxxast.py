"""Load a typed clang AST of a translation unit of /repo and index its declarations.

The AST is produced on every run from the current working tree:
    clang++ -fsyntax-only -Xclang -ast-dump=json -Xclang -ast-dump-filter=opentelemetry <tu>
Only declarations inside namespace `opentelemetry` are dumped (std:: stays outside).
"""
import hashlib
import json
import os
import subprocess
import sys

REPO = os.environ.get("VERIF_REPO", "/repo")
WORK = os.environ.get("VERIF_WORK", os.path.join(os.path.dirname(os.path.abspath(__file__)), "..", "..", ".work"))
WORK = os.path.abspath(WORK)

CLANG_FLAGS = [
    "-std=c++17",
    "-fsyntax-only",
    "-w",
    "-DOPENTELEMETRY_ABI_VERSION_NO=1",
    "-DOPENTELEMETRY_HAVE_WORKING_REGEX=1",
    "-I%s/api/include" % REPO,
    "-I%s/sdk/include" % REPO,
    "-I%s/sdk" % REPO,
    "-I%s/ext/include" % REPO,
]


class ExtractionError(Exception):
    """Anything that means 'the extractor could not do its job' (exit 2, never a violation)."""


def _load_all(text):
    dec = json.JSONDecoder()
    i = 0
    out = []
    n = len(text)
    while True:
        while i < n and text[i].isspace():
            i += 1
        if i >= n:
            break
        o, i = dec.raw_decode(text, i)
        out.append(o)
    return out


def dump_tu(name, source_text, extra_flags=(), filters=("opentelemetry",)):
    """Return list of top-level JSON decl nodes for the synthetic TU `source_text` (one clang run per name filter)."""
    os.makedirs(os.path.join(WORK, "ast"), exist_ok=True)
    tu = os.path.join(WORK, "ast", name + ".cc")
    with open(tu, "w") as f:
        f.write(source_text)
    roots = []
    for flt in filters:
        cmd = ["clang++"] + CLANG_FLAGS + list(extra_flags) + [
            "-Xclang", "-ast-dump=json", "-Xclang", "-ast-dump-filter=" + flt, tu]
        p = subprocess.run(cmd, stdout=subprocess.PIPE, stderr=subprocess.PIPE, text=True)
        if p.returncode != 0:
            raise ExtractionError("clang failed on %s:\n%s" % (tu, p.stderr[-4000:]))
        roots += _load_all(p.stdout)
    return roots


OPNAMES = {
    "operator==": "op_eq", "operator!=": "op_ne", "operator[]": "op_index", "operator()": "op_call",
    "operator=": "op_assign", "operator<": "op_lt", "operator>": "op_gt", "operator<=": "op_le",
    "operator>=": "op_ge", "operator*": "op_deref", "operator->": "op_arrow", "operator bool": "op_bool",
    "operator+": "op_add", "operator-": "op_sub", "operator<<": "op_shl", "operator++": "op_inc",
    "operator--": "op_dec", "operator+=": "op_addeq",
}

DECL_SCOPES = ("NamespaceDecl", "CXXRecordDecl", "ClassTemplateSpecializationDecl",
               "ClassTemplatePartialSpecializationDecl", "ClassTemplateDecl", "FunctionTemplateDecl",
               "LinkageSpecDecl")
FUNC_KINDS = ("FunctionDecl", "CXXMethodDecl", "CXXConstructorDecl", "CXXDestructorDecl",
              "CXXConversionDecl")


def targs_of(node):
    out = []
    for c in node.get("inner", []):
        if c.get("kind") == "TemplateArgument":
            if "type" in c:
                out.append((c["type"].get("desugaredQualType") or c["type"]["qualType"]).replace(
                    "opentelemetry::v1::", "").replace("opentelemetry::", ""))
            elif "value" in c:
                out.append(str(c["value"]))
            else:
                # expression-valued argument: look for a constant
                v = None
                for cc in c.get("inner", []):
                    if "value" in cc:
                        v = str(cc["value"])
                out.append(v if v is not None else "?")
    return out


class Index:
    """Index of all declarations of one TU dump."""

    def __init__(self, roots):
        self.roots = roots
        self.by_id = {}
        self.qual = {}          # id -> qualified name (without opentelemetry::v1::)
        self.parent = {}        # id -> parent decl id
        self.funcs = {}         # qualified name -> [decl nodes having a body]
        self.records = {}       # qualified name -> record decl node (complete definition)
        self.vars = {}          # qualified name -> VarDecl
        self.enums = {}
        self.typedefs = {}      # qualified name -> underlying type dict
        self.ns_alias = {}      # namespace alias name -> aliased namespace name
        for r in roots:
            self._walk(r, [], None)
        # second pass: out-of-line method definitions
        for r in roots:
            self._walk_ool(r)

    def _scope_name(self, n):
        k = n.get("kind")
        name = n.get("name", "")
        if k == "NamespaceDecl":
            if name in ("opentelemetry",) or n.get("isInline"):
                return None
            return name or "anon"
        if k in ("ClassTemplateSpecializationDecl",):
            return name + "<" + ", ".join(targs_of(n)) + ">"
        if k in ("ClassTemplateDecl", "FunctionTemplateDecl", "LinkageSpecDecl"):
            return None
        return name

    def _walk(self, n, path, parent_id):
        k = n.get("kind")
        nid = n.get("id")
        if nid:
            self.by_id[nid] = n
            self.parent[nid] = parent_id
        if k in DECL_SCOPES:
            sn = self._scope_name(n)
            npath = path + [sn] if sn else path
            if k in ("CXXRecordDecl", "ClassTemplateSpecializationDecl") and n.get("completeDefinition"):
                q = "::".join(npath)
                # the filtered dump may print a record more than once (abbreviated copies): keep the fullest one
                prev = self.records.get(q)
                if prev is None or len(n.get("inner", [])) + len(n.get("bases", [])) >= len(prev.get("inner", [])) + len(prev.get("bases", [])):
                    self.records[q] = n
                self.qual[nid] = q
            elif k in ("CXXRecordDecl", "ClassTemplateSpecializationDecl"):
                self.qual.setdefault(nid, "::".join(npath))
            for c in n.get("inner", []):
                self._walk(c, npath, nid)
            return
        if k in FUNC_KINDS:
            name = n.get("name", "")
            ta = targs_of(n)
            if ta and parent_id and self.by_id.get(parent_id, {}).get("kind") == "FunctionTemplateDecl":
                name = name + "<" + ", ".join(ta) + ">"
            if "parentDeclContextId" not in n:
                q = "::".join(path + [name])
                self.qual[nid] = q
                if any(c.get("kind") == "CompoundStmt" for c in n.get("inner", [])) or n.get("isImplicit") \
                        or n.get("explicitlyDefaulted"):
                    self.funcs.setdefault(q, []).append(n)
            # index everything below (params, locals, lambdas)
            for c in n.get("inner", []):
                self._walk(c, path + [name], nid)
            return
        if k == "NamespaceAliasDecl":
            tgt = n.get("aliasedNamespace", {}).get("name")
            if tgt:
                self.ns_alias[n.get("name")] = tgt
        if k == "VarDecl":
            q = "::".join(path + [n.get("name", "")])
            self.qual[nid] = q
            self.vars.setdefault(q, n)
        if k == "EnumDecl":
            ename = n.get("name")
            epath = path + [ename] if (ename and n.get("scopedEnumTag")) else path
            if ename:
                self.qual[nid] = "::".join(path + [ename])
            val = 0
            for c in n.get("inner", []):
                if c.get("kind") == "EnumConstantDecl":
                    self.by_id[c["id"]] = c
                    self.qual[c["id"]] = "::".join(epath + [c["name"]])
                    v = _const_value(c)
                    if v is not None:
                        val = v
                    self.enums[c["id"]] = val
                    val += 1
            return
        if k in ("FieldDecl", "ParmVarDecl", "TypedefDecl", "TypeAliasDecl"):
            self.qual[nid] = "::".join(path + [n.get("name", "")])
            if k in ("TypedefDecl", "TypeAliasDecl") and "type" in n:
                self.typedefs.setdefault("::".join(path + [n.get("name", "")]), n["type"])
        for c in n.get("inner", []):
            if isinstance(c, dict):
                self._walk(c, path, nid if k and k.endswith("Decl") else parent_id)

    def _walk_ool(self, n):
        k = n.get("kind")
        if k in FUNC_KINDS and "parentDeclContextId" in n:
            pid = n["parentDeclContextId"]
            pq = self.qual.get(pid)
            if pq is not None:
                q = pq + "::" + n.get("name", "")
                self.qual[n["id"]] = q
                self.parent[n["id"]] = pid
                if any(c.get("kind") == "CompoundStmt" for c in n.get("inner", [])):
                    self.funcs.setdefault(q, []).append(n)
        if k in DECL_SCOPES or k in FUNC_KINDS:
            for c in n.get("inner", []):
                if isinstance(c, dict) and c.get("kind", "").endswith("Decl"):
                    self._walk_ool(c)

    # ------------------------------------------------------------------
    def definition_of(self, decl_id):
        """Follow a declaration id to the declaration with a body (same qualified name+type)."""
        d = self.by_id.get(decl_id)
        if d is None:
            return None
        if any(c.get("kind") == "CompoundStmt" for c in d.get("inner", [])):
            return d
        q = self.qual.get(decl_id)
        if q is None:
            return d
        for cand in self.funcs.get(q, []):
            if cand.get("type", {}).get("qualType") == d.get("type", {}).get("qualType") or \
                    cand.get("previousDecl") == decl_id:
                return cand
        return d

    def lookup_by_name_sig(self, name, qualtype):
        """a function referenced from another clang run of the same TU (ids differ between runs)"""
        hits = []
        for q, lst in self.funcs.items():
            if q.split("::")[-1] == name:
                for d in lst:
                    if d.get("type", {}).get("qualType") == qualtype:
                        hits.append(d)
        return hits[0] if len(hits) == 1 else None

    def find_function(self, qname, nparams=None, sig=None):
        """Locate exactly one function definition. qname matches as a '::'-suffix."""
        cands = []
        for q, lst in self.funcs.items():
            if q == qname or q.endswith("::" + qname):
                for d in lst:
                    np = sum(1 for c in d.get("inner", []) if c.get("kind") == "ParmVarDecl")
                    if nparams is not None and np != nparams:
                        continue
                    if sig is not None and sig not in d.get("type", {}).get("qualType", "").replace(
                            "opentelemetry::v1::", "").replace("opentelemetry::", ""):
                        continue
                    cands.append((q, d))
        # drop duplicates (same node seen twice)
        seen = set()
        uniq = []
        for q, d in cands:
            if d["id"] not in seen:
                seen.add(d["id"])
                uniq.append((q, d))
        if len(uniq) != 1:
            raise ExtractionError("locator: %d candidates for %s/%s sig=%s: %s" % (
                len(uniq), qname, nparams, sig, [(q, d.get("type", {}).get("qualType")) for q, d in uniq]))
        return uniq[0]

    def record_of_method(self, decl):
        pid = decl.get("parentDeclContextId") or self.parent.get(decl["id"])
        while pid is not None:
            p = self.by_id.get(pid)
            if p is None:
                return None
            if p.get("kind") in ("CXXRecordDecl", "ClassTemplateSpecializationDecl"):
                return p
            pid = self.parent.get(pid)
        return None


def _const_value(n):
    """Best-effort integer constant of an expression subtree (ConstantExpr carries 'value')."""
    if not isinstance(n, dict):
        return None
    if n.get("kind") in ("ConstantExpr", "IntegerLiteral") and "value" in n:
        try:
            return int(n["value"])
        except ValueError:
            return None
    for c in n.get("inner", []):
        v = _const_value(c)
        if v is not None:
            return v
    return None


def body_of(decl):
    for c in decl.get("inner", []):
        if c.get("kind") == "CompoundStmt":
            return c
    return None


def params_of(decl):
    return [c for c in decl.get("inner", []) if c.get("kind") == "ParmVarDecl"]


def source_sha(decl):
    return hashlib.sha256(json.dumps(_strip_locs(decl), sort_keys=True).encode()).hexdigest()[:16]


def _strip_locs(n):
    if isinstance(n, dict):
        return {k: _strip_locs(v) for k, v in n.items() if k not in ("id", "loc", "range", "previousDecl",
                                                                      "parentDeclContextId", "referencedMemberDecl")
                and not (k == "referencedDecl")}
    if isinstance(n, list):
        return [_strip_locs(x) for x in n]
    return n
