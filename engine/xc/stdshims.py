"""Default shim tables: how calls that leave namespace opentelemetry (libc, std::) are emitted."""
from .emit import Config, CT, ExtractionError, strip_ns, split_targs, sanitize

SUFFIX = {"unsigned long": "ul", "long": "l", "int": "i", "unsigned int": "u", "double": "d",
          "size_t": "ul", "uint64_t": "ul", "int64_t": "l", "uint32_t": "u", "int32_t": "i"}


def _minmax(which):
    def h(em, node, recv, args):
        t = em.ctype(node["type"])
        if t.is_ref:
            t = t.pointee()
        suf = SUFFIX.get(t.base)
        if suf is None:
            raise ExtractionError("std::%s on unsupported type %s" % (which, t.base))
        return "xc_%s_%s(%s, %s)" % (which, suf, em.expr(args[0]), em.expr(args[1]))
    return h


def _all_any_of(kind):
    def h(em, node, recv, args):
        lam = em._find_lambda(args[2])
        if lam is None:
            raise ExtractionError("std::%s with a non-lambda predicate" % kind)
        li = em.lambda_info(lam, None)
        it = em.ctype(args[0]["type"])
        name = "xc_%s__%s" % (kind, li["cname"])
        caps = li["captures"]
        if name not in em.funcs:
            cap_params = "".join(", " + c["ctype"].decl("xc_cap_" + c["name"]) for c in caps)
            cap_args = "".join("xc_cap_%s, " % c["name"] for c in caps)
            lc = em.contracts.get(name, {}).get("loops", {}).get(1, "")
            pre = em.contracts.get(name, {}).get("pre", "")
            neg = "!" if kind == "all_of" else ""
            early = "false" if kind == "all_of" else "true"
            late = "true" if kind == "all_of" else "false"
            from .emit import FuncOut
            fo = FuncOut(name, {"kind": "shim"})
            fo.proto = "bool %s(%s, %s%s)" % (name, it.decl("first"), it.decl("last"), cap_params)
            fo.body = ("%s\n%s{\n  for (; first != last; ++first)\n%s  {\n    if (%s%s(%s*first))\n      return %s;\n  }\n  return %s;\n}\n"
                       % (fo.proto, pre + ("\n" if pre else ""), (lc.rstrip() + "\n") if lc else "", neg, li["cname"], cap_args, early, late))
            fo.nloops = 1
            fo.qual = "std::%s<%s> (shim template, trusted)" % (kind, li["cname"])
            em.funcs[name] = fo
            em.report["std::%s instantiated as a C loop over the lambda" % kind] += 1
        cap_call = "".join(", " + em.capture_arg(c) for c in caps)
        return "%s(%s, %s%s)" % (name, em.expr(args[0]), em.expr(args[1]), cap_call)
    return h


def _passthrough(cname):
    return cname


def _std_array(em, base, targs, name):
    if base == "std::array" and targs:
        inner = em._ctype(targs[0])
        return CT(inner.base, inner.ptr, inner.dims + (targs[1],))
    return None


def default_config():
    cfg = Config()
    for f in ("memset", "memcpy", "memcmp", "strlen", "memchr", "memmove", "strcmp", "strncmp", "abort",
              "malloc", "free", "calloc"):
        cfg.ext[f] = f
    for f in ("isspace", "isdigit", "islower", "isupper", "isalpha", "isalnum", "toupper", "tolower"):
        cfg.ext[f] = "xc_" + f
    cfg.ext["min"] = _minmax("min")
    cfg.ext["max"] = _minmax("max")
    cfg.ext["all_of"] = _all_any_of("all_of")
    cfg.ext["any_of"] = _all_any_of("any_of")
    cfg.ext["terminate"] = lambda em, node, recv, args: "XC_THROW()"
    cfg.ext["__assert_fail"] = lambda em, node, recv, args: "xc_assert_fail()"
    cfg.ext["move"] = lambda em, node, recv, args: em.expr(args[0])
    cfg.ext["forward"] = lambda em, node, recv, args: em.expr(args[0])
    cfg.type_handlers.append(_std_array)
    cfg.ext_methods["std::array::data"] = lambda em, recv, args, n: recv
    cfg.ext_methods["std::array::operator[]"] = lambda em, recv, args, n: "%s[%s]" % (recv, em.expr(args[0]))
    cfg.ext_methods["std::array::size"] = lambda em, recv, args, n: "(sizeof(%s)/sizeof(%s[0]))" % (recv, recv)
    return cfg
