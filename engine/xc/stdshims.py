"""Default shim tables: how calls that leave namespace opentelemetry (libc, std::) are emitted."""
from .emit import Config, CT, ExtractionError, strip_ns, split_targs, sanitize

SUFFIX = {"unsigned long": "ul", "long": "l", "int": "i", "unsigned int": "u", "double": "d",
          "size_t": "ul", "uint64_t": "ul", "int64_t": "l", "uint32_t": "u", "int32_t": "i"}


NUMLIM = {("max", "long"): "INT64_MAX", ("min", "long"): "INT64_MIN", ("lowest", "long"): "INT64_MIN",
          ("max", "double"): "DBL_MAX", ("min", "double"): "DBL_MIN", ("lowest", "double"): "(-DBL_MAX)",
          ("max", "unsigned long"): "UINT64_MAX", ("min", "unsigned long"): "0UL", ("max", "int"): "INT32_MAX", ("min", "int"): "INT32_MIN",
          ("max", "unsigned int"): "UINT32_MAX", ("min", "unsigned int"): "0U",
          ("infinity", "double"): "((double)INFINITY)", ("quiet_NaN", "double"): "((double)NAN)", ("epsilon", "double"): "DBL_EPSILON"}


def _numlim(which):
    def h(em, node, recv, args):
        t = em.ctype(node["type"])
        v = NUMLIM.get((which, t.base))
        if v is None:
            raise ExtractionError("std::numeric_limits<%s>::%s not mapped" % (t.base, which))
        em.report["std::numeric_limits constants mapped to <stdint.h>/<float.h>"] += 1
        return v
    return h


def _minmax(which):
    def h(em, node, recv, args):
        if not args:
            return _numlim(which)(em, node, recv, args)
        t = em.ctype(node["type"])
        if t.is_ref:
            t = t.pointee()
        suf = SUFFIX.get(t.base)
        if suf is None:
            raise ExtractionError("std::%s on unsupported type %s" % (which, t.base))
        return "xc_%s_%s(%s, %s)" % (which, suf, em.expr(args[0]), em.expr(args[1]))
    return h


def _all_any_of(kind):
    def h(em, node, recv, args):
        lam = em._find_lambda(args[2])
        if lam is None:
            raise ExtractionError("std::%s with a non-lambda predicate" % kind)
        li = em.lambda_info(lam, None)
        it = em.ctype(args[0]["type"])
        name = "xc_%s__%s" % (kind, li["cname"])
        caps = li["captures"]
        if name not in em.funcs:
            cap_params = "".join(", " + c["ctype"].decl("xc_cap_" + c["name"]) for c in caps)
            cap_args = "".join("xc_cap_%s, " % c["name"] for c in caps)
            lc = em.contracts.get(name, {}).get("loops", {}).get(1, "")
            pre = em.contracts.get(name, {}).get("pre", "")
            neg = "!" if kind == "all_of" else ""
            early = "false" if kind == "all_of" else "true"
            late = "true" if kind == "all_of" else "false"
            from .emit import FuncOut
            fo = FuncOut(name, {"kind": "shim"})
            fo.proto = "bool %s(%s, %s%s)" % (name, it.decl("first"), it.decl("last"), cap_params)
            fo.body = ("%s\n%s{\n  for (; first != last; ++first)\n%s  {\n    if (%s%s(%s*first))\n      return %s;\n  }\n  return %s;\n}\n"
                       % (fo.proto, pre + ("\n" if pre else ""), (lc.rstrip() + "\n") if lc else "", neg, li["cname"], cap_args, early, late))
            fo.nloops = 1
            fo.qual = "std::%s<%s> (shim template, trusted)" % (kind, li["cname"])
            em.funcs[name] = fo
            em.report["std::%s instantiated as a C loop over the lambda" % kind] += 1
        cap_call = "".join(", " + em.capture_arg(c) for c in caps)
        return "%s(%s, %s%s)" % (name, em.expr(args[0]), em.expr(args[1]), cap_call)
    return h


def _std_equal(em, node, recv, args):
    """std::equal(first1, last1, first2) over char pointers: a C loop (shim template, trusted)"""
    it = em.ctype(args[0]["type"])
    if it.base != "char" or it.ptr != 1:
        raise ExtractionError("std::equal over %s not supported" % it.text())
    name = "xc_equal_cc"
    if name not in em.funcs:
        from .emit import FuncOut
        lc = em.contracts.get(name, {}).get("loops", {}).get(1, "")
        pre = em.contracts.get(name, {}).get("pre", "")
        fo = FuncOut(name, {"kind": "shim"})
        fo.proto = "bool %s(const char *first1, const char *last1, const char *first2)" % name
        fo.body = ("%s\n%s{\n  for (; first1 != last1; ++first1, ++first2)\n%s  {\n    if (!(*first1 == *first2))\n      return false;\n  }\n  return true;\n}\n"
                   % (fo.proto, pre + ("\n" if pre and not pre.endswith("\n") else ""), (lc.rstrip() + "\n") if lc else ""))
        fo.nloops = 1
        fo.qual = "std::equal<const char*, const char*> (shim template, trusted)"
        em.funcs[name] = fo
        em.report["std::equal instantiated as a C loop"] += 1
    return "%s(%s, %s, %s)" % (name, em.expr(args[0]), em.expr(args[1]), em.expr(args[2]))


def _strlen(em, node, recv, args):
    a = em._strip_all(args[0])
    if a.get("kind") == "StringLiteral":
        import ast as _ast
        lit = a["value"]
        try:
            n = len(_ast.literal_eval(lit).encode("latin-1"))
            if "\\0" not in lit and "\\x00" not in lit:
                em.report["strlen of a string literal folded to a constant"] += 1
                return "%dUL" % n
        except Exception:
            pass
    return "xc_strlen(%s)" % em.expr(args[0])


def _memcmp(em, node, recv, args):
    n = _const_of(args[2], em)
    if n is not None and 0 < n <= 64:
        name = "xc_memcmp_%d" % n
        if name not in em.shim_text:
            body = "".join("  if (a[%d] != b[%d]) return a[%d] < b[%d] ? -1 : 1;\n" % (i, i, i, i) for i in range(n))
            em.shim_text[name] = ("/* memcmp with constant size %d, unrolled (C standard semantics: unsigned char comparison) */\n"
                                  "static int %s(const void *pa, const void *pb)\n{\n  const unsigned char *a = pa, *b = pb;\n%s  return 0;\n}\n"
                                  % (n, name, body))
            em.report["memcmp with constant size unrolled"] += 1
        return "%s(%s, %s)" % (name, em.expr(args[0]), em.expr(args[1]))
    return "memcmp(%s, %s, %s)" % tuple(em.expr(a) for a in args)


def _const_of(n, em=None):
    from .cxxast import _const_value
    k = n.get("kind")
    if k in ("ImplicitCastExpr", "ParenExpr", "CStyleCastExpr", "CXXStaticCastExpr", "CXXFunctionalCastExpr", "ConstantExpr"):
        return _const_of(n["inner"][0], em)
    if k == "IntegerLiteral":
        return int(n["value"])
    if k == "DeclRefExpr" and em is not None:
        d = em.ix.by_id.get(n["referencedDecl"]["id"])
        if d is not None and d.get("kind") == "VarDecl" and (d.get("constexpr") or d["type"].get("qualType", "").startswith("const ")):
            init = [c for c in d.get("inner", []) if isinstance(c, dict) and c.get("kind") and not c["kind"].endswith("Attr")]
            if init:
                v = _const_value(init[0])
                return v
        return None
    if k == "UnaryExprOrTypeTraitExpr":
        return None
    return None


def _passthrough(cname):
    return cname


def _std_array(em, base, targs, name):
    if base == "std::array" and targs:
        inner = em._ctype(targs[0])
        return CT(inner.base, inner.ptr, inner.dims + (targs[1],))
    return None


def _str_ctor(em, node, args):
    if len(args) == 1:
        t = em.ctype(args[0]["type"])
        if t.base == "xc_str":
            return em.expr(args[0])
    raise ExtractionError("std::string construction with %d args not supported here" % len(args))


def _atomic_type(em, base, targs, name):
    if base in ("std::atomic", "std::__atomic_base") and targs:
        em.report["std::atomic<T> fields laid out as plain T (atomicity dropped; sequential semantics)"] += 1
        return em._ctype(targs[0])
    return None


def _swap(em, node, recv, args):
    t = em.ctype(args[0]["type"])
    if t.is_ref:
        t = t.pointee()
    em.report["std::swap turned into a three-assignment swap"] += 1
    return "XC_SWAP(%s, %s, %s)" % (t.text(), em.expr(args[0]), em.expr(args[1]))


def _delete(em, n):
    em.report["delete / delete[] turned into xc_delete (free + ghost counter of destructions)"] += 1
    return "xc_delete((void *)(%s))" % em.expr(n["inner"][0])


def _trait_value(em, n):
    """std::is_array<T>::value inside a member of a class template specialisation X<T>: evaluated from X's argument"""
    rec = em.ix.record_of_method(em.cur["decl"])
    q = em.ix.qual.get(rec["id"], "") if rec is not None else ""
    if "<" not in q:
        raise ExtractionError("std:: trait ::value outside a class template specialisation")
    targ = q[q.index("<") + 1:q.rindex(">")].strip()
    em.report["std::is_array<T>::value evaluated from the specialisation argument"] += 1
    return "1" if targ.endswith("[]") or targ.endswith("]") else "0"


def default_config():
    cfg = Config()
    for f in ("memset", "memcpy", "memcmp", "strlen", "memchr", "memmove", "strcmp", "strncmp", "abort",
              "malloc", "free", "calloc"):
        cfg.ext[f] = f
    for f in ("memcpy", "memset", "memcmp", "memmove", "strlen"):
        cfg.ext["__builtin_" + f] = cfg.ext.get(f, f)
    for f in ("isspace", "isdigit", "islower", "isupper", "isalpha", "isalnum", "toupper", "tolower"):
        cfg.ext[f] = "xc_" + f
    cfg.ext["min"] = _minmax("min")
    cfg.ext["max"] = _minmax("max")
    for w in ("lowest", "infinity", "quiet_NaN", "epsilon"):
        cfg.ext[w] = _numlim(w)
    cfg.ext["all_of"] = _all_any_of("all_of")
    cfg.ext["any_of"] = _all_any_of("any_of")
    cfg.ext["equal"] = _std_equal
    cfg.ext["var:value"] = _trait_value
    cfg.ext["var:npos"] = "((unsigned long)-1)"      # std::string::npos
    cfg.ext["compare"] = "xc_traits_compare"
    cfg.ext["lexicographical_compare"] = "xc_lex_compare_cc"
    cfg.ext["find"] = "xc_traits_find"
    cfg.ext["swap"] = _swap
    cfg.ext["delete"] = _delete
    for f in ("fmin", "fmax", "fabs", "floor", "ceil", "round", "trunc", "sqrt"):
        cfg.ext[f] = (lambda fn: (lambda em, node, recv, args: "%s(%s)" % (fn, ", ".join("(double)(%s)" % em.expr(a) for a in args))))(f)
    cfg.ext["strlen"] = _strlen
    cfg.ext["memcmp"] = _memcmp
    cfg.ext["terminate"] = lambda em, node, recv, args: "XC_THROW()"
    cfg.ext["__assert_fail"] = lambda em, node, recv, args: "xc_assert_fail()"
    cfg.ext["move"] = lambda em, node, recv, args: em.expr(args[0])
    cfg.ext["forward"] = lambda em, node, recv, args: em.expr(args[0])
    cfg.type_handlers.append(_std_array)
    cfg.type_map["std::char_traits<char>::char_type"] = "char"
    cfg.type_map["std::char_traits<char>::int_type"] = "int"
    cfg.type_handlers.append(_atomic_type)
    cfg.ctor_ext["std::atomic"] = lambda em, node, args: (em.expr(args[0]) if args else "0")
    for n in ("std::string", "std::basic_string<char>", "std::basic_string", "std::__cxx11::basic_string"):
        cfg.type_map[n] = "xc_str"
    for n in ("std::basic_string", "std::__cxx11::basic_string"):
        cfg.ext_methods[n + "::empty"] = lambda em, recv, args, n: "(%s.len == 0)" % recv
        cfg.ext_methods[n + "::size"] = lambda em, recv, args, n: "%s.len" % recv
        cfg.ext_methods[n + "::length"] = lambda em, recv, args, n: "%s.len" % recv
        cfg.ext_methods[n + "::c_str"] = lambda em, recv, args, n: "%s.data" % recv
        cfg.ext_methods[n + "::data"] = lambda em, recv, args, n: "%s.data" % recv
        cfg.ctor_ext[n] = _str_ctor
    cfg.ext_methods["std::array::data"] = lambda em, recv, args, n: recv
    cfg.ext_methods["std::array::operator[]"] = lambda em, recv, args, n: "%s[%s]" % (recv, em.expr(args[0]))
    cfg.ext_methods["std::array::size"] = lambda em, recv, args, n: "(sizeof(%s)/sizeof(%s[0]))" % (recv, recv)
    return cfg
