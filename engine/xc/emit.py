"""AST -> C emitter: mechanical extraction of real opentelemetry-cpp function bodies into C.

Input: clang's typed JSON AST of the *current* /repo sources (cxxast.Index).
Output: C text for a requested set of functions plus everything they reference
(record layouts from FieldDecls, constants from their initialisers, callees).

What the emitter drops or replaces is counted in `self.report` and ends up in the evidence:
  * namespaces, access specifiers, inline/constexpr/noexcept/override/static, attributes
  * references become pointers (or by-value for const refs to small value classes)
  * trivial copy/move constructions become struct copies
  * template instantiations are taken from clang's instantiated bodies
  * lambdas become C functions; by-reference captures become pointer parameters
  * a callee taking a nostd::function_ref is specialised per lambda argument
  * calls into std:: / libc go through the shim table (engine/prelude) and are listed
Anything outside the supported subset raises ExtractionError (exit 2, never a violation).
"""
import collections
import os
import sys
import re

from .cxxast import (ExtractionError, FUNC_KINDS, OPNAMES, body_of, params_of, targs_of, _const_value)

# ---------------------------------------------------------------------------------------------
# types


class CT:
    """A C type: base text + pointer depth + array dims; is_ref marks an emitted-as-pointer ref."""

    def __init__(self, base, ptr=0, dims=(), is_ref=False, const=False, cxx=""):
        self.base, self.ptr, self.dims, self.is_ref, self.const, self.cxx = base, ptr, tuple(dims), is_ref, const, cxx

    def decl(self, name):
        s = ("const " if self.const and self.ptr else "") + self.base + " " + "*" * self.ptr + name
        for d in self.dims:
            s += "[%s]" % d
        return s

    def text(self):
        return self.decl("").rstrip()

    def pointee(self):
        return CT(self.base, self.ptr - 1, self.dims, False, self.const, self.cxx)

    def pointer_to(self):
        return CT(self.base, self.ptr + 1, self.dims, False, self.const, self.cxx)


SCALARS = {
    "bool": "bool", "_Bool": "bool", "char": "char", "signed char": "signed char", "unsigned char": "unsigned char",
    "short": "short", "unsigned short": "unsigned short", "int": "int", "unsigned int": "unsigned int",
    "long": "long", "unsigned long": "unsigned long", "long long": "long long",
    "unsigned long long": "unsigned long long", "float": "float", "double": "double", "void": "void",
    "size_t": "size_t", "std::size_t": "size_t", "uint8_t": "uint8_t", "int8_t": "int8_t",
    "uint16_t": "uint16_t", "int16_t": "int16_t", "uint32_t": "uint32_t", "int32_t": "int32_t",
    "uint64_t": "uint64_t", "int64_t": "int64_t", "ptrdiff_t": "ptrdiff_t", "std::ptrdiff_t": "ptrdiff_t",
    "uintptr_t": "uintptr_t", "long double": "long double", "std::nullptr_t": "void *", "nullptr_t": "void *",
}


def strip_ns(s):
    s = s.replace("opentelemetry::v1::", "").replace("opentelemetry::", "")
    s = re.sub(r"\b(struct|class|enum) ", "", s)
    return s.strip()


def split_targs(s):
    """'a<b, c<d, e>>' -> ('a', ['b', 'c<d, e>'])"""
    i = s.find("<")
    if i < 0 or not s.endswith(">"):
        return s, None
    name = s[:i]
    body = s[i + 1:-1]
    args, depth, cur = [], 0, ""
    for ch in body:
        if ch in "<([":
            depth += 1
        elif ch in ">)]":
            depth -= 1
        if ch == "," and depth == 0:
            args.append(cur.strip())
            cur = ""
        else:
            cur += ch
    if cur.strip():
        args.append(cur.strip())
    return name, args


def q_matches(q, suf):
    """qualified-name suffix match; a suffix without template arguments also matches an instantiation"""
    if q == suf or q.endswith("::" + suf):
        return True
    if "<" not in suf and q.endswith(">"):
        depth = 0
        for i in range(len(q) - 1, -1, -1):
            if q[i] == ">":
                depth += 1
            elif q[i] == "<":
                depth -= 1
                if depth == 0:
                    q0 = q[:i]
                    if q0 == suf or q0.endswith("::" + suf):
                        return True
                    break
    if "<" not in suf and "<" in q:
        # every template argument list removed (a member template of a class template: C<T>::f<U>)
        out, depth = [], 0
        for ch in q:
            if ch == "<":
                depth += 1
            elif ch == ">":
                depth -= 1
            elif depth == 0:
                out.append(ch)
        q1 = "".join(out)
        return q1 == suf or q1.endswith("::" + suf)
    return False


def lconst(s):
    """strip a leading (top-level) const only"""
    s = s.strip()
    while s.startswith("const "):
        s = s[6:].strip()
    return s


def sanitize(s):
    s = strip_ns(s)
    s = s.replace("unsigned long", "ul").replace("unsigned char", "u8").replace("const ", "c")
    s = re.sub(r"[^A-Za-z0-9_]+", "_", s).strip("_")
    return s


class Config:
    """Per-run extraction configuration (tables only; no per-line patterns)."""

    def __init__(self):
        self.type_map = {}        # normalised C++ type name (no template args unless exact) -> C base type text
        self.type_handlers = []   # callables (emitter, name, targs) -> CT or None
        self.value_classes = set()  # record names whose const methods take self by value
        self.ext = {}             # unindexed callee name -> C name or callable(em, node, args)
        self.ext_q = {}           # indexed (opentelemetry) qualified-name suffix -> C name or callable (boundary shims)
        self.ext_methods = {}     # "std::array::data" -> callable(em, recv_str, args, node)
        self.cnames = {}          # qualified-name suffix[/nparams] -> forced C name
        self.opaque_records = {}  # record qualified-name suffix -> C type text (not laid out from fields)
        self.ctor_ext = {}        # record name -> callable(em, node, args) for constructions of shimmed classes
        self.keep_asserts = True
        self.drop_calls = set()   # callee names whose call statements are dropped (logging)
        self.field_type_override = {}  # "Record::field" -> C decl text template using %s for the name


# ---------------------------------------------------------------------------------------------


class FuncOut:
    def __init__(self, cname, decl):
        self.cname, self.decl = cname, decl
        self.proto = ""
        self.body = ""
        self.nloops = 0
        self.qual = ""
        self.sha = ""
        self.file = ""
        self.line = 0
        self.loop_kinds = []


class Emitter:
    def __init__(self, index, cfg, contracts=None):
        self.ix = index
        self.cfg = cfg
        self.contracts = contracts or {}     # cname -> {"pre": str, "loops": {ordinal: str}, "ghost": {...}}
        self.structs = collections.OrderedDict()
        self.struct_state = {}
        self.consts = collections.OrderedDict()
        self.funcs = collections.OrderedDict()
        self.in_progress = set()
        self.report = collections.Counter()
        self.shim_text = collections.OrderedDict()   # generated helper functions (all_of instantiations, ...)
        self.lambda_names = {}    # closure record id -> (cname, captures)
        self.cur = None           # current function context
        self.used_ext = collections.Counter()

    # ------------------------------------------------------------------ types
    def ctype(self, t, allow_ref=True):
        if isinstance(t, dict):
            s = t.get("desugaredQualType") or t.get("qualType")
            s0 = t.get("qualType")
        else:
            s = s0 = t
        try:
            return self._ctype(s)
        except ExtractionError:
            if s0 != s:
                return self._ctype(s0)
            raise

    def _ctype(self, s):
        s = s.strip()
        cxx = s
        const = False
        # trailing qualifiers
        while True:
            if s.endswith(" const"):
                s = s[:-6].strip(); const = True; continue
            if s.endswith("*const"):
                s = s[:-5].strip(); continue
            if s.endswith(" volatile"):
                s = s[:-9].strip(); continue
            break
        m = re.match(r"^(.*) \(&&?\)\[(\d+)\]$", s)
        if m:
            # reference to array: passed as pointer to the first element (decay); uses need no deref
            inner = self._ctype(m.group(1))
            self.report["array-reference parameters passed as element pointers"] += 1
            return CT(inner.base, inner.ptr + 1, inner.dims, False, inner.const, cxx)
        if s.endswith("&&"):
            inner = self._ctype(s[:-2])
            return self._ref_of(inner, cxx)
        if s.endswith("&"):
            inner = self._ctype(s[:-1])
            return self._ref_of(inner, cxx)
        if s.endswith("*"):
            inner = self._ctype(s[:-1])
            return CT(inner.base, inner.ptr + 1, inner.dims, False, inner.const, cxx)
        m = re.match(r"^(.*)\[(\d+)\]$", s)
        if m:
            inner = self._ctype(m.group(1))
            return CT(inner.base, inner.ptr, inner.dims + (m.group(2),), False, inner.const, cxx)
        m = re.match(r"^(.*)\(\*\)\((.*)\)( noexcept.*)?$", s)
        if m:
            raise ExtractionError("function pointer type not supported: " + s)
        if s.startswith("const "):
            s = s[6:].strip(); const = True
        if s.startswith("volatile "):
            s = s[9:].strip()
        name = strip_ns(s)
        for al, tgt in self.ix.ns_alias.items():
            name = re.sub(r"(?<![\w:])%s::" % re.escape(al), tgt + "::", name)
        if name in SCALARS:
            return CT(SCALARS[name], const=const, cxx=cxx)
        if name in self.cfg.type_map:
            return CT(self.cfg.type_map[name], const=const, cxx=cxx)
        base, targs = split_targs(name)
        for h in self.cfg.type_handlers:
            r = h(self, base, targs, name)
            if r is not None:
                r.const = r.const or const
                r.cxx = cxx
                return r
        if base in self.cfg.type_map and targs is not None:
            return CT(self.cfg.type_map[base], const=const, cxx=cxx)
        for suf, ctext in self.cfg.opaque_records.items():
            if name == suf or name.endswith("::" + suf):
                return CT(ctext, const=const, cxx=cxx)
        rec = self.find_record(name)
        if rec is not None:
            return CT(self.need_struct(rec), const=const, cxx=cxx)
        en = self.find_enum(name)
        if en is not None:
            return CT("int", const=const, cxx=cxx)
        for q, ut in self.ix.typedefs.items():
            if q == name or q.endswith("::" + name) or (("<" in q) and name.endswith("::" + q)):
                r = self.ctype(ut)
                r.const = r.const or const
                return r
        raise ExtractionError("unmapped type: %r" % cxx)

    def _ref_of(self, inner, cxx):
        return CT(inner.base, inner.ptr + 1, inner.dims, True, inner.const, cxx)

    def find_enum(self, name):
        for nid, q in self.ix.qual.items():
            n = self.ix.by_id.get(nid)
            if n is not None and n.get("kind") == "EnumDecl" and (q == name or q.endswith("::" + name)):
                return n
        return None

    def find_record(self, name):
        name = name.replace(" ", "")
        hits = []
        for q, r in self.ix.records.items():
            qq = q.replace(" ", "")
            if qq == name or qq.endswith("::" + name) or ("<" in qq and name.endswith("::" + qq)):
                hits.append((q, r))
        if not hits:
            return None
        if len(hits) > 1:
            # prefer exact match, then shortest
            exact = [h for h in hits if h[0].replace(" ", "") == name]
            if len(exact) == 1:
                return exact[0][1]
            hits.sort(key=lambda h: len(h[0]))
        return hits[0][1]

    def record_cname(self, rec):
        q = self.ix.qual.get(rec["id"], rec.get("name", "anon"))
        for suf, forced in self.cfg.cnames.items():
            if q == suf or q.endswith("::" + suf):
                return forced
        last = q.split("::")[-1] if "<" not in q else q[q.rfind("::", 0, q.find("<")) + 2:] if "::" in q[:q.find("<")] else q
        return sanitize(last)

    def need_struct(self, rec):
        cname = self.record_cname(rec)
        st = self.struct_state.get(cname)
        if st == "done" or st == "busy":
            return cname
        self.struct_state[cname] = "busy"
        fields = []
        q = self.ix.qual.get(rec["id"], "")
        for b in rec.get("bases", []):
            try:
                bt = self.ctype(b["type"])
            except ExtractionError:
                self.report["base classes of unmapped (std::) type dropped from record layouts"] += 1
                continue
            brec = self.find_record(strip_ns(b["type"].get("desugaredQualType") or b["type"]["qualType"]))
            if brec is not None and any(c.get("kind") == "FieldDecl" for c in brec.get("inner", [])):
                fields.append(bt.decl("base_%s" % bt.base))
        for c in rec.get("inner", []):
            if c.get("kind") == "FieldDecl":
                key = "%s::%s" % (rec.get("name"), c["name"])
                if key in self.cfg.field_type_override:
                    fields.append(self.cfg.field_type_override[key] % c["name"])
                    continue
                try:
                    ft = self.ctype(c["type"])
                except ExtractionError:
                    # a member the extracted code never touches directly: laid out as an opaque byte (any access fails to compile)
                    self.report["fields of unmapped type laid out as xc_opaque"] += 1
                    fields.append("xc_opaque " + c["name"])
                    continue
                if ft.is_ref:
                    ft = CT(ft.base, ft.ptr, ft.dims, False, ft.const)
                fields.append(ft.decl(c["name"]))
        if not fields:
            fields.append("char xc_empty_")
        selfref = any(re.search(r"\b%s\s*\*" % re.escape(cname), f) for f in fields)
        text = ("typedef struct %s %s;\nstruct %s {\n%s};\n" % (cname, cname, cname, "".join("  %s;\n" % f for f in fields))) if selfref else \
            "typedef struct %s {\n%s} %s;\n" % (cname, "".join("  %s;\n" % f for f in fields), cname)
        self.structs[cname] = text
        self.struct_state[cname] = "done"
        self.report["record layouts generated from FieldDecls"] += 1
        return cname

    # ------------------------------------------------------------------ names
    def func_cname(self, decl):
        q = self.ix.qual.get(decl["id"], decl.get("name"))
        np = len(params_of(decl))
        sig = decl.get("type", {}).get("qualType", "").replace("opentelemetry::v1::", "").replace("opentelemetry::", "")
        for suf, sub, forced in getattr(self.cfg, "cnames_sig", ()):
            if (q == suf or q.endswith("::" + suf)) and sub in sig:
                return forced
        for key in ("%s/%d" % (q, np), q):
            for suf, forced in self.cfg.cnames.items():
                if key == suf or key.endswith("::" + suf):
                    return forced
        parts = q.split("::")
        name = parts[-1]
        kind = decl.get("kind")
        rec = self.ix.record_of_method(decl) if kind != "FunctionDecl" else None
        base = name
        m = re.match(r"^(operator[^<]*?)(<.*>)?$", name) if name.startswith("operator") else None
        if kind == "CXXConstructorDecl":
            base = "ctor"
        elif kind == "CXXDestructorDecl":
            base = "dtor"
        elif kind == "CXXConversionDecl":
            base = "conv_" + sanitize(name.replace("operator", ""))
        elif name in OPNAMES:
            base = OPNAMES[name]
        elif name.startswith("operator") and strip_ns(name.split("<")[0]) in OPNAMES and name.endswith(">"):
            base = OPNAMES[name.split("<")[0]]
        else:
            base = sanitize(name)
        prefix = (self.record_cname(rec) + "_") if rec is not None else ""
        cname = prefix + base
        # overloads: add arity when another definition shares the qualified name
        others = [d for d in self.ix.funcs.get(q, []) if d["id"] != decl["id"]]
        if kind == "CXXConstructorDecl" or others:
            cname += "_%d" % np
            same = [d for d in others if len(params_of(d)) == np]
            if same:
                sig = "_".join(sanitize(p["type"].get("qualType", "")) for p in params_of(decl))
                cname += "_" + sig
        return cname

    # ------------------------------------------------------------------ functions
    def self_mode(self, decl):
        """'value' | 'ptr' | None for a function decl."""
        if decl.get("kind") == "FunctionDecl":
            return None
        if decl.get("storageClass") == "static":
            return None
        rec = self.ix.record_of_method(decl)
        if rec is None:
            return None
        if self.is_lambda_rec(rec):
            return None
        if decl.get("kind") == "CXXConstructorDecl":
            return "ctor"
        is_const = re.search(r"\) const", decl.get("type", {}).get("qualType", "")) is not None
        if is_const and self.record_cname(rec) in self.cfg.value_classes:
            return "value"
        return "ptr"

    @staticmethod
    def is_lambda_rec(rec):
        return bool(rec is not None and rec.get("definitionData", {}).get("isLambda"))

    def need_function(self, decl, spec=None):
        """Make sure `decl` (a definition) is emitted; returns its C name.
        spec: optional dict param-name -> lambda info for function_ref specialisation."""
        cname = self.func_cname(decl)
        if spec:
            cname += "__" + "_".join(li["cname"] for li in spec.values())
        if cname in self.funcs or cname in self.in_progress:
            return cname
        if body_of(decl) is None and not (decl.get("isImplicit") or decl.get("explicitlyDefaulted")):
            raise ExtractionError("no body for %s" % self.ix.qual.get(decl["id"], decl.get("name")))
        self.in_progress.add(cname)
        saved = self.cur
        try:
            fo = self._emit_function(decl, cname, spec or {})
        finally:
            self.cur = saved
            self.in_progress.discard(cname)
        self.funcs[cname] = fo
        return cname

    # ------------------------------------------------------------------ slices
    def need_slice(self, decl, first_var, last_var, cname):
        """Extract the top-level statements of `decl` from the declaration of first_var up to and including the declaration of
        last_var as a C function. Variables of the enclosing function used in the slice become pointer parameters (in/out);
        variables declared by the slice are exported through out-parameters xc_out_<name>."""
        if cname in self.funcs:
            return cname
        body = body_of(decl)

        def declares(st, name):
            return st.get("kind") == "DeclStmt" and any(v.get("kind") == "VarDecl" and v.get("name") == name for v in st.get("inner", []))

        def find_compound(n):
            """innermost compound statement whose direct children declare first_var"""
            hits = []
            if n.get("kind") == "CompoundStmt" and any(declares(st, first_var) for st in n.get("inner", [])):
                hits.append(n)
            for c in n.get("inner", []):
                if isinstance(c, dict) and c.get("kind") != "LambdaExpr":
                    hits += find_compound(c)
            return hits
        comps = find_compound(body)
        if len(comps) != 1:
            raise ExtractionError("slice anchor %s found in %d compound statements of %s" % (first_var, len(comps), cname))
        stmts = comps[0].get("inner", [])
        a = [i for i, st in enumerate(stmts) if declares(st, first_var)]
        excl = last_var.startswith("<")       # "<name": up to, but excluding, the declaration of name
        to_end = last_var == "$return"        # through the end of the function: the slice returns the function's value
        if last_var.startswith("#"):          # "#N": N statements starting at the first anchor
            a0 = [i for i, st in enumerate(stmts) if declares(st, first_var)]
            b = [a0[0] + int(last_var[1:]) - 1] if len(a0) == 1 else []
            if b and b[0] >= len(stmts):
                b = []
        else:
            b = [i for i, st in enumerate(stmts) if declares(st, last_var.lstrip("<"))] if not to_end else [len(stmts) - 1]
        if len(a) != 1 or len(b) != 1 or a[0] > b[0]:
            raise ExtractionError("slice anchors %s..%s not found exactly once in %s" % (first_var, last_var, cname))
        sl = stmts[a[0]:b[0] + (0 if excl else 1)]
        declared = {}
        for st in sl:
            if st.get("kind") == "DeclStmt":
                for v in st.get("inner", []):
                    if v.get("kind") == "VarDecl":
                        if "(lambda at " in (v.get("type", {}).get("qualType", "")):
                            continue      # a lambda object: it becomes a C function, there is no value to export
                        declared[v["id"]] = v
        inner_ids = set()
        free = collections.OrderedDict()

        def walk(n):
            if not isinstance(n, dict):
                return
            if n.get("kind") == "VarDecl":
                inner_ids.add(n["id"])
            if n.get("kind") == "DeclRefExpr":
                r = n["referencedDecl"]
                if r.get("kind") in ("ParmVarDecl", "VarDecl") and r["id"] not in inner_ids and r["id"] in self.ix.by_id \
                        and not self._is_global_var(self.ix.by_id[r["id"]]):
                    free.setdefault(r["id"], self.ix.by_id[r["id"]])
            for c in n.get("inner", []):
                walk(c)
        for st in sl:
            walk(st)
        fo = FuncOut(cname, decl)
        fo.qual = self.ix.qual.get(decl["id"], decl.get("name")) + " [slice %s..%s]" % (first_var, last_var)
        fo.line = sl[0].get("range", {}).get("begin", {}).get("line", 0) or decl.get("loc", {}).get("line", 0)
        rec = self.ix.record_of_method(decl)
        ctx = {"decl": decl, "cname": cname, "loop": 0, "spec": {}, "refs": {}, "self": "ptr", "ret_ref": False, "lambda_caps": None,
               "tmp": 0, "fo": fo, "byval_refs": set(), "rt": self.ctype(self._return_type_str(decl)) if to_end else CT("void")}
        saved = self.cur
        self.cur = ctx
        try:
            params = ["%s *self" % self.need_struct(rec)] if rec is not None else []
            for vid, v in list(free.items()):
                if "(lambda at " in (v.get("type", {}).get("qualType", "")):
                    del free[vid]         # a closure object (or a library parameter bound to one): not a value of the slice
                    continue
                vt = self.ctype(v["type"])
                if vt.is_ref:
                    vt = vt.pointee()
                params.append(vt.pointer_to().decl(v["name"]) if not vt.dims else vt.decl(v["name"]))
                if not vt.dims:
                    ctx["refs"][vid] = True
            outs = []
            for vid, v in declared.items():
                vt = self.ctype(v["type"])
                if vt.is_ref or vt.dims:
                    continue
                # a const local is exported through a pointer to non-const (the slice writes it exactly once, at its end)
                params.append(CT(vt.base, vt.ptr + 1, vt.dims, False, vt.const and vt.ptr > 0, vt.cxx).decl("xc_out_" + v["name"]))
                outs.append(v["name"])
            lines = [self.stmt(st, 1) for st in sl]
            if to_end:
                outs = []
                params = [p_ for p_ in params if " *xc_out_" not in p_ and "*xc_out_" not in p_]
            for o in outs:
                lines.append("  *xc_out_%s = %s;" % (o, o))
            contract = self.contracts.get(cname, {})
            pre = contract.get("pre", "")
            fo.proto = "%s(%s)" % (ctx["rt"].decl(cname), ", ".join(params) if params else "void")
            fo.nloops = ctx["loop"]
            fo.body = fo.proto + "\n" + pre + ("\n" if pre and not pre.endswith("\n") else "") + "{\n" + "\n".join(l for l in lines if l) + "\n}\n"
            self.report["function slices extracted (free variables become in/out pointer parameters)"] += 1
        finally:
            self.cur = saved
        self.funcs[cname] = fo
        return cname

    def _emit_function(self, decl, cname, spec):
        fo = FuncOut(cname, decl)
        fo.qual = self.ix.qual.get(decl["id"], decl.get("name"))
        loc = decl.get("loc", {})
        fo.line = loc.get("line") or loc.get("expansionLoc", {}).get("line") or 0
        ctx = {"decl": decl, "cname": cname, "loop": 0, "spec": spec, "refs": {}, "self": None,
               "ret_ref": False, "lambda_caps": None, "tmp": 0, "fo": fo, "byval_refs": set()}
        self.cur = ctx
        mode = self.self_mode(decl)
        params = []
        rec = self.ix.record_of_method(decl) if decl.get("kind") != "FunctionDecl" else None
        if mode in ("value", "ptr"):
            rc = self.need_struct(rec)
            is_const = ") const" in decl.get("type", {}).get("qualType", "")
            if mode == "value":
                params.append("%s self" % rc)
            else:
                params.append("%s%s *self" % ("const " if is_const else "", rc))
            ctx["self"] = mode
        extra_caps = []
        for p in params_of(decl):
            pname = p.get("name") or "xc_unnamed%d" % len(params)
            if pname in spec:
                # function_ref parameter bound to a lambda: pass the lambda's captures instead
                for cap in spec[pname]["captures"]:
                    params.append(cap["ctype"].decl("xc_cap_%s_%s" % (pname, cap["name"])))
                continue
            pt = self.ctype(p["type"])
            if pt.is_ref:
                if self._byvalue_ref(pt):
                    pt = pt.pointee()
                    ctx["byval_refs"].add(p["id"])
                    self.report["const-ref parameters passed by value"] += 1
                else:
                    ctx["refs"][p["id"]] = True
                    self.report["reference parameters turned into pointers"] += 1
            params.append(pt.decl(pname))
        # lambda operator(): captures become leading parameters
        if rec is not None and self.is_lambda_rec(rec):
            li = self.lambda_names.get(rec["id"])
            if li:
                caps = [c["ctype"].decl(("xc_cp_" if c["byref"] else "") + c["name"]) for c in li["captures"]]
                params = caps + params
                ctx["lambda_caps"] = {c["var_id"]: c for c in li["captures"] if c["var_id"] is not None}
                if any(c["name"] == "self" and c["var_id"] is None for c in li["captures"]):
                    ctx["self"] = "ptr"
        # return type
        qt = decl.get("type", {}).get("qualType", "")
        if decl.get("kind") == "CXXConstructorDecl":
            rt = CT(self.need_struct(rec))
        elif decl.get("kind") == "CXXDestructorDecl":
            rt = CT("void")
        else:
            rts = self._return_type_str(decl)
            rt = self.ctype(rts)
            if rt.is_ref and mode == "value":
                # const accessor of a value class returning a reference to a member: return the member by value
                rt = rt.pointee()
                self.report["reference-returning accessors of value classes returning by value"] += 1
            elif rt.is_ref:
                ctx["ret_ref"] = True
        ctx["rt"] = rt
        proto = "%s(%s)" % (rt.decl(cname), ", ".join(params) if params else "void")
        fo.proto = proto
        # body
        lines = []
        if decl.get("kind") == "CXXConstructorDecl":
            rc = self.need_struct(rec)
            lines.append("  %s xc_self;" % rc)
            lines.append("  %s *self = &xc_self;" % rc)
            ctx["self"] = "ptr"
            lines += self._ctor_inits(decl, rec)
        body = body_of(decl)
        if body is not None:
            stmts = body.get("inner", [])
            for si, s in enumerate(stmts):
                if si == len(stmts) - 1 and s.get("kind") == "ReturnStmt":
                    g = self.ghost("before_return", "last", 1)
                    if g:
                        lines.append(g)
                lines.append(self.stmt(s, 1))
        if decl.get("kind") == "CXXConstructorDecl":
            lines.append("  return xc_self;")
        contract = self.contracts.get(cname, {})
        pre = contract.get("pre", "")
        missing = set(contract.get("ghost", {}).keys()) - ctx.get("ghost_fired", set())
        if missing:
            raise ExtractionError("ghost splice point(s) %s not found in %s" % (sorted(map(str, missing)), cname))
        fo.nloops = ctx["loop"]
        want = set(contract.get("loops", {}).keys())
        if want and max(want) > fo.nloops:
            raise ExtractionError("loop contract for loop %d of %s but function has %d loops" % (
                max(want), cname, fo.nloops))
        fo.body = proto + "\n" + pre + ("\n" if pre and not pre.endswith("\n") else "") + "{\n" + "\n".join(
            l for l in lines if l is not None and l != "") + "\n}\n"
        prag = contract.get("pragmas")
        if prag:
            fo.body = "#pragma CPROVER check push\n" + "".join("#pragma CPROVER check %s\n" % p for p in prag) + \
                fo.body + "#pragma CPROVER check pop\n"
            self.report["check pragmas applied (see assumptions)"] += len(prag)
        return fo

    def _return_type_str(self, decl):
        qt = decl["type"]["qualType"]
        # return type = text before the parameter list parenthesis at depth 0
        depth = 0
        for i, ch in enumerate(qt):
            if ch == "<":
                depth += 1
            elif ch == ">":
                depth -= 1
            elif ch == "(" and depth == 0:
                r = qt[:i].strip()
                break
        else:
            r = qt
        if r == "auto" or "auto" in r.split():
            # deduced return: take from a return statement
            t = self._find_return_type(body_of(decl))
            if t is None:
                return "void"
            return t
        d = decl["type"].get("desugaredQualType")
        if d:
            depth = 0
            for i, ch in enumerate(d):
                if ch == "<":
                    depth += 1
                elif ch == ">":
                    depth -= 1
                elif ch == "(" and depth == 0:
                    return d[:i].strip()
        return r

    def _find_return_type(self, n):
        if n is None:
            return None
        if n.get("kind") == "ReturnStmt":
            inner = n.get("inner", [])
            if inner:
                return inner[0]["type"].get("desugaredQualType") or inner[0]["type"]["qualType"]
            return "void"
        if n.get("kind") == "LambdaExpr":
            return None
        for c in n.get("inner", []):
            if isinstance(c, dict):
                r = self._find_return_type(c)
                if r:
                    return r
        return None

    def _byvalue_ref(self, pt):
        """const T& where T is a scalar or a small value class: pass by value."""
        if not pt.const:
            return False
        if pt.ptr != 1 or pt.dims:
            return False
        return pt.base in SCALARS.values() or pt.base in self.cfg.value_classes

    def _ctor_inits(self, decl, rec):
        lines = []
        inited = set()
        for c in decl.get("inner", []):
            if c.get("kind") != "CXXCtorInitializer":
                continue
            if "anyInit" in c:
                f = c["anyInit"]
                fname = f["name"]
                inited.add(fname)
                inner = c.get("inner", [])
                if not inner:
                    continue
                lines += self._init_field("self->" + fname, f, inner[0])
            elif "baseInit" in c:
                self.report["base-class initialisers dropped"] += 1
            elif "delegatingInit" in c and c.get("inner"):
                self.report["delegating constructors turned into assignment of the delegate's result"] += 1
                lines.append("  *self = %s;" % self.expr(c["inner"][0]))
            else:
                raise ExtractionError("unsupported ctor initialiser in %s" % decl.get("name"))
        # fields with in-class default initialisers not mentioned
        for c in rec.get("inner", []):
            if c.get("kind") == "FieldDecl" and c["name"] not in inited and c.get("hasInClassInitializer"):
                init = [x for x in c.get("inner", []) if isinstance(x, dict) and "kind" in x and x.get("kind") != "FullComment"]
                if init:
                    lines += self._init_field("self->" + c["name"], c, init[0])
        return lines

    def _init_field(self, lhs, field, init):
        ft = self.ctype(field["type"])
        k = init.get("kind")
        if k == "CXXDefaultInitExpr":
            fd = self.ix.by_id.get(field["id"])
            init2 = [x for x in (fd or {}).get("inner", []) if isinstance(x, dict) and "kind" in x]
            if not init2:
                raise ExtractionError("default member initialiser not found for " + field["name"])
            return self._init_field(lhs, field, init2[0])
        if ft.dims:
            return self._array_init_stmts(lhs, init, ft)
        return ["  %s = %s;" % (lhs, self.expr(init))]

    @staticmethod
    def unrolled(pad, start, n, fmt):
        """generated (not extracted) fixed-count initialisation, fully unrolled so that no loop is added"""
        n = int(n)
        if n - start > 256:
            raise ExtractionError("generated initialisation of %d elements is too large to unroll" % n)
        return "\n".join(pad + fmt % {"i": i} for i in range(start, n))

    def _array_init_stmts(self, lhs, init, ft):
        """element-wise initialisation of an array field from {a, b, ...} with value-initialised rest"""
        k = init.get("kind")
        n = ft.dims[0]
        if k == "ImplicitValueInitExpr":
            return [self.unrolled("  ", 0, n, lhs + "[%(i)d] = 0;")]
        if k == "InitListExpr":
            listed = [self.expr(c) for c in init.get("inner", [])]
            filler = "0"
            for c in init.get("array_filler", []) or []:
                if c.get("kind") and c["kind"] != "ImplicitValueInitExpr":
                    filler = self.expr(c)
            out = ["  %s[%d] = %s;" % (lhs, i, v) for i, v in enumerate(listed)]
            out.append(self.unrolled("  ", len(listed), n, lhs + "[%(i)d] = " + filler.replace("%", "%%") + ";"))
            return out
        raise ExtractionError("unsupported array initialiser: %s" % k)

    # ------------------------------------------------------------------ statements
    def stmt(self, n, ind):
        k = n.get("kind")
        pad = "  " * ind
        if k == "CompoundStmt":
            inner = [self.stmt(c, ind + 1) for c in n.get("inner", [])]
            return pad + "{\n" + "\n".join(x for x in inner if x) + "\n" + pad + "}"
        if k == "NullStmt":
            return pad + ";"
        if k == "DeclStmt":
            return "\n".join(x for x in (self.vardecl(c, ind) for c in n.get("inner", [])) if x)
        if k == "ReturnStmt":
            inner = n.get("inner", [])
            if not inner:
                return pad + "return;"
            if self.cur["ret_ref"]:
                return pad + "return &(%s);" % self.lvalue(inner[0])
            return pad + "return %s;" % self.expr(inner[0])
        if k == "IfStmt":
            parts = list(n.get("inner", []))
            if n.get("hasInit") or n.get("hasVar"):
                raise ExtractionError("if with init/var not supported")
            cond = self.expr(parts[0])
            s = pad + "if (%s)\n%s" % (cond, self.block(parts[1], ind))
            if n.get("hasElse") and len(parts) > 2:
                s += "\n" + pad + "else\n" + self.block(parts[2], ind)
            return s
        if k == "ForStmt":
            init, condvar, cond, inc, body = (n["inner"] + [None] * 5)[:5]
            self.cur["loop"] += 1
            lc = self.loop_contract(self.cur["loop"])
            self.cur["fo"].loop_kinds.append("for")
            si = ""
            pre = ""
            if init and init.get("kind"):
                if init["kind"] == "DeclStmt":
                    pre = self.stmt(init, ind + 1)
                else:
                    si = self.expr(init)
            sc = self.expr(cond) if cond and cond.get("kind") else ""
            sn = self.expr(inc) if inc and inc.get("kind") else ""
            gh = self.ghost(self.cur_loop_id(), "body_start", ind + 2)
            body_s = self.block(body, ind + 1, prepend=gh)
            if pre:
                return pad + "{\n" + pre + "\n" + pad + "  for (%s; %s; %s)\n%s%s\n" % (si, sc, sn, lc, body_s) + pad + "}"
            return pad + "for (%s; %s; %s)\n%s%s" % (si, sc, sn, lc, body_s)
        if k == "WhileStmt":
            parts = n["inner"]
            self.cur["loop"] += 1
            lc = self.loop_contract(self.cur["loop"])
            self.cur["fo"].loop_kinds.append("while")
            gh = self.ghost(self.cur_loop_id(), "body_start", ind + 1)
            cond = self.expr(parts[0])
            return pad + "while (%s)\n%s%s" % (cond, lc, self.block(parts[-1], ind, prepend=gh))
        if k == "DoStmt" and self._is_internal_log(n):
            # OTEL_INTERNAL_LOG_*: do { if (level > GlobalLogHandler::GetLogLevel()) break; ... Handle(...); } while (false)
            self.report["internal diagnostic logging statements (OTEL_INTERNAL_LOG_* macro expansions) dropped"] += 1
            return pad + "/* internal log statement dropped */;"
        if k == "DoStmt":
            body, cond = n["inner"][0], n["inner"][1]
            self.cur["loop"] += 1
            lc = self.loop_contract(self.cur["loop"])
            self.cur["fo"].loop_kinds.append("do")
            bs = self.block(body, ind)
            return pad + "do\n%s%s\n%swhile (%s);" % (lc, bs, pad, self.expr(cond))
        if k == "CXXForRangeStmt":
            return self.range_for(n, ind)
        if k == "BreakStmt":
            return pad + "break;"
        if k == "ContinueStmt":
            return pad + "continue;"
        if k == "SwitchStmt":
            parts = [c for c in n["inner"] if c.get("kind")]
            return pad + "switch (%s)\n%s" % (self.expr(parts[0]), self.block(parts[-1], ind))
        if k == "CaseStmt":
            parts = n["inner"]
            s = pad + "case %s:" % self.expr(parts[0])
            return s + "\n" + self.stmt(parts[-1], ind + 1)
        if k == "DefaultStmt":
            return pad + "default:\n" + self.stmt(n["inner"][0], ind + 1)
        if k == "CXXTryStmt":
            raise ExtractionError("try/catch not supported")
        if getattr(self.cfg, "throw_mode", "unreachable") == "record" and self._is_throw_stmt(n):
            self.report["throw / std::terminate turned into a recorded abrupt exit (g_thrown)"] += 1
            rt = self.cur["rt"]
            if rt.text() == "void":
                return pad + "{ g_thrown = 1; return; }"
            return pad + "{ g_thrown = 1; %s; return xc_r; }" % rt.decl("xc_r")
        if k == "ExprWithCleanups" or k.endswith("Expr") or k.endswith("Operator") or k.endswith("Literal"):
            if self.is_dropped_call(n):
                self.report["dropped statements (logging / instrumentation)"] += 1
                return pad + "/* dropped: %s */;" % self.dropped_name(n)
            e = self.expr(n)
            if e == "":
                return ""
            return pad + e + ";"
        raise ExtractionError("unsupported statement kind %s" % k)

    def _is_throw_stmt(self, n):
        while n.get("kind") in ("ExprWithCleanups", "ParenExpr"):
            n = n["inner"][0]
        if n.get("kind") == "CXXThrowExpr":
            return True
        if n.get("kind") == "CallExpr":
            return self._callee_name(n["inner"][0]) == "terminate"
        return False

    def block(self, n, ind, prepend=""):
        if n is None or not n.get("kind"):
            return "  " * (ind + 1) + ";"
        if n.get("kind") == "CompoundStmt":
            inner = [self.stmt(c, ind + 1) for c in n.get("inner", [])]
            if prepend:
                inner = [prepend] + inner
            pad = "  " * ind
            return pad + "{\n" + "\n".join(x for x in inner if x) + "\n" + pad + "}"
        pad = "  " * ind
        inner = [self.stmt(n, ind + 1)]
        if prepend:
            inner = [prepend] + inner
        return pad + "{\n" + "\n".join(x for x in inner if x) + "\n" + pad + "}"

    def cur_loop_id(self):
        return self.cur["loop"]

    def loop_contract(self, ordinal):
        c = self.contracts.get(self.cur["cname"], {}).get("loops", {}).get(ordinal)
        return (c.rstrip() + "\n") if c else ""

    def ghost(self, ordinal, where, ind):
        g = self.contracts.get(self.cur["cname"], {}).get("ghost", {}).get((ordinal, where))
        if not g:
            return ""
        self.cur.setdefault("ghost_fired", set()).add((ordinal, where))
        self.report["ghost statements spliced (write ghost variables only)"] += 1
        return "  " * ind + "XC_GHOST(" + g + ")"

    def _var_written(self, root, vid):
        """is the variable assigned, incremented or address-taken anywhere under root (lambda bodies included)?"""
        def refs(x):
            x = self._strip_all(x) if isinstance(x, dict) and x.get("kind") else x
            return isinstance(x, dict) and x.get("kind") == "DeclRefExpr" and x.get("referencedDecl", {}).get("id") == vid

        def walk(x):
            if not isinstance(x, dict):
                return False
            k = x.get("kind")
            inner = x.get("inner", [])
            if k in ("BinaryOperator", "CompoundAssignOperator") and (k == "CompoundAssignOperator" or x.get("opcode", "").endswith("=") and x.get("opcode") not in ("==", "!=", "<=", ">=")) and inner and refs(inner[0]):
                return True
            if k == "UnaryOperator" and x.get("opcode") in ("++", "--", "&") and inner and refs(inner[0]):
                return True
            return any(walk(c) for c in inner)
        return walk(root)

    def _is_internal_log(self, n):
        def has(x):
            if isinstance(x, dict):
                if x.get("kind") == "DeclRefExpr" and x.get("referencedDecl", {}).get("name") == "GetLogLevel":
                    return True
                return any(has(c) for c in x.get("inner", []))
            return False
        return has(n)

    def is_dropped_call(self, n):
        return self.dropped_name(n) is not None

    def dropped_name(self, n):
        # unwrap
        while n.get("kind") in ("ExprWithCleanups", "CXXBindTemporaryExpr", "ImplicitCastExpr", "ParenExpr"):
            n = n["inner"][0]
        if n.get("kind") in ("CallExpr", "CXXMemberCallExpr"):
            callee = n["inner"][0]
            nm = self._callee_name(callee)
            if nm in self.cfg.drop_calls:
                return nm
        return None

    def _callee_name(self, c):
        while c.get("kind") in ("ImplicitCastExpr", "ParenExpr"):
            c = c["inner"][0]
        if c.get("kind") == "DeclRefExpr":
            return c["referencedDecl"].get("name")
        if c.get("kind") == "MemberExpr":
            return c.get("name")
        return None

    def vardecl(self, v, ind):
        r = self._vardecl(v, ind)
        if v.get("kind") == "VarDecl":
            g = self.ghost("after_decl", v.get("name"), ind)
            if g:
                r = (r + "\n" if r else "") + g
        return r

    def _vardecl(self, v, ind):
        pad = "  " * ind
        k = v.get("kind")
        if k in ("StaticAssertDecl", "TypedefDecl", "TypeAliasDecl", "UsingDecl", "EmptyDecl"):
            return ""
        if k == "CXXRecordDecl":
            return ""   # closure types etc.
        if k != "VarDecl":
            raise ExtractionError("unsupported declaration %s" % k)
        name = v["name"]
        init = [c for c in v.get("inner", []) if isinstance(c, dict) and c.get("kind") and not c["kind"].endswith("Attr")]
        tn = lconst(strip_ns(v["type"].get("desugaredQualType") or v["type"].get("qualType", "")))
        if split_targs(tn)[0] in getattr(self.cfg, "drop_types", ()):
            self.report["declarations of %s dropped (mutual exclusion assumed, see assumptions)" % split_targs(tn)[0]] += 1
            return "  " * ind + "/* dropped: %s %s */" % (split_targs(tn)[0], name)
        # lambda object
        if init and self._strip(init[0]).get("kind") == "LambdaExpr":
            self.lambda_info(self._strip(init[0]), name)
            self.cur.setdefault("lambda_vars", {})[v["id"]] = self._strip(init[0])
            self.report["lambda objects turned into C functions"] += 1
            return ""
        if v.get("storageClass") == "static" or v.get("constexpr"):
            # function-local static/constexpr constant: emit as local const with its initialiser
            pass
        vt = self.ctype(v["type"])
        if vt.is_ref:
            if not init:
                raise ExtractionError("reference without initialiser")
            s0 = self._strip(init[0])
            if init[0].get("valueCategory") == "prvalue" or s0.get("valueCategory") == "prvalue" or \
                    any(x.get("kind") == "MaterializeTemporaryExpr" for x in (init[0], init[0].get("inner", [{}])[0] if init[0].get("inner") else {})):
                # a reference bound to a temporary: the temporary becomes the variable itself (lifetime extension)
                self.report["references bound to temporaries turned into value variables"] += 1
                vv = vt.pointee()
                vv.const = False
                return pad + "%s = %s;" % (vv.decl(name), self.expr(init[0]))
            if s0.get("kind") in ("CallExpr", "CXXMemberCallExpr", "CXXOperatorCallExpr") and \
                    re.search(r"^\s*const\s|\sconst\s*&\s*$", v["type"].get("desugaredQualType") or v["type"]["qualType"]):
                txt = self.expr(init[0])
                if not txt.lstrip("(").startswith("*"):
                    # const reference bound to the result of a call that the boundary answers by value (a shim, not an lvalue in C)
                    self.report["const references bound to by-value boundary calls turned into value variables"] += 1
                    vv = vt.pointee()
                    vv.const = False
                    return pad + "%s = %s;" % (vv.decl(name), txt)
            self.cur["refs"][v["id"]] = True
            if self._strip(init[0]).get("kind") == "ConditionalOperator":
                return pad + "%s = %s;" % (vt.decl(name), self.addr_of(init[0]))      # T &r = c ? x : y
            return pad + "%s = &(%s);" % (vt.decl(name), self.lvalue(init[0]))
        st = "static " if v.get("storageClass") == "static" else ""
        if st and init and self._strip_all(init[0]).get("kind") == "StringLiteral" and vt.ptr == 1 and not vt.dims and \
                not self._var_written(self.cur["decl"], v["id"]):
            # static pointer to a string literal that the function never reassigns: the same value at every call; emitted as a plain
            # local (goto-instrument --dfcc gives static objects an arbitrary initial value, which is not what C++ does)
            self.report["function-local static pointers to string literals (never reassigned) emitted as plain locals"] += 1
            st = ""
        if st and init and v.get("constexpr") and not vt.ptr and not vt.dims and vt.base in SCALARS.values() and not self._var_written(self.cur["decl"], v["id"]):
            # static constexpr scalar: a compile-time constant; emitted as a plain local for the same reason
            self.report["function-local static constexpr scalars emitted as plain locals"] += 1
            st = ""
        if not init:
            return pad + st + vt.decl(name) + ";"
        i0 = init[0]
        if vt.dims:
            # array variable
            s = self._strip(i0)
            if s.get("kind") == "StringLiteral":
                return pad + st + "const " * 0 + vt.decl(name) + " = %s;" % s["value"]
            if s.get("kind") == "InitListExpr":
                # std::array<T,N> x{...}: the aggregate wraps one inner array initialiser
                while len(s.get("inner", [])) == 1 and s["inner"][0].get("kind") == "InitListExpr" and not s.get("array_filler"):
                    s = s["inner"][0]
                listed = [self.expr(c) for c in s.get("inner", [])]
                filler = None
                for c in s.get("array_filler", []) or []:
                    if c.get("kind") and c["kind"] != "ImplicitValueInitExpr":
                        filler = self.expr(c)
                    elif c.get("kind") == "ImplicitValueInitExpr":
                        filler = "0" if vt.base in SCALARS.values() or vt.ptr else "(%s){0}" % vt.base
                scalar = (vt.base in SCALARS.values() or vt.ptr) and len(vt.dims) == 1
                if scalar and (filler is None or re.sub(r"[()\s]|unsigned|signed|char|int|long|short", "", filler) == "0"):
                    cq = "const " if (v.get("constexpr") or vt.const) else ""
                    return pad + st + cq + vt.decl(name) + " = {%s};" % (", ".join(listed) if listed else "0")
                out = [pad + st + vt.decl(name) + ";"]
                for i, v in enumerate(listed):
                    out.append(pad + "%s[%d] = %s;" % (name, i, v))
                if len(listed) < int(vt.dims[0]):
                    if filler is None:
                        filler = "0" if vt.base in SCALARS.values() or vt.ptr else "(%s){0}" % vt.base
                    out.append(self.unrolled(pad, len(listed), vt.dims[0], name + "[%(i)d] = " + filler.replace("%", "%%") + ";"))
                return "\n".join(out)
            if s.get("kind") == "CXXConstructExpr":
                # array of class objects default-constructed: the construct expression has the array type
                s2 = dict(s)
                et = dict(s["type"])
                for key in ("qualType", "desugaredQualType"):
                    if key in et:
                        et[key] = re.sub(r"\s*\[\d+\]$", "", et[key])
                        b_, ta_ = split_targs(lconst(strip_ns(et[key])))
                        if b_ == "std::array" and ta_:
                            et[key] = ta_[0]      # std::array<T,N> x;  default-initialises N objects of T
                            s2["inner"] = []
                            s2.pop("ctorType", None)
                s2["type"] = et
                if s2.get("inner") == [] and "ctorType" not in s2:
                    rec = self.find_record(lconst(strip_ns(et.get("desugaredQualType") or et["qualType"])))
                    dd = self._implicit_default_ctor(rec) if rec is not None else None
                    if dd is not None:
                        s2["ctorType"] = {"qualType": dd["type"]["qualType"]}
                ctor = self._default_ctor_expr(s2)
                return pad + st + vt.decl(name) + ";\n" + self.unrolled(pad, 0, vt.dims[0], name + "[%(i)d] = " + ctor.replace("%", "%%") + ";")
            raise ExtractionError("unsupported array initialiser for %s: %s" % (name, s.get("kind")))
        special = self.special_vardecl(v, vt, i0, ind)
        if special is not None:
            return special
        return pad + st + vt.decl(name) + " = %s;" % self.expr(i0)

    def special_vardecl(self, v, vt, init, ind):
        return None

    def _default_ctor_expr(self, cx):
        return self.construct_expr(cx)

    def range_for(self, n, ind):
        # inner: [init?, range decl, begin decl, end decl, cond, inc, loopvar decl, body]
        parts = n["inner"]
        pad = "  " * ind
        rng = parts[1]
        loopvar = parts[-2]
        body = parts[-1]
        rv = rng["inner"][0]
        range_init = [c for c in rv.get("inner", []) if c.get("kind")][0]
        rtype = self.ctype(rv["type"])
        lv = loopvar["inner"][0]
        lvt = self.ctype(lv["type"])
        self.cur["loop"] += 1
        lc = self.loop_contract(self.cur["loop"])
        self.cur["fo"].loop_kinds.append("range-for")
        self.report["range-for loops turned into indexed loops"] += 1
        seq = self.lvalue(range_init)
        h = self.seq_access(rv["type"], seq)
        if h is None:
            raise ExtractionError("range-for over unsupported type %s" % rv["type"].get("qualType"))
        begin, length = h
        idx = "xc_i%d" % self.cur["loop"]
        if lvt.is_ref:
            self.cur["refs"][lv["id"]] = True
            decl = "%s = &(%s)[%s];" % (lvt.decl(lv["name"]), begin, idx)
        else:
            decl = "%s = (%s)[%s];" % (lvt.decl(lv["name"]), begin, idx)
        gh = self.ghost(self.cur_loop_id(), "body_start", ind + 1)
        b = self.block(body, ind, prepend=pad + "  " + decl + ("\n" + gh if gh else ""))
        return pad + "for (size_t %s = 0; %s < %s; %s++)\n%s%s" % (idx, idx, length, idx, lc, b)

    def seq_access(self, t, seq):
        """(begin pointer expr, length expr) of a range-for range; extended through cfg."""
        name = lconst(strip_ns(t.get("desugaredQualType") or t["qualType"])).rstrip("& ").strip()
        base, targs = split_targs(name)
        h = getattr(self.cfg, "seq_handlers", {}).get(base)
        if h:
            return h(self, seq, targs)
        # a sugared spelling (auto x = std::move(container)): decide by the mapped C type
        try:
            ct = self.ctype(t)
        except ExtractionError:
            return None
        h = getattr(self.cfg, "seq_handlers", {}).get(ct.base)
        if h:
            return h(self, seq, targs)
        return None

    # ------------------------------------------------------------------ expressions
    def _strip(self, n):
        while n.get("kind") in ("ExprWithCleanups", "CXXBindTemporaryExpr", "MaterializeTemporaryExpr",
                                "ParenExpr", "ConstantExpr", "FullExpr") or (
                n.get("kind") == "ImplicitCastExpr" and n.get("castKind") in ("NoOp", "ConstructorConversion", "UserDefinedConversion")):
            n = n["inner"][0]
        return n

    def lvalue(self, n):
        return self.expr(n)

    def expr(self, n):
        k = n.get("kind")
        m = getattr(self, "x_" + k, None)
        if m is None:
            raise ExtractionError("unsupported expression kind %s" % k)
        return m(n)

    def x_ExprWithCleanups(self, n): return self.expr(n["inner"][0])
    def x_CXXBindTemporaryExpr(self, n): return self.expr(n["inner"][0])
    def x_MaterializeTemporaryExpr(self, n): return self.expr(n["inner"][0])
    def x_ConstantExpr(self, n): return self.expr(n["inner"][0])
    def x_ParenExpr(self, n): return "(%s)" % self.expr(n["inner"][0])
    def x_SubstNonTypeTemplateParmExpr(self, n): return self.expr(n["inner"][-1])
    def x_CXXDefaultArgExpr(self, n):
        inner = n.get("inner")
        if not inner:
            raise ExtractionError("default argument without expression")
        return self.expr(inner[0])

    def x_IntegerLiteral(self, n):
        t = n["type"]["qualType"]
        v = n["value"]
        suf = {"unsigned int": "U", "long": "L", "unsigned long": "UL", "long long": "LL", "unsigned long long": "ULL"}.get(t, "")
        return v + suf

    def x_FloatingLiteral(self, n):
        v = n["value"]
        if re.match(r"^-?\d+$", v):
            v += ".0"
        if n["type"]["qualType"] == "float":
            v += "f"
        return v

    def x_CharacterLiteral(self, n):
        v = n["value"]
        return "((char)%d)" % v if n["type"]["qualType"] == "char" else str(v)

    def x_CXXBoolLiteralExpr(self, n): return "true" if n["value"] else "false"
    def x_CXXNullPtrLiteralExpr(self, n): return "NULL"
    def x_GNUNullExpr(self, n): return "NULL"
    def x_StringLiteral(self, n): return n["value"]
    def x_ImplicitValueInitExpr(self, n): return "0"
    def x_CXXScalarValueInitExpr(self, n): return "0"

    def x_CXXThisExpr(self, n):
        if self.cur["self"] == "value":
            return "(&self)"
        return "self"

    def x_DeclRefExpr(self, n):
        r = n["referencedDecl"]
        rk = r.get("kind")
        rid = r["id"]
        if rk in ("ParmVarDecl", "VarDecl", "BindingDecl"):
            caps = self.cur.get("lambda_caps")
            if caps is not None and rid in caps:
                c = caps[rid]
                return "(*xc_cp_%s)" % c["name"] if c["byref"] else c["name"]
            if rid in self.cur["refs"]:
                return "(*%s)" % r["name"]
            d = self.ix.by_id.get(rid)
            if rk == "VarDecl" and d is not None and self._is_global_var(d):
                return self.need_global(d)
            if rk == "VarDecl" and d is None:
                # variable outside the dumped namespace (std::) - via ext table
                h = self.cfg.ext.get("var:" + r["name"])
                if h:
                    return h(self, n) if callable(h) else h
                raise ExtractionError("reference to unindexed variable %s" % r["name"])
            return r["name"]
        if rk == "EnumConstantDecl":
            if rid in self.ix.enums:
                return "%d /*%s*/" % (self.ix.enums[rid], r["name"])
            h = self.cfg.ext.get("enum:" + r["name"])
            if h is not None:
                return h
            raise ExtractionError("unknown enum constant %s" % r["name"])
        if rk in FUNC_KINDS:
            return self.func_ref(r)
        raise ExtractionError("DeclRefExpr to %s not supported" % rk)

    def _is_global_var(self, d):
        # a VarDecl whose parent is not a function
        pid = self.ix.parent.get(d["id"])
        while pid is not None:
            p = self.ix.by_id.get(pid)
            if p is None:
                break
            if p.get("kind") in FUNC_KINDS:
                return False
            pid = self.ix.parent.get(pid)
        return True

    def need_global(self, d):
        q = self.ix.qual.get(d["id"], d["name"])
        parts = q.split("::")
        cname = sanitize("_".join(parts[-2:])) if len(parts) >= 2 and self._is_class_member(d) else sanitize(parts[-1])
        if cname in self.consts:
            return cname
        # find the declaration carrying an initialiser
        init = [c for c in d.get("inner", []) if isinstance(c, dict) and c.get("kind") and not c["kind"].endswith("Attr") and c["kind"] != "FullComment"]
        if not init:
            for cand in self.ix.by_id.values():
                if cand.get("kind") == "VarDecl" and cand.get("name") == d["name"] and self.ix.qual.get(cand["id"]) == q:
                    init = [c for c in cand.get("inner", []) if isinstance(c, dict) and c.get("kind") and not c["kind"].endswith("Attr")]
                    if init:
                        d = cand
                        break
        vt = self.ctype(d["type"])
        qt = d["type"].get("qualType", "")
        is_const = vt.const or d.get("constexpr") or qt.startswith("const ")
        self.consts[cname] = None  # reserve (cycles)
        h = self.cfg.ext.get("global:" + cname)
        if h is not None:
            self.consts[cname] = h
            return cname
        if not init:
            if is_const:
                raise ExtractionError("global %s has no initialiser" % q)
            self.consts[cname] = vt.decl(cname) + ";\n"
            self.report["mutable globals emitted as unconstrained globals"] += 1
            return cname
        saved = self.cur
        self.cur = {"decl": d, "cname": cname, "loop": 0, "spec": {}, "refs": {}, "self": None, "ret_ref": False,
                    "lambda_caps": None, "tmp": 0, "fo": FuncOut(cname, d), "byval_refs": set()}
        try:
            s = self._strip(init[0])
            if vt.dims and s.get("kind") == "InitListExpr":
                vals = [self.expr(c) for c in s.get("inner", [])]
                text = "%s%s = {%s};\n" % ("static const " if is_const else "", vt.decl(cname), ", ".join(vals))
            elif vt.dims and s.get("kind") == "StringLiteral":
                text = "%s%s = %s;\n" % ("static const " if is_const else "", vt.decl(cname), s["value"])
            else:
                cv = _const_value(init[0]) if vt.base not in ("double", "float") else None
                val = str(cv) if (cv is not None and init[0].get("kind") == "ConstantExpr") else self.expr(init[0])
                if is_const and vt.ptr == 0:
                    text = "#define %s ((%s)(%s))\n" % (cname, vt.text(), val)
                else:
                    text = "%s%s = %s;\n" % ("static const " if is_const else "", vt.decl(cname), val)
        finally:
            self.cur = saved
        self.consts[cname] = text
        self.report["constants emitted from their initialisers"] += 1
        return cname

    def _is_class_member(self, d):
        p = self.ix.by_id.get(self.ix.parent.get(d["id"]))
        return p is not None and p.get("kind") in ("CXXRecordDecl", "ClassTemplateSpecializationDecl")

    def func_ref(self, r):
        """C name for a referenced function declaration (extracting it if it is ours)."""
        rid = r["id"]
        d = self.ix.by_id.get(rid)
        if d is None:
            name = r["name"]
            h = self.cfg.ext.get(name)
            if h is None:
                raise ExtractionError("unmapped external function %s : %s" % (name, r.get("type", {}).get("qualType")))
            self.used_ext[name] += 1
            return h
        q = self.ix.qual.get(rid, r["name"])
        for suf, h in self.cfg.ext_q.items():
            if q_matches(q, suf):
                self.used_ext[suf] += 1
                return h
        dd = self.ix.definition_of(rid)
        if body_of(dd) is None:
            # template pattern or declaration only: try specialisation by name+type
            for cand_q, lst in self.ix.funcs.items():
                if cand_q.split("<")[0] == q.split("<")[0] or cand_q.split("<")[0].endswith("::" + q.split("::")[-1].split("<")[0]):
                    for c in lst:
                        if c.get("type", {}).get("qualType") == r.get("type", {}).get("qualType") and body_of(c) is not None:
                            dd = c
            if body_of(dd) is None and not (dd.get("isImplicit") or dd.get("explicitlyDefaulted")):
                raise ExtractionError("callee %s has no body in this TU" % q)
        return self.need_function(dd)

    # -- operators ------------------------------------------------------
    def x_BinaryOperator(self, n):
        a, b = n["inner"]
        op = n["opcode"]
        if op == ",":
            return "(%s, %s)" % (self.expr(a), self.expr(b))
        if op in (".*", "->*"):
            raise ExtractionError("pointer-to-member not supported")
        return "%s %s %s" % (self.pexpr(a), op, self.pexpr(b))

    def x_CompoundAssignOperator(self, n):
        a, b = n["inner"]
        return "%s %s %s" % (self.pexpr(a), n["opcode"], self.pexpr(b))

    def pexpr(self, n):
        """expression, parenthesised when it is not primary/postfix/unary"""
        s = self.expr(n)
        k = self._strip_all(n).get("kind")
        if k in ("BinaryOperator", "ConditionalOperator", "CompoundAssignOperator"):
            return "(%s)" % s
        return s

    def _strip_all(self, n):
        while n.get("kind") in ("ExprWithCleanups", "CXXBindTemporaryExpr", "MaterializeTemporaryExpr",
                                "ConstantExpr", "ImplicitCastExpr") and n.get("inner"):
            if n.get("kind") == "ImplicitCastExpr" and n.get("castKind") not in (
                    "NoOp", "LValueToRValue", "ArrayToPointerDecay", "FunctionToPointerDecay"):
                break
            n = n["inner"][0]
        return n

    def x_UnaryOperator(self, n):
        a = n["inner"][0]
        op = n["opcode"]
        if op == "__extension__":
            return self.expr(a)
        if n.get("isPostfix"):
            return "%s%s" % (self.pexpr(a), op)
        if op == "&":
            return "&(%s)" % self.expr(a)
        if op == "*":
            return "(*%s)" % self.pexpr(a)
        return "%s%s" % (op, self.pexpr_unary(a))

    def pexpr_unary(self, n):
        s = self.expr(n)
        k = self._strip_all(n).get("kind")
        if k in ("BinaryOperator", "ConditionalOperator", "CompoundAssignOperator", "UnaryOperator", "CStyleCastExpr",
                 "ImplicitCastExpr", "CXXStaticCastExpr", "CXXFunctionalCastExpr"):
            return "(%s)" % s
        return s

    def x_ConditionalOperator(self, n):
        c, a, b = n["inner"]
        return "(%s ? %s : %s)" % (self.pexpr(c), self.pexpr(a), self.pexpr(b))

    def x_ArraySubscriptExpr(self, n):
        a, b = n["inner"]
        return "%s[%s]" % (self.pexpr_post(a), self.expr(b))

    def pexpr_post(self, n):
        s = self.expr(n)
        k = self._strip_all(n).get("kind")
        if k in ("BinaryOperator", "ConditionalOperator", "CompoundAssignOperator", "UnaryOperator", "CStyleCastExpr",
                 "ImplicitCastExpr", "CXXStaticCastExpr", "CXXFunctionalCastExpr", "CXXReinterpretCastExpr"):
            return "(%s)" % s
        return s

    def x_UnaryExprOrTypeTraitExpr(self, n):
        name = n.get("name")
        if name not in ("sizeof", "alignof"):
            raise ExtractionError("unsupported trait %s" % name)
        if n.get("inner"):
            inner = n["inner"][0]
            t = self.ctype(inner["type"])
            if t.is_ref:
                t = t.pointee()
            return "%s(%s)" % (name, t.text() if not t.dims else self.expr(inner))
        t = self.ctype(n["argType"])
        return "%s(%s)" % (name, t.text())

    # -- casts ----------------------------------------------------------
    def x_ImplicitCastExpr(self, n):
        ck = n.get("castKind")
        inner = n["inner"][0]
        if ck in ("LValueToRValue", "NoOp", "ArrayToPointerDecay", "FunctionToPointerDecay", "ConstructorConversion",
                  "UserDefinedConversion", "NullToPointer", "BuiltinFnToFnPtr", "AtomicToNonAtomic", "NonAtomicToAtomic"):
            if ck == "NullToPointer":
                return "NULL"
            return self.expr(inner)
        if ck in ("IntegralCast", "IntegralToBoolean", "IntegralToFloating", "FloatingToIntegral", "FloatingCast",
                  "PointerToBoolean", "BitCast", "FloatingToBoolean", "BooleanToSignedIntegral", "PointerToIntegral",
                  "IntegralToPointer"):
            t = self.ctype(n["type"])
            if ck in ("PointerToBoolean",):
                return "(%s != NULL)" % self.pexpr(inner)
            return "(%s)(%s)" % (t.text(), self.expr(inner))
        if ck in ("DerivedToBase", "UncheckedDerivedToBase"):
            return self.derived_to_base(n, inner)
        if ck == "ToVoid":
            return "(void)(%s)" % self.expr(inner)
        raise ExtractionError("unsupported implicit cast %s" % ck)

    def derived_to_base(self, n, inner):
        if self._strip(inner).get("kind") == "CXXNewExpr":
            return self.expr(inner)     # pointer handed to an owning handle shim
        try:
            it = self.ctype(inner["type"])
        except ExtractionError:
            it = None
        if it is not None and it.base in ("xc_handle", "xc_opaque"):
            return self.expr(inner)   # opaque shim types have no base sub-object
        hp = getattr(self.cfg, "handle_ptr_records", ())
        if hp:
            src_n = strip_ns((inner["type"].get("desugaredQualType") or inner["type"]["qualType"])).rstrip("*& ").split("::")[-1]
            if src_n in hp:
                return self.expr(inner)   # raw pointers obtained from / handed to owning handle shims: the handle value itself
        try:
            t = self.ctype(n["type"])
        except ExtractionError:
            if it is not None and it.ptr > 0:
                return self.expr(inner)   # a smart pointer mapped to a plain pointer: its std:: base class is the same pointer
            raise
        if it is not None and it.base in SCALARS.values() and t.base in SCALARS.values():
            return self.expr(inner)       # std::atomic<T> -> std::__atomic_base<T>: both are the plain T
        if it is not None and it.base == t.base and it.base.startswith("xc_"):
            return self.expr(inner)       # derived and base class are mapped to the same boundary type
        if t.base.startswith("xc_") and n.get("castKind") in ("DerivedToBase", "UncheckedDerivedToBase"):
            # the base class is a boundary type (std:: container seen through a shim): the shim identifies the object, not its layout
            self.report["derived-to-base conversions to a boundary (shim) base type turned into pointer casts"] += 1
            if t.ptr and not t.is_ref:
                return "((%s)(%s))" % (t.text(), self.expr(inner))
            return "(*(%s *)&(%s))" % (t.base, self.expr(inner))
        brec = self.find_record(lconst(strip_ns((n["type"].get("desugaredQualType") or n["type"]["qualType"]).rstrip("*& "))))
        if brec is not None and not any(c.get("kind") == "FieldDecl" for c in brec.get("inner", [])):
            # a base class without data members: reinterpret the pointer (the base sub-object is empty)
            self.report["derived-to-base conversions to a field-less base turned into pointer casts"] += 1
            if t.ptr and not t.is_ref:
                return "((%s)(%s))" % (t.text(), self.expr(inner))
            return "(*(%s *)&(%s))" % (t.base, self.expr(inner))
        if brec is not None and it is not None:
            # a base class with data members is laid out as the member base_<Base> of the derived record (need_struct)
            drec = self.find_record(lconst(strip_ns((inner["type"].get("desugaredQualType") or inner["type"]["qualType"]).rstrip("*& "))))
            if drec is not None and any(self.find_record(strip_ns(b["type"].get("desugaredQualType") or b["type"]["qualType"])) is brec for b in drec.get("bases", [])):
                self.need_struct(drec)
                self.report["derived-to-base conversions turned into access to the embedded base member"] += 1
                member = "base_%s" % t.base
                if t.ptr and not t.is_ref:
                    return "(&(%s)->%s)" % (self.expr(inner), member)
                e = self.expr(inner)
                m = re.match(r"^\(\*(\w+)\)$", e)
                return ("%s->%s" % (m.group(1), member)) if m else "(%s).%s" % (e, member)
        raise ExtractionError("derived-to-base conversion not supported: %s -> %s" % (inner.get("type"), n.get("type")))

    def explicit_cast(self, n):
        ck = n.get("castKind")
        inner = n["inner"][0]
        if ck in ("ConstructorConversion", "UserDefinedConversion"):
            return self.expr(inner)
        if ck == "ToVoid":
            return "(void)(%s)" % self.expr(inner)
        t = self.ctype(n["type"])
        hp = getattr(self.cfg, "handle_ptr_records", ())
        if hp and ck in ("BaseToDerived", "DerivedToBase", "UncheckedDerivedToBase") and \
                strip_ns((n["type"].get("desugaredQualType") or n["type"]["qualType"])).rstrip("*& ").split("::")[-1] in hp:
            return self.expr(inner)     # pointers to these records are owning-handle values of the boundary
        if ck == "BaseToDerived":
            # static_cast<Derived &>(base) / static_cast<Derived *>(base_ptr): records with dropped (field-less) bases start at the same address
            self.report["static_cast from a field-less base to the derived class turned into a pointer cast"] += 1
            if n.get("valueCategory") == "lvalue" and not t.ptr:
                return "(*(%s *)&(%s))" % (t.base, self.expr(inner))
            return "(%s)(%s)" % (t.text(), self.expr(inner))
        if t.is_ref:
            return self.expr(inner)
        if ck == "NoOp" and (t.base not in SCALARS.values() or t.ptr):
            return self.expr(inner)
        return "(%s)(%s)" % (t.text(), self.expr(inner))

    x_CStyleCastExpr = explicit_cast
    x_CXXStaticCastExpr = explicit_cast
    x_CXXFunctionalCastExpr = explicit_cast
    x_CXXReinterpretCastExpr = explicit_cast
    x_CXXConstCastExpr = explicit_cast

    # -- members ----------------------------------------------------------
    def x_MemberExpr(self, n):
        base = n["inner"][0]
        name = n["name"]
        # static member / enum through object
        mid = n.get("referencedMemberDecl")
        md = self.ix.by_id.get(mid)
        if md is not None and md.get("kind") == "VarDecl":
            return self.need_global(md)
        bs = self._strip(base)
        if bs.get("kind") == "CXXThisExpr":
            return ("self.%s" if self.cur["self"] == "value" else "self->%s") % name
        b = self.expr(base)
        if n.get("isArrow"):
            return "%s->%s" % (self.pexpr_post(base), name)
        if b.startswith("(*") and b.endswith(")") and b.count("(") == 1:
            return "%s->%s" % (b[2:-1], name)
        return "%s.%s" % (self.pexpr_post(base), name)

    # -- calls ----------------------------------------------------------
    def call_args(self, callee_decl, args, spec_ok=True):
        """Emit argument list honouring reference parameters of an extracted callee."""
        out = []
        ps = params_of(callee_decl) if callee_decl is not None else []
        for i, a in enumerate(args):
            p = ps[i] if i < len(ps) else None
            a = self._default_arg(a, p)
            if p is not None:
                pt = self.ctype(p["type"])
                if pt.is_ref and not self._byvalue_ref(pt):
                    out.append(self.addr_of(a, pt))
                    continue
            out.append(self.expr(a))
        return out

    def _default_arg(self, a, p):
        if a.get("kind") == "CXXDefaultArgExpr" and not a.get("inner") and p is not None:
            dflt = [c for c in p.get("inner", []) if isinstance(c, dict) and c.get("kind") and not c["kind"].endswith("Attr")]
            if not dflt:
                raise ExtractionError("default argument of %s not found" % p.get("name"))
            self.report["default arguments materialised from the callee declaration"] += 1
            return dflt[0]
        return a

    def addr_of(self, a, pt=None):
        s = self._strip(a)
        is_temp = False
        x = a
        while x.get("kind") in ("ExprWithCleanups", "ImplicitCastExpr", "CXXBindTemporaryExpr", "ParenExpr") and x.get("inner"):
            x = x["inner"][0]
        if x.get("kind") == "MaterializeTemporaryExpr" and s.get("valueCategory") == "prvalue":
            is_temp = True
        if not is_temp and s.get("kind") == "ConditionalOperator" and s.get("valueCategory") == "lvalue":
            # &(c ? x : y) is C++ only: the address of the selected operand
            c_, x_, y_ = s["inner"]
            return "((%s) ? %s : %s)" % (self.expr(c_), self.addr_of(x_, pt), self.addr_of(y_, pt))
        if not is_temp and (a.get("valueCategory") == "lvalue" or s.get("valueCategory") == "lvalue"):
            e = self.expr(a)
            if e.startswith("(*") and e.endswith(")") and re.match(r"^\(\*\w+\)$", e):
                return e[2:-1]
            return "&(%s)" % e
        # temporary: compound literal
        t = self.ctype(s["type"])
        self.report["temporaries bound to references (compound literals)"] += 1
        return "(%s[]){%s}" % (t.text(), self.expr(a))

    def x_CallExpr(self, n):
        callee = n["inner"][0]
        args = n["inner"][1:]
        c = callee
        while c.get("kind") in ("ImplicitCastExpr", "ParenExpr"):
            c = c["inner"][0]
        if c.get("kind") != "DeclRefExpr":
            raise ExtractionError("indirect call not supported (%s)" % c.get("kind"))
        r = c["referencedDecl"]
        return self.emit_call(r, None, args, n)

    def emit_call(self, r, recv, args, node):
        """r: referencedDecl dict; recv: receiver expr node or None."""
        rid = r["id"]
        d = self.ix.by_id.get(rid)
        name = r.get("name")
        if d is None and name not in self.cfg.ext:
            d = self.ix.lookup_by_name_sig(name, r.get("type", {}).get("qualType"))
            if d is not None:
                rid = d["id"]
                r = dict(r, id=rid)
        # function_ref specialisation: lambda arguments
        if d is not None:
            q = self.ix.qual.get(rid, name)
            if os.environ.get("XC_TRACE"):
                sys.stderr.write("XC_TRACE call %s\n" % q)
            for suf, h in self.cfg.ext_q.items():
                if q_matches(q, suf):
                    self.used_ext[suf] += 1
                    if callable(h):
                        return h(self, node, recv, args)
                    a = ([self.expr(recv)] if recv is not None else []) + [self.expr(x) for x in args]
                    return "%s(%s)" % (h, ", ".join(a))
            dd = self.ix.definition_of(rid)
            if body_of(dd) is None and not (dd.get("isImplicit") or dd.get("explicitlyDefaulted")):
                fr = self.func_ref(r)   # may find an instantiation
                dd = self.funcs[fr].decl if fr in self.funcs else dd
            spec = {}
            plain_args = []
            ps = params_of(dd)
            for i, a in enumerate(args):
                s = self._strip(a)
                # a lambda (possibly wrapped in a function_ref construction)
                lam = self._find_lambda(a)
                if lam is not None and i < len(ps) and "function_ref" in ps[i]["type"].get("qualType", ""):
                    li = self.lambda_info(lam, None)
                    spec[ps[i]["name"]] = li
                    for cap in li["captures"]:
                        plain_args.append(self.capture_arg(cap))
                    self.report["function_ref parameters specialised per lambda"] += 1
                    continue
                # forwarding an own function_ref parameter that is itself specialised
                if s.get("kind") == "DeclRefExpr" and s["referencedDecl"].get("name") in self.cur["spec"] \
                        and i < len(ps) and "function_ref" in ps[i]["type"].get("qualType", ""):
                    pn = s["referencedDecl"]["name"]
                    li = self.cur["spec"][pn]
                    spec[ps[i]["name"]] = li
                    for cap in li["captures"]:
                        plain_args.append("xc_cap_%s_%s" % (pn, cap["name"]))
                    continue
                plain_args.append((i, a))
            cname = self.need_function(dd, spec)
            out = []
            mode = self.self_mode(dd)
            if recv is not None and mode in ("value", "ptr"):
                out.append(self.recv_arg(recv, mode))
            for item in plain_args:
                if isinstance(item, str):
                    out.append(item)
                    continue
                i, a = item
                p = ps[i] if i < len(ps) else None
                if a.get("kind") == "CXXDefaultArgExpr" and not a.get("inner") and p is not None:
                    dflt = [c for c in p.get("inner", []) if isinstance(c, dict) and c.get("kind") and not c["kind"].endswith("Attr")]
                    if not dflt:
                        raise ExtractionError("default argument of %s not found" % p.get("name"))
                    a = dflt[0]
                    self.report["default arguments materialised from the callee declaration"] += 1
                if p is not None:
                    pt = self.ctype(p["type"])
                    if pt.is_ref and not self._byvalue_ref(pt):
                        out.append(self.addr_of(a, pt))
                        continue
                out.append(self.expr(a))
            call = "%s(%s)" % (cname, ", ".join(out))
            rt = self.ctype(self._return_type_str(dd)) if dd.get("kind") not in ("CXXConstructorDecl", "CXXDestructorDecl") else None
            if rt is not None and rt.is_ref and mode != "value":
                return "(*%s)" % call
            return call
        # external
        h = self.cfg.ext.get(name)
        if h is None:
            raise ExtractionError("unmapped external function %s : %s" % (name, r.get("type", {}).get("qualType")))
        self.used_ext[name] += 1
        if callable(h):
            return h(self, node, recv, args)
        a = [self.expr(x) for x in args]
        return "%s(%s)" % (h, ", ".join(a))

    def recv_arg(self, recv, mode):
        if mode == "value":
            return self.expr(recv)
        # pointer to the receiver
        if recv.get("xc_is_ptr"):
            return self.expr(recv["node"])
        return self.addr_of(recv)

    def _find_lambda(self, a):
        n = a
        while True:
            k = n.get("kind")
            if k == "LambdaExpr":
                return n
            if k in ("ExprWithCleanups", "CXXBindTemporaryExpr", "MaterializeTemporaryExpr", "ImplicitCastExpr",
                     "CXXConstructExpr", "CXXFunctionalCastExpr", "ParenExpr", "CXXTemporaryObjectExpr") and len(n.get("inner", [])) == 1:
                n = n["inner"][0]
                continue
            if k == "DeclRefExpr":
                lv = self.cur.get("lambda_vars", {}).get(n["referencedDecl"]["id"])
                return lv
            return None

    def lambda_info(self, lam, varname):
        rec = lam["inner"][0]
        rid = rec["id"]
        if rid in self.lambda_names:
            return self.lambda_names[rid]
        op = None
        for c in rec.get("inner", []):
            if c.get("kind") == "CXXMethodDecl" and c.get("name") == "operator()":
                op = c
            if c.get("kind") == "FunctionTemplateDecl":
                raise ExtractionError("generic lambda not supported")
        if op is None:
            raise ExtractionError("lambda without operator()")
        n = len([x for x in self.lambda_names.values() if x["parent"] == self.cur["cname"]]) + 1
        cname = "%s__l%d" % (self.cur["cname"], n)
        # captures: fields of the closure type, in order, matched with capture initialisers
        fields = [c for c in rec.get("inner", []) if c.get("kind") == "FieldDecl"]
        cap_inits = [c for c in lam["inner"][1:] if c.get("kind") != "CompoundStmt"]
        caps = []
        for f, ci in zip(fields, cap_inits):
            s = self._strip(ci)
            byref = f["type"]["qualType"].rstrip().endswith("&")
            if s.get("kind") == "DeclRefExpr":
                var = s["referencedDecl"]
                ft = self.ctype(f["type"])
                if not byref:
                    ft = CT(ft.base, ft.ptr, ft.dims)
                caps.append({"name": var["name"], "var_id": var["id"], "byref": byref, "ctype": ft, "init": ci})
            elif s.get("kind") == "CXXThisExpr":
                # [this] / [&] using members: the enclosing object's pointer becomes the leading parameter `self`
                caps.append({"name": "self", "var_id": None, "byref": False, "ctype": self.ctype(s["type"]), "init": ci})
                self.report["lambdas capturing this: enclosing object passed as parameter self"] += 1
            else:
                raise ExtractionError("lambda init-capture not supported (%s)" % s.get("kind"))
        li = {"cname": cname, "captures": caps, "op": op, "rec": rec, "parent": self.cur["cname"]}
        self.lambda_names[rid] = li
        self.ix.parent.setdefault(op["id"], rid)
        self.ix.qual[op["id"]] = cname
        self.cfg.cnames[cname] = cname
        self.need_function(op)
        return li

    def capture_arg(self, cap):
        # expression (in the *current* function) to pass for a capture
        e = self.expr(cap["init"])
        if cap["byref"]:
            m = re.match(r"^\(\*(\w+)\)$", e)
            return m.group(1) if m else "&(%s)" % e
        return e

    def x_CXXMemberCallExpr(self, n):
        callee = n["inner"][0]
        args = n["inner"][1:]
        c = callee
        while c.get("kind") in ("ImplicitCastExpr", "ParenExpr"):
            c = c["inner"][0]
        if c.get("kind") != "MemberExpr":
            raise ExtractionError("member call through %s" % c.get("kind"))
        base = c["inner"][0]
        mid = c.get("referencedMemberDecl")
        md = self.ix.by_id.get(mid)
        if md is None:
            # method of a std:: class
            rt = lconst(strip_ns(base["type"].get("desugaredQualType") or base["type"]["qualType"])).rstrip("*& ").strip()
            bname, _ = split_targs(rt)
            key = "%s::%s" % (bname, c["name"])
            h = self.cfg.ext_methods.get(key) or self.cfg.ext_methods.get("%s/%d" % (key, len(args)))
            if h is None:
                raise ExtractionError("unmapped external method %s (receiver %s)" % (key, rt))
            self.used_ext[key] += 1
            recv = self.expr(base)
            if c.get("isArrow"):
                recv = "(*%s)" % recv
            return h(self, recv, args, n)
        recv = base
        if c.get("isArrow"):
            recv = {"kind": "xc_ptr", "xc_is_ptr": True, "node": base, "valueCategory": "lvalue", "type": base["type"]}
        r = {"id": mid, "name": c["name"], "kind": md.get("kind"), "type": md.get("type")}
        return self.emit_call(r, recv, args, n)

    def x_xc_ptr(self, n):
        return "(*%s)" % self.pexpr(n["node"])

    def x_CXXOperatorCallExpr(self, n):
        callee = n["inner"][0]
        args = n["inner"][1:]
        c = callee
        while c.get("kind") in ("ImplicitCastExpr", "ParenExpr"):
            c = c["inner"][0]
        r = c["referencedDecl"]
        d = self.ix.by_id.get(r["id"])
        if d is None:
            # operator of a std:: class
            rt = lconst(strip_ns(args[0]["type"].get("desugaredQualType") or args[0]["type"]["qualType"])).rstrip("& ").strip()
            bname, _ = split_targs(rt)
            key = "%s::%s" % (bname, r["name"])
            h = self.cfg.ext_methods.get(key)
            if h is None:
                raise ExtractionError("unmapped external operator %s" % key)
            self.used_ext[key] += 1
            return h(self, self.expr(args[0]), args[1:], n)
        if d.get("kind") == "CXXMethodDecl":
            rec = self.ix.record_of_method(d)
            if r["name"] == "operator=" and (d.get("isImplicit") or d.get("explicitlyDefaulted")):
                self.report["trivial assignment operators turned into struct assignment"] += 1
                return "%s = %s" % (self.pexpr(args[0]), self.pexpr(args[1]))
            # call of a lambda object / specialised function_ref parameter
            a0 = self._strip(args[0])
            if rec is not None and self.is_lambda_rec(rec):
                li = self.lambda_names.get(rec["id"])
                if li is None:
                    raise ExtractionError("call of unknown lambda")
                cap_args = [self.capture_arg(cap) for cap in li["captures"]]
                return "%s(%s)" % (li["cname"], ", ".join(cap_args + self.call_args(li["op"], args[1:])))
            if a0.get("kind") == "DeclRefExpr" and a0["referencedDecl"].get("name") in self.cur["spec"]:
                pn = a0["referencedDecl"]["name"]
                li = self.cur["spec"][pn]
                cap_args = ["xc_cap_%s_%s" % (pn, cap["name"]) for cap in li["captures"]]
                return "%s(%s)" % (li["cname"], ", ".join(cap_args + self.call_args(li["op"], args[1:])))
            return self.emit_call(r, args[0], args[1:], n)
        return self.emit_call(r, None, args, n)

    # -- construction ---------------------------------------------------
    def x_CXXConstructExpr(self, n):
        return self.construct_expr(n)

    x_CXXTemporaryObjectExpr = x_CXXConstructExpr

    def construct_expr(self, n):
        t = n["type"]
        tname = lconst(strip_ns(t.get("desugaredQualType") or t["qualType"])).strip()
        base, targs = split_targs(tname)
        args = [a for a in n.get("inner", [])]
        ctor_sig = n.get("ctorType", {}).get("qualType", "")
        for key in (tname, base, base.split("::")[-1]):
            h = self.cfg.ctor_ext.get(key)
            if h is not None:
                self.used_ext["ctor:" + key] += 1
                return h(self, n, args)
        rec = self.find_record(tname)
        if rec is None:
            raise ExtractionError("construction of unmapped type %s" % tname)
        rc = self.need_struct(rec)
        # trivial copy / move
        if len(args) == 1 and self._is_copy_move_sig(ctor_sig, rec):
            self.report["copy/move constructions turned into struct copies"] += 1
            return self.expr(args[0])
        # find the constructor
        cands = []
        for c in self._all_ctors(rec):
            if c.get("type", {}).get("qualType") == ctor_sig:
                cands.append(c)
        if not cands:
            # implicit default constructor of an aggregate: zero / default member inits
            if not args:
                dd = self._implicit_default_ctor(rec)
                if dd is not None:
                    return "%s()" % self.need_function(dd)
                return "(%s){0}" % rc
            raise ExtractionError("constructor %s of %s not found" % (ctor_sig, tname))
        ctor = cands[0]
        if body_of(ctor) is None:
            # declared in the class, defined out of line in the translation unit
            dd = self.ix.definition_of(ctor["id"])
            if dd is not None and body_of(dd) is not None:
                ctor = dd
        if body_of(ctor) is None and not (ctor.get("isImplicit") or ctor.get("explicitlyDefaulted")):
            raise ExtractionError("constructor %s of %s has no body" % (ctor_sig, tname))
        cname = self.need_function(ctor)
        return "%s(%s)" % (cname, ", ".join(self.call_args(ctor, args)))

    def _all_ctors(self, rec):
        out = []
        for c in rec.get("inner", []):
            if c.get("kind") == "CXXConstructorDecl":
                out.append(c)
            if c.get("kind") == "FunctionTemplateDecl":
                for cc in c.get("inner", []):
                    if cc.get("kind") == "CXXConstructorDecl" and body_of(cc) is not None:
                        out.append(cc)
        return out

    def _implicit_default_ctor(self, rec):
        for c in rec.get("inner", []):
            if c.get("kind") == "CXXConstructorDecl" and not params_of(c) and (c.get("isImplicit") or c.get("explicitlyDefaulted") or body_of(c)):
                return c
        return None

    def _is_copy_move_sig(self, sig, rec):
        m = re.match(r"^void \((.*)\)( noexcept.*)?$", sig)
        if not m:
            return False
        p = m.group(1).strip()
        if "," in split_targs(p)[0] and "<" not in p:
            return False
        p2 = lconst(p).rstrip("&").strip()
        q = self.ix.qual.get(rec["id"], rec.get("name", ""))
        p2n = strip_ns(p2).replace(" ", "")
        qn = q.replace(" ", "")
        return (p.endswith("&")) and (qn == p2n or qn.endswith("::" + p2n) or p2n.endswith("::" + qn.split("::")[-1]) or
                                      qn.split("::")[-1].split("<")[0] == p2n.split("::")[-1].split("<")[0] and self._same_rec(p2, rec))

    def _same_rec(self, tname, rec):
        r = self.find_record(strip_ns(tname))
        return r is not None and r["id"] == rec["id"]

    def x_InitListExpr(self, n):
        t = self.ctype(n["type"])
        vals = [self.expr(c) for c in n.get("inner", [])]
        if t.base in SCALARS.values() and not t.dims and len(vals) == 1:
            return vals[0]
        if t.base in SCALARS.values() and not t.dims and not vals:
            return "0"
        if len(vals) == 1 and not t.dims and not t.ptr and t.base.startswith("xc_"):
            # T{x} of a boundary (shim) value type whose single initialiser already is such a value (std::string{string_view} through its conversion)
            try:
                if self.ctype(n["inner"][0]["type"]).base == t.base:
                    return vals[0]
            except ExtractionError:
                pass
        return "(%s){%s}" % (t.text(), ", ".join(vals) if vals else "0")

    def x_CXXThrowExpr(self, n):
        self.report["throw expressions turned into XC_THROW (asserted unreachable)"] += 1
        return "XC_THROW()"

    def x_LambdaExpr(self, n):
        raise ExtractionError("lambda in unsupported position")

    def x_CXXNewExpr(self, n):
        h = self.cfg.ext.get("new")
        if h is None:
            raise ExtractionError("new-expression not supported in this unit")
        return h(self, n)

    def x_CXXDeleteExpr(self, n):
        h = self.cfg.ext.get("delete")
        if h is None:
            raise ExtractionError("delete-expression not supported in this unit")
        return h(self, n)

    def x_CXXDefaultInitExpr(self, n):
        raise ExtractionError("default member init in expression position")

    def x_StmtExpr(self, n):
        raise ExtractionError("statement expression not supported")

    def x_PredefinedExpr(self, n):
        return "\"\""

    # ------------------------------------------------------------------ output
    def text(self, order=None, mid=""):
        out = []
        for s in self.structs.values():
            out.append(s)
        if mid:
            out.append(mid)
        for c in self.consts.values():
            if c:
                out.append(c)
        for fo in self.funcs.values():
            pre = self.contracts.get(fo.cname, {}).get("pre", "")
            out.append(fo.proto + ";\n")
        for s in self.shim_text.values():
            out.append(s)
        for fo in self.funcs.values():
            out.append("/* extracted from %s (line %s) */\n" % (fo.qual, fo.line) + fo.body)
        return "\n".join(out)
