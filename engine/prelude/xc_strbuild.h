/* std::string as it is used by code that builds a string: a buffer of fixed capacity XC_SB_CAP (model bound: building more than
 * XC_SB_CAP characters fails an assertion instead of growing) with the length kept next to it. */
#ifndef XC_STRBUILD_H
#define XC_STRBUILD_H
#ifndef XC_SB_CAP
#define XC_SB_CAP 48
#endif
typedef struct xc_sb { char *data; size_t len; } xc_sb;
static inline xc_sb xc_sb_new(void) { xc_sb s; s.data = (char *)malloc(XC_SB_CAP); __CPROVER_assume(s.data != NULL); s.len = 0; return s; }
static inline void xc_sb_push(xc_sb *s, char c)
{
  __CPROVER_assert(s->len < XC_SB_CAP, "XC_MODEL string builder capacity");
  s->data[s->len] = c;
  s->len++;
}
/* append(const char *, n) / append(const std::string &): character by character (used only by fully unwound harnesses: no loop contract) */
static inline void xc_sb_append(xc_sb *s, const char *d, size_t n) { for (size_t i = 0; i < n; i++) xc_sb_push(s, d[i]); }
#endif
