/* Spec predicates for hex / W3C trace-context (taken from the property statements, not from the code). */
#ifndef SPEC_HEX_H
#define SPEC_HEX_H
#define XC_MAXLEN 65536UL
#define IS_DIGIT_(c) ((c) >= '0' && (c) <= '9')
#define IS_HEX(c) (IS_DIGIT_(c) || ((c) >= 'a' && (c) <= 'f') || ((c) >= 'A' && (c) <= 'F'))
#define IS_LOWER_HEX(c) (IS_DIGIT_(c) || ((c) >= 'a' && (c) <= 'f'))
#define HEXVAL(c) (IS_DIGIT_(c) ? (c) - '0' : ((c) >= 'a' && (c) <= 'f') ? (c) - 'a' + 10 : ((c) >= 'A' && (c) <= 'F') ? (c) - 'A' + 10 : -1)
#define LOWER_HEX_DIGIT(v) ((char)((v) < 10 ? '0' + (v) : 'a' + ((v) - 10)))
#define HI_NIB(b) (((b) >> 4) & 0xF)
#define LO_NIB(b) ((b) & 0xF)
/* nibble k (0 = most significant of byte 0) of a byte array */
#define NIB_AT(rep, k) (((k) % 2 == 0) ? HI_NIB((rep)[(k) / 2]) : LO_NIB((rep)[(k) / 2]))
#define XC_ISSPACE(c) ((c) == ' ' || ((c) >= 9 && (c) <= 13))
/* ghost indices: havoc'd once per proof by the harness, never written by extracted code */
extern size_t g_k;
extern size_t g_j;
/* ghost character positions, relative to the start of the underlying object (so that sub-views of one
 * header buffer all speak about the same byte) */
extern size_t g_off;
extern size_t g_off2;
#define POFF(p) ((size_t)__CPROVER_POINTER_OFFSET(p))
#define SV_COVERS(s, o) (POFF((s).data_) <= (o) && (o) < POFF((s).data_) + (s).length_)
#define PTR_OBJ_AT(p, o) (*((p) - POFF(p) + (o)))
#define SV_OBJ_AT(s, o) PTR_OBJ_AT((s).data_, o)
#endif
