/* Prelude for extracted C: shims for the libc / std:: pieces the extracted bodies call.
 * Everything in this file is part of the trusted base (listed in the evidence). */
#ifndef XC_PRELUDE_H
#define XC_PRELUDE_H
#include <stdbool.h>
#include <stddef.h>
#include <stdint.h>
#include <string.h>
#include <stdlib.h>
#include <float.h>
#include <math.h>

#ifdef XC_NATIVE
#undef XC_STRLEN_LOOP
#define XC_STRLEN_LOOP
/* native fidelity build: contracts and ghost code vanish */
#define __CPROVER_requires(...)
#define __CPROVER_ensures(...)
#define __CPROVER_assigns(...)
#define __CPROVER_frees(...)
#define __CPROVER_loop_invariant(...)
#define __CPROVER_decreases(...)
#define __CPROVER_assert(c, m) ((void)0)
#define __CPROVER_assume(c) ((void)0)
#define XC_GHOST(...)
#include <stdio.h>
static inline void xc_throw(void) { fprintf(stderr, "XC_THROW reached\n"); abort(); }
static inline void xc_assert_fail(void) { }
#else
#define XC_GHOST(...) __VA_ARGS__
static inline void xc_throw(void)
{
  __CPROVER_assert(0, "XC_THROW: throw/terminate reached");
  __CPROVER_assume(0);
}
static inline void xc_assert_fail(void) { __CPROVER_assert(0, "XC_ASSERT: assert() of the original code fails"); }
#endif
#define XC_THROW() xc_throw()

/* <cctype> in the "C" locale; negative char values behave as glibc's table does (not a member) */
static inline int xc_isspace(int c) { return c == ' ' || (c >= 9 && c <= 13); }
static inline int xc_isdigit(int c) { return c >= '0' && c <= '9'; }
static inline int xc_islower(int c) { return c >= 'a' && c <= 'z'; }
static inline int xc_isupper(int c) { return c >= 'A' && c <= 'Z'; }
static inline int xc_isalpha(int c) { return xc_islower(c) || xc_isupper(c); }
static inline int xc_isalnum(int c) { return xc_isalpha(c) || xc_isdigit(c); }
static inline int xc_toupper(int c) { return xc_islower(c) ? c - 'a' + 'A' : c; }
static inline int xc_tolower(int c) { return xc_isupper(c) ? c - 'A' + 'a' : c; }

/* strlen. Default: loop free (every loop under --apply-loop-contracts needs a contract), exact for strings shorter than
 * 64 bytes, an obligation (assertion) otherwise. A module that handles unbounded C strings defines XC_STRLEN_LOOP to the
 * loop contract and gets the plain loop. */
static inline size_t xc_strlen(const char *s)
{
#ifdef XC_STRLEN_LOOP
  size_t n = 0;
  while (s[n] != 0)
    XC_STRLEN_LOOP
  {
    n++;
  }
  return n;
#else
  if (!s[0]) return 0;
  if (!s[1]) return 1;
  if (!s[2]) return 2;
  if (!s[3]) return 3;
  if (!s[4]) return 4;
  if (!s[5]) return 5;
  if (!s[6]) return 6;
  if (!s[7]) return 7;
  if (!s[8]) return 8;
  if (!s[9]) return 9;
  if (!s[10]) return 10;
  if (!s[11]) return 11;
  if (!s[12]) return 12;
  if (!s[13]) return 13;
  if (!s[14]) return 14;
  if (!s[15]) return 15;
  if (!s[16]) return 16;
  if (!s[17]) return 17;
  if (!s[18]) return 18;
  if (!s[19]) return 19;
  if (!s[20]) return 20;
  if (!s[21]) return 21;
  if (!s[22]) return 22;
  if (!s[23]) return 23;
  if (!s[24]) return 24;
  if (!s[25]) return 25;
  if (!s[26]) return 26;
  if (!s[27]) return 27;
  if (!s[28]) return 28;
  if (!s[29]) return 29;
  if (!s[30]) return 30;
  if (!s[31]) return 31;
  if (!s[32]) return 32;
  if (!s[33]) return 33;
  if (!s[34]) return 34;
  if (!s[35]) return 35;
  if (!s[36]) return 36;
  if (!s[37]) return 37;
  if (!s[38]) return 38;
  if (!s[39]) return 39;
  if (!s[40]) return 40;
  if (!s[41]) return 41;
  if (!s[42]) return 42;
  if (!s[43]) return 43;
  if (!s[44]) return 44;
  if (!s[45]) return 45;
  if (!s[46]) return 46;
  if (!s[47]) return 47;
  if (!s[48]) return 48;
  if (!s[49]) return 49;
  if (!s[50]) return 50;
  if (!s[51]) return 51;
  if (!s[52]) return 52;
  if (!s[53]) return 53;
  if (!s[54]) return 54;
  if (!s[55]) return 55;
  if (!s[56]) return 56;
  if (!s[57]) return 57;
  if (!s[58]) return 58;
  if (!s[59]) return 59;
  if (!s[60]) return 60;
  if (!s[61]) return 61;
  if (!s[62]) return 62;
  if (!s[63]) return 63;
  __CPROVER_assert(0, "xc_strlen: string longer than the 63 bytes the shim handles");
  return 64;
#endif
}

/* std::string as seen by slices that only read it: pointer + length (owning semantics not modelled) */
typedef struct xc_str { const char *data; size_t len; } xc_str;

/* ldexp(x, 32) = x * 2^32 exactly (power-of-two scaling; CBMC has no body for ldexp); any other exponent is an obligation */
static inline double xc_ldexp(double x, int e)
{
  __CPROVER_assert(e == 32, "xc_ldexp: only the exponent 32 is modelled");
  return x * 4294967296.0;
}

#define XC_SWAP(T, a, b) do { T xc_t = (a); (a) = (b); (b) = xc_t; } while (0)
/* delete p / delete[] p on objects without a modelled destructor: free, counted */
extern unsigned long g_deleted;
static inline void xc_delete(void *p) { g_deleted++; free(p); }

/* new T(args) / new T[n]: malloc + construction. The element loop of XC_NEW_ARRAY has no loop contract: units that reach it
 * are bounded stand-ins (unwinding) or replace the allocating function by a contract. */
#define XC_NEW(T, init) ({ T *xc_p = (T *)malloc(sizeof(T)); __CPROVER_assume(xc_p != NULL); *xc_p = (init); xc_p; })
#define XC_NEW_ARRAY(T, n, init) ({ size_t xc_n = (n); T *xc_p = (T *)malloc(xc_n * sizeof(T)); __CPROVER_assume(xc_p != NULL); \
   for (size_t xc_i = 0; xc_i < xc_n; xc_i++) xc_p[xc_i] = (init); xc_p; })
static inline char *xc_new_chars(size_t n) { char *p = (char *)malloc(n); __CPROVER_assume(p != NULL); return p; }

/* an object the extracted code only passes around */
typedef struct xc_opaque { char xc_unused; } xc_opaque;

#define XC_DEF_MINMAX(T, S)                                              \
  static inline T xc_min_##S(T a, T b) { return b < a ? b : a; }         \
  static inline T xc_max_##S(T a, T b) { return a < b ? b : a; }
XC_DEF_MINMAX(unsigned long, ul)
XC_DEF_MINMAX(long, l)
XC_DEF_MINMAX(int, i)
XC_DEF_MINMAX(unsigned int, u)
XC_DEF_MINMAX(double, d)

#endif
