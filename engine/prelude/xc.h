/* Prelude for extracted C: shims for the libc / std:: pieces the extracted bodies call.
 * Everything in this file is part of the trusted base (listed in the evidence). */
#ifndef XC_PRELUDE_H
#define XC_PRELUDE_H
#include <stdbool.h>
#include <stddef.h>
#include <stdint.h>
#include <string.h>
#include <stdlib.h>
#include <float.h>
#include <math.h>

#ifdef XC_NATIVE
/* native fidelity build: contracts and ghost code vanish */
#define __CPROVER_requires(...)
#define __CPROVER_ensures(...)
#define __CPROVER_assigns(...)
#define __CPROVER_frees(...)
#define __CPROVER_loop_invariant(...)
#define __CPROVER_decreases(...)
#define __CPROVER_assert(c, m) ((void)0)
#define __CPROVER_assume(c) ((void)0)
#define XC_GHOST(...)
#include <stdio.h>
static inline void xc_throw(void) { fprintf(stderr, "XC_THROW reached\n"); abort(); }
static inline void xc_assert_fail(void) { }
#else
#define XC_GHOST(...) __VA_ARGS__
static inline void xc_throw(void)
{
  __CPROVER_assert(0, "XC_THROW: throw/terminate reached");
  __CPROVER_assume(0);
}
static inline void xc_assert_fail(void) { __CPROVER_assert(0, "XC_ASSERT: assert() of the original code fails"); }
#endif
#define XC_THROW() xc_throw()

/* <cctype> in the "C" locale; negative char values behave as glibc's table does (not a member) */
static inline int xc_isspace(int c) { return c == ' ' || (c >= 9 && c <= 13); }
static inline int xc_isdigit(int c) { return c >= '0' && c <= '9'; }
static inline int xc_islower(int c) { return c >= 'a' && c <= 'z'; }
static inline int xc_isupper(int c) { return c >= 'A' && c <= 'Z'; }
static inline int xc_isalpha(int c) { return xc_islower(c) || xc_isupper(c); }
static inline int xc_isalnum(int c) { return xc_isalpha(c) || xc_isdigit(c); }
static inline int xc_toupper(int c) { return xc_islower(c) ? c - 'a' + 'A' : c; }
static inline int xc_tolower(int c) { return xc_isupper(c) ? c - 'A' + 'a' : c; }

#define XC_DEF_MINMAX(T, S)                                              \
  static inline T xc_min_##S(T a, T b) { return b < a ? b : a; }         \
  static inline T xc_max_##S(T a, T b) { return a < b ? b : a; }
XC_DEF_MINMAX(unsigned long, ul)
XC_DEF_MINMAX(long, l)
XC_DEF_MINMAX(int, i)
XC_DEF_MINMAX(unsigned int, u)
XC_DEF_MINMAX(double, d)

#endif
