/* Shims for the metrics SDK units: std::vector<T> as (pointer, length), nostd::variant<int64_t,double> as a tagged union. */
#ifndef XC_METRICS_BOUNDARY_H
#define XC_METRICS_BOUNDARY_H
typedef struct xc_vec_double { double *data; size_t len; } xc_vec_double;
typedef struct xc_vec_u64 { uint64_t *data; size_t len; } xc_vec_u64;
/* nostd::variant<int64_t, double> (sdk::metrics::ValueType): index 0 = int64_t, 1 = double */
typedef struct xc_value { int tag; union { int64_t i; double d; } u; } xc_value;
static inline int64_t xc_vget_i64(xc_value v) { if (v.tag != 0) XC_THROW(); return v.u.i; }   /* bad_variant_access */
static inline double xc_vget_f64(xc_value v) { if (v.tag != 1) XC_THROW(); return v.u.d; }
static inline xc_value xc_vmake_i64(int64_t x) { xc_value v; v.tag = 0; v.u.i = x; return v; }
static inline xc_value xc_vmake_f64(double x) { xc_value v; v.tag = 1; v.u.d = x; return v; }
#endif
