/* Boundary shims for the tracing API units: objects the extracted slices only pass around. */
#ifndef XC_TRACE_BOUNDARY_H
#define XC_TRACE_BOUNDARY_H
/* nostd::shared_ptr<T> seen from a slice that never dereferences it: an opaque identity */
typedef struct xc_handle { unsigned long id; } xc_handle;
#define XC_TS_DEFAULT_ID 1UL
/* ghost record of the TraceState::FromHeader boundary call */
extern unsigned long g_ts_from_header_calls;
extern const char *g_ts_header_data;
extern unsigned long g_ts_header_len;
extern unsigned long g_ts_from_header_result;
/* TextMapCarrier / Context seen from a propagator: opaque */
typedef struct xc_carrier { int xc_unused; } xc_carrier;
typedef struct xc_ctx { unsigned long id; } xc_ctx;
#define XC_MAX_GET 5
#define XC_MAX_SET 4
#define XC_SET_CAP 64
#define XC_KEY_CAP 16
static inline xc_handle xc_TraceState_GetDefault(void) { xc_handle h; h.id = XC_TS_DEFAULT_ID; return h; }
#endif
