"""./check implementation: run a property's proofs, classify, write evidence, print verdict lines."""
import concurrent.futures
import importlib
import json
import os
import re
import shutil
import subprocess
import sys
import time

from . import core
from . import prove as P
from .xc.cxxast import ExtractionError

ROOT = core.ROOT
EVID = os.path.join(ROOT, "evidence")
KNOWN = os.path.join(ROOT, "known_findings.json")


def load_known():
    try:
        with open(KNOWN) as f:
            return json.load(f)
    except FileNotFoundError:
        return {"findings": [], "fixed": []}


def obligation_matches(patterns, name):
    return any(re.search(p, name) for p in patterns)


def run_property(prop_id, tier="quick", seed=0, only=None, jobs=None, keep_going=True):
    t0 = time.time()
    mod = importlib.import_module("engine.units." + prop_id.lower())
    workdir = os.path.join(core.WORK, prop_id)
    os.makedirs(workdir, exist_ok=True)
    known = load_known()
    out_lines = []
    verdict = {"violations": [], "undecided": [], "known": []}
    try:
        ix = core.get_index(mod.tu_name, mod.tu_text, getattr(mod, "tu_filters", ("opentelemetry",)))
        extra_ix = {}
    except ExtractionError as e:
        print("UNDECIDED property=%s reason=extraction: %s" % (prop_id, str(e)[:500]))
        write_evidence(prop_id, tier, seed, mod, [], time.time() - t0, verdict, fatal=str(e))
        return 2
    proofs = [p for p in mod.proofs if (tier == "thorough" or p.tier == "quick")]
    global EVID
    if only or os.environ.get("VERIF_REPO"):
        # partial runs and runs against a scratch copy of the repository never overwrite the evidence of /repo
        EVID = os.path.join(core.WORK, "evidence")
    if only:
        proofs = [p for p in proofs if p.name in only]
    jobs = jobs or int(os.environ.get("VERIF_JOBS", "8"))
    results = []
    with concurrent.futures.ThreadPoolExecutor(max_workers=jobs) as ex:
        futs = {}
        for p in proofs:
            pix = ix
            if getattr(p, "tu", None):
                pix = core.get_index(p.tu[0], p.tu[1])
            futs[ex.submit(core.run_one, mod, p, pix, workdir)] = p
        for f in concurrent.futures.as_completed(futs):
            results.append((futs[f], f.result()))
    results.sort(key=lambda pr: [p.name for p in mod.proofs].index(pr[0].name))

    # every contract used for replacement must be enforced by some proof of this module (or declared assumed)
    enforced = {p.enforce for p in mod.proofs if p.enforce}
    assumed = set(getattr(mod, "assumed_contracts", {}).keys())
    for p in mod.proofs:
        for r in p.replace:
            if r not in enforced and r not in assumed:
                verdict["undecided"].append("%s: callee contract %s is replaced but never enforced or declared assumed" % (p.name, r))

    for proof, out in results:
        st = out["status"]
        if st != "ok":
            verdict["undecided"].append("%s: %s: %s" % (proof.name, st, out.get("error", "")[:600]))
            continue
        res = out["result"]
        if res.canary_ok is False:
            verdict["undecided"].append("%s: vacuity canary did not fail (preconditions unsatisfiable or harness end unreachable)" % proof.name)
            continue
        if res.canary_ok is None:
            verdict["undecided"].append("%s: no vacuity canary in harness" % proof.name)
            continue
        if res.unknown and not res.failed:
            verdict["undecided"].append("%s: solver returned unknown for %d obligations" % (proof.name, len(res.unknown)))
            continue
        if res.n_obligations == 0:
            verdict["undecided"].append("%s: zero obligations generated" % proof.name)
            continue
        for pat in proof.expect_obligations:
            if not any(re.search(pat, p["name"]) for p in res.props):
                verdict["undecided"].append("%s: expected obligation %s missing (contract silently dropped?)" % (proof.name, pat))
        # loop contracts must have produced step obligations
        nloops_with_contract = 0
        contracts = dict(mod.contracts)
        if proof.contracts:
            contracts.update(proof.contracts)
        live = {p["function"] for p in res.props} | {p["name"].split(".")[0] for p in res.props}
        for fn in out.get("functions", []):
            if fn["role"] != "replaced-by-contract" and fn["c_name"] in live:
                nloops_with_contract += len(contracts.get(fn["c_name"], {}).get("loops", {}))
        nstep = len({p["name"] for p in res.props if "loop_invariant_step" in p["name"] or "loop_step" in p["name"]})
        if proof.loop_contracts and nloops_with_contract and nstep == 0:
            verdict["undecided"].append("%s: loop contracts declared but no loop_invariant_step obligation present" % proof.name)
        failed = res.failed
        if out.get("loops_without_contract"):
            cut = [f for f in failed if ".unwind." in f["name"]]
            failed = [f for f in failed if ".unwind." not in f["name"]]
            if cut and not failed:
                verdict["undecided"].append("%s: loop without a loop contract in %s (the code gained a loop); unwound 64 times, nothing failed in that prefix, the rest is not decided" % (proof.name, ", ".join(out["loops_without_contract"])))
        for f in failed:
            verdict["violations"].append({"proof": proof.name, "obligation": f["name"], "description": f["description"],
                                          "file": f["file"], "line": f["line"], "level": proof.level,
                                          "property_level": obligation_matches(proof.property_level, f["name"])})

    # known findings / replay
    rc = 0
    final_viol = []
    for v in verdict["violations"]:
        kf = match_known(known, prop_id, v)
        if kf:
            verdict["known"].append({"finding": kf, "violation": v})
        else:
            final_viol.append(v)
    # listed findings that did NOT show up are simply not printed (they may have been fixed)
    printed = set()
    for k in verdict["known"]:
        if id(k["finding"]) not in printed:
            printed.add(id(k["finding"]))
            print("KNOWN-FINDING: property=%s %s" % (prop_id, k["finding"]["what"]))
    replay_dir = os.path.join(ROOT, "replay")
    if final_viol:
        os.makedirs(replay_dir, exist_ok=True)
        # group by proof
        by_proof = {}
        for v in final_viol:
            by_proof.setdefault(v["proof"], []).append(v)
        for pname, vs in by_proof.items():
            proof = [p for p in mod.proofs if p.name == pname][0]
            path = os.path.join(replay_dir, "%s-%s.json" % (prop_id, pname))
            rep = {"property": prop_id, "proof": pname, "failed_obligations": vs,
                   "c_file": os.path.join(workdir, pname + ".c"),
                   "verifier": "cbmc 6.11.0 (goto-instrument --dfcc)", "how_to_rerun": "./check %s --only %s" % (prop_id, pname)}
            cex = None
            try:
                from . import refute
                cex = refute.find_counterexample(mod, proof, vs, ix, workdir, seed)
            except Exception as e:   # refutation is best effort; never hides the violation
                rep["refute_error"] = str(e)[:1000]
            if cex and cex.get("reproduced"):
                rep["counterexample"] = cex
                with open(path, "w") as f:
                    json.dump(rep, f, indent=1)
                print("VIOLATION property=%s replay=%s" % (prop_id, path))
            else:
                if cex:
                    rep["counterexample_attempt"] = cex
                res = [o for p, o in results if p.name == pname][0]["result"]
                rep["verifier_output_tail"] = res.raw_tail
                with open(path, "w") as f:
                    json.dump(rep, f, indent=1)
                print("VIOLATION property=%s replay=%s obligation=%s no-failing-input-found" % (prop_id, path, vs[0]["obligation"]))
            rc = 1
    if rc == 0 and verdict["undecided"]:
        for u in verdict["undecided"]:
            print("UNDECIDED property=%s %s" % (prop_id, u.replace("\n", " ")[:700]))
        rc = 2
    write_evidence(prop_id, tier, seed, mod, results, time.time() - t0, verdict, nviol=len(final_viol))
    if rc == 0:
        nob = sum(o["result"].n_obligations for p, o in results if o["status"] == "ok" and p.level == "deductive")
        print("OK property=%s proofs=%d obligations=%d wall=%.1fs" % (prop_id, len(results), nob, time.time() - t0))
    return rc


def match_known(known, prop_id, v):
    for k in known.get("findings", []):
        if k.get("property") != prop_id:
            continue
        if k.get("proof") == v["proof"] and re.fullmatch(k.get("obligation", ".*"), v["obligation"]):
            return k
    return None


def write_evidence(prop_id, tier, seed, mod, results, wall, verdict, nviol=0, fatal=None):
    os.makedirs(EVID, exist_ok=True)
    ded = [(p, o) for p, o in results if o["status"] == "ok" and p.level == "deductive"]
    bnd = [(p, o) for p, o in results if o["status"] == "ok" and p.level != "deductive"]
    known_obl = {(k["violation"]["proof"], k["violation"]["obligation"]) for k in verdict["known"]}
    # an obligation whose failure is a listed known finding is reported separately, not as a (non-)discharged obligation
    obligations = sum(o["result"].n_obligations for p, o in ded) - len(known_obl)
    discharged = sum(o["result"].n_discharged for p, o in ded)
    funcs = {}
    ext_rules = {}
    ext_calls = {}
    for p, o in results:
        for f in o.get("functions", []):
            e = funcs.setdefault(f["c_name"], {"c_name": f["c_name"], "source": f["source"], "line": f["line"],
                                               "loops": f["loops"], "roles": set()})
            e["roles"].add("%s in %s" % (f["role"], p.name))
        for k, v in o.get("extraction", {}).get("rules", {}).items():
            ext_rules[k] = ext_rules.get(k, 0) + v
        for k, v in o.get("extraction", {}).get("external_calls", {}).items():
            ext_calls[k] = ext_calls.get(k, 0) + v
    enforced = sorted({p.enforce for p, o in ded if p.enforce})
    samples = []
    for p, o in ded[:]:
        r = o["result"]
        for pr in r.props:
            if "postcondition" in pr["name"] or "loop_invariant_step" in pr["name"]:
                samples.append({"proof": p.name, "obligation": pr["name"], "status": pr["status"],
                                "description": pr["description"][:160]})
                break
    cov = {
        "obligations": obligations,
        "discharged": discharged,
        "checker_cmd": "goto-cc --function h_<unit> <unit>.c | goto-instrument --add-library | goto-instrument <safety checks> | "
                       "goto-instrument --dfcc h_<unit> --enforce-contract <f> [--replace-call-with-contract <g>]* --apply-loop-contracts | "
                       "cbmc --no-standard-checks --json-ui   (cbmc 6.11.0; per-unit command lines in 'units')",
        "trusted_base": list(getattr(mod, "trusted", ())) + [
            "clang 14 AST + /verif/engine/xc extractor (C++ AST -> C)", "engine/prelude shims (xc.h and boundary headers)",
            "CBMC 6.11.0 / minisat2"],
        "functions_under_contract": enforced,
        "functions": [dict(v, roles=sorted(v["roles"])) for v in funcs.values()],
        "units": [{"proof": p.name, "level": p.level, "tier": p.tier, "status": o["status"], "wall_s": o["wall_s"],
                   "backend": o["result"].backend if o["status"] == "ok" else None,
                   "solver_s": round(o["result"].solver_s, 2) if o["status"] == "ok" else None,
                   "obligations": o["result"].n_obligations if o["status"] == "ok" else 0,
                   "discharged": o["result"].n_discharged if o["status"] == "ok" else 0,
                   "failed": [f["name"] for f in o["result"].failed] if o["status"] == "ok" else [],
                   "canary_failed_as_required": o["result"].canary_ok if o["status"] == "ok" else None,
                   "enforce": p.enforce, "replaced_callees": p.replace, "unwind": p.unwind,
                   "bound_note": p.bound_note, "desc": p.desc,
                   "cmds": [c["cmd"] for c in o["result"].cmds][-2:] if o["status"] == "ok" else [],
                   "error": o.get("error", "")[:400]} for p, o in results],
        "bounded_standins": [{"proof": p.name, "bound": p.bound_note, "obligations": o["result"].n_obligations,
                              "passed": o["result"].n_discharged} for p, o in bnd],
        "extraction": {"rules_fired": ext_rules, "external_calls_through_shims": ext_calls,
                       "source": "clang++ -Xclang -ast-dump=json of %s's current working tree" % core.REPO},
        "samples": samples[:12] or [{"note": "no obligation sample (no proof ran)"}],
        "known_findings_reported": [k["finding"]["what"] for k in verdict["known"]],
        "failed_obligations_listed_as_known_findings": len(known_obl),
        "undecided": verdict["undecided"],
        "not_covered": list(getattr(mod, "not_covered", ())),
    }
    if fatal:
        cov["fatal"] = fatal
    ev = {"property_id": prop_id, "tier": tier, "seed": int(seed), "level": "proof", "coverage": cov,
          "assumptions": list(getattr(mod, "assumptions", ())), "wall_s": round(wall, 2), "violations": nviol}
    with open(os.path.join(EVID, prop_id + ".json"), "w") as f:
        json.dump(ev, f, indent=1)


def main(argv):
    import argparse
    ap = argparse.ArgumentParser()
    ap.add_argument("prop")
    ap.add_argument("--tier", default=os.environ.get("VERIF_TIER", "quick"))
    ap.add_argument("--only", nargs="*")
    ap.add_argument("--jobs", type=int)
    a = ap.parse_args(argv)
    seed = int(os.environ.get("VERIF_SEED", "0") or 0)
    rc = run_property(a.prop, a.tier, seed, a.only, a.jobs)
    return rc
