"""Refute mode (DESIGN 3.4): obtain a *real* failing input for a failed obligation and replay it natively.

Counterexamples are never taken from modular proof traces of units with loop contracts or replaced callees
(those start from havoc'd states).  Two sources are used:
  * leaf_trace: the unit has no loop contract and no replaced callee -> its proof trace is an execution;
  * bounded_cex: the same extracted text, callees inlined, loops unwound, inputs capped, property-level
    assertions only, SAT back end, inputs read back from the trace.
The native driver (engine/replay/*.cc, built from the current /repo tree) has the final word.
"""
import hashlib
import json
import os
import re
import subprocess

from . import core
from . import prove as P

BIN = os.path.join(core.WORK, "bin")


_BUILT = {}


def build_native(name, sources, extra_flags=(), timeout=900):
    """Compile a native driver against the current /repo tree into .work/bin. Returns path or raises.
    Built once per run (process): the tree does not change while one check is running."""
    key = (name, tuple(sources), tuple(extra_flags))
    if key in _BUILT and os.path.exists(_BUILT[key]):
        return _BUILT[key]
    out = _build_native(name, sources, extra_flags, timeout)
    _BUILT[key] = out
    return out


def _build_native(name, sources, extra_flags=(), timeout=900):
    os.makedirs(BIN, exist_ok=True)
    out = os.path.join(BIN, name)
    base = ["g++", "-std=c++17", "-O0", "-g0", "-w", "-DOPENTELEMETRY_ABI_VERSION_NO=1",
            "-I%s/api/include" % core.REPO, "-I%s/sdk/include" % core.REPO, "-I%s/sdk" % core.REPO,
            "-I%s" % os.path.join(core.HERE, "prelude")] + list(extra_flags)
    sources = list(sources)
    if len(sources) > 3:
        # many translation units of the current tree: compile them side by side
        from concurrent.futures import ThreadPoolExecutor
        odir = os.path.join(BIN, name + ".o.d")
        os.makedirs(odir, exist_ok=True)

        def cc(i_src):
            i, src = i_src
            o = os.path.join(odir, "%d.o" % i)
            p = subprocess.run(base + ["-c", src, "-o", o], stdout=subprocess.PIPE, stderr=subprocess.PIPE, text=True, timeout=timeout)
            if p.returncode != 0:
                raise RuntimeError("native driver build failed: %s" % p.stderr[-2000:])
            return o
        with ThreadPoolExecutor(max_workers=min(8, len(sources))) as ex:
            objs = list(ex.map(cc, enumerate(sources)))
        sources = objs
    cmd = base + sources + ["-o", out, "-lpthread"]
    p = subprocess.run(cmd, stdout=subprocess.PIPE, stderr=subprocess.PIPE, text=True, timeout=timeout)
    if p.returncode != 0:
        raise RuntimeError("native driver build failed: %s" % p.stderr[-2000:])
    return out


def run_native(binpath, args, timeout=120):
    p = subprocess.run([binpath] + [str(a) for a in args], stdout=subprocess.PIPE, stderr=subprocess.PIPE, text=True, timeout=timeout)
    return p.returncode, (p.stdout + p.stderr)[-2000:]


def _scalars_from_trace(trace):
    vals = {}
    for st in trace:
        if st.get("stepType") != "assignment":
            continue
        v = st.get("value", {})
        if "data" in v:
            vals[st.get("lhs", "")] = v["data"]
        if "binary" in v:
            vals[st.get("lhs", "") + "#bin"] = v["binary"]
    return vals


def leaf_trace(workdir, proof_name, obligation, timeout=300):
    """Re-run cbmc with --trace on the already built goto binary of a leaf proof."""
    gb = os.path.join(workdir, proof_name + ".c.gb")
    if not os.path.exists(gb) or (os.path.exists(os.path.join(workdir, proof_name + ".b.gb")) and
                                  os.path.getmtime(os.path.join(workdir, proof_name + ".b.gb")) > os.path.getmtime(gb)):
        gb = os.path.join(workdir, proof_name + ".b.gb")     # plain harness proofs are not dfcc-instrumented
    p = subprocess.run(["cbmc", "--no-standard-checks", "--json-ui", "--trace", "--property", obligation, gb],
                       stdout=subprocess.PIPE, stderr=subprocess.PIPE, text=True, timeout=timeout)
    try:
        data = json.loads(p.stdout)
    except Exception:
        return None
    for it in data:
        if isinstance(it, dict) and "result" in it:
            for r in it["result"]:
                if r.get("status") == "FAILURE" and "trace" in r:
                    return _scalars_from_trace(r["trace"])
    return None


def to_int(s):
    try:
        if isinstance(s, str) and s.lower() in ("true", "false"):
            return 1 if s.lower() == "true" else 0
        return int(str(s).rstrip("ulUL"))
    except Exception:
        try:
            return int(float(s))
        except Exception:
            return None


def array_from(vals, prefix, n):
    out = []
    for i in range(n):
        for key in ("%s[%dl]" % (prefix, i), "%s[%d]" % (prefix, i), "%s[%dul]" % (prefix, i)):
            if key in vals:
                out.append(to_int(vals[key]) or 0)
                break
        else:
            out.append(0)
    return out


def bounded_cex(mod, name, roots, harness, ix, workdir, unwind, timeout=600, configure=None, extra_c=""):
    """Inlined + unwound search for an assertion failure in `harness`. Returns scalar map of the failing trace or None."""
    pr = core.Proof(name, roots, enforce=None, replace=(), harness=harness, unwind=unwind, loop_contracts=False,
                    level="bounded", contracts={}, configure=configure, extra_c=extra_c)
    # no contracts at all: pure execution semantics of the extracted text
    class M:
        pass
    m = M()
    for k in dir(mod):
        if not k.startswith("__"):
            setattr(m, k, getattr(mod, k))
    m.contracts = {k: {kk: vv for kk, vv in v.items() if kk in ("pragmas",)} for k, v in mod.contracts.items()}
    text, entry, em = core.build_c(m, pr, ix)
    os.makedirs(workdir, exist_ok=True)
    try:
        res = P.prove(workdir, name, text, entry, enforce=None, replace=(), loop_contracts=False, unwind=unwind,
                      timeout=timeout, trace=True)
    except P.Undecided:
        return None
    for p in res.props:
        if p["status"] == "FAILURE" and "trace" in p and "XC_CANARY" not in p["description"] and "unwinding" not in p["name"]:
            vals = _scalars_from_trace(p["trace"])
            vals["__failed__"] = p["name"] + ": " + p["description"]
            return vals
    return None


def find_counterexample(mod, proof, violations, ix, workdir, seed):
    h = getattr(mod, "refuters", {}).get(proof.name)
    if h is None:
        return None
    return h(mod, proof, violations, ix, workdir, seed)


def replay_file(path):
    with open(path) as f:
        rep = json.load(f)
    cex = rep.get("counterexample")
    if not cex:
        print("replay file carries no concrete input (no-failing-input-found); failed obligations:")
        for v in rep.get("failed_obligations", []):
            print("  %s: %s" % (v["obligation"], v["description"]))
        print(rep.get("verifier_output_tail", "")[-1500:])
        return 1
    binpath = build_native(cex["driver"], [os.path.join(core.HERE, "replay", s) for s in cex["driver_sources"]] +
                           [os.path.join(core.REPO, s) for s in cex.get("repo_sources", ())], cex.get("driver_flags", ()))
    rc, out = run_native(binpath, cex["args"])
    print(out.strip())
    print("REPRODUCED" if rc != 0 else "NOT-REPRODUCED", "obligation=%s" % rep["failed_obligations"][0]["obligation"])
    return 1 if rc != 0 else 0


def native_check(driver, sources, args, flags=(), repo_sources=()):
    """Build + run; returns dict for the replay file. repo_sources are .cc files of the current /repo tree compiled in."""
    binpath = build_native(driver, [os.path.join(core.HERE, "replay", s) for s in sources] +
                           [os.path.join(core.REPO, s) for s in repo_sources], flags)
    rc, out = run_native(binpath, args)
    return {"driver": driver, "driver_sources": list(sources), "repo_sources": list(repo_sources), "driver_flags": list(flags), "args": [str(a) for a in args],
            "native_output": out.strip()[-800:], "reproduced": rc != 0 and rc != 2}
