"""goto-cc / goto-instrument --dfcc / cbmc driver and result classification."""
import json
import os
import re
import resource
import subprocess
import time

HERE = os.path.dirname(os.path.abspath(__file__))
PRELUDE = os.path.join(HERE, "prelude")
WORK = os.path.abspath(os.environ.get("VERIF_WORK", os.path.join(HERE, "..", ".work")))

CHECK_FLAGS = ["--pointer-check", "--bounds-check", "--signed-overflow-check", "--undefined-shift-check",
               "--div-by-zero-check", "--pointer-overflow-check"]


class Undecided(Exception):
    """tool failure / timeout / unknown: exit 2, never a violation"""


def _limits(mem_gb):
    def f():
        lim = int(mem_gb * (1 << 30))
        resource.setrlimit(resource.RLIMIT_AS, (lim, lim))
    return f


def _killpg(pr):
    """kill the process and everything it started (cbmc --cvc5 runs the SMT solver as a child that would otherwise survive)"""
    import os, signal
    try:
        os.killpg(pr.pid, signal.SIGKILL)
    except Exception:
        try:
            pr.kill()
        except Exception:
            pass
    try:
        pr.wait(timeout=10)
    except Exception:
        pass


def _run(cmd, timeout, mem_gb, log, cwd=None):
    t0 = time.time()
    pr = subprocess.Popen(cmd, stdout=subprocess.PIPE, stderr=subprocess.PIPE, text=True, preexec_fn=_limits(mem_gb), cwd=cwd,
                          start_new_session=True)
    try:
        out, err = pr.communicate(timeout=timeout)
    except subprocess.TimeoutExpired:
        _killpg(pr)
        log.append({"cmd": " ".join(cmd), "timeout_s": timeout})
        raise Undecided("timeout after %ds: %s" % (timeout, " ".join(cmd[:3])))
    except BaseException:
        _killpg(pr)
        raise
    log.append({"cmd": " ".join(cmd), "rc": pr.returncode, "s": round(time.time() - t0, 2)})
    return _P(pr.returncode, out, err)


class _P:
    def __init__(self, rc, out, err):
        self.returncode, self.stdout, self.stderr = rc, out, err


def _race(cmds, timeout, mem_gb, res):
    """Run the command lines concurrently, return the first that finishes with a cbmc result; kill the others.
    minisat2 wins on pointer-heavy units, cadical on arithmetic/floating-point ones (DoubleHist_Aggregate: > 900 s vs 3 s)."""
    import tempfile
    t0 = time.time()
    procs = []
    for cmd in cmds:
        fo = tempfile.TemporaryFile(mode="w+")
        fe = tempfile.TemporaryFile(mode="w+")
        procs.append((cmd, subprocess.Popen(cmd, stdout=fo, stderr=fe, text=True, preexec_fn=_limits(mem_gb), start_new_session=True), fo, fe))
    winner = None
    try:
        while time.time() - t0 < timeout:
            alive = 0
            for cmd, pr, fo, fe in procs:
                rc = pr.poll()
                if rc is None:
                    alive += 1
                    continue
                fo.seek(0)
                out = fo.read()
                if '"result"' in out or "too many addressed objects" in out:
                    if "--cvc5" in cmd and (out.count('"status": "SUCCESS"') == 0 or '"status": "ERROR"' in out or
                                            '"status": "UNKNOWN"' in out or out.count('"status": "FAILURE"') > out.count("XC_CANARY")):
                        continue    # an SMT answer is taken only when it is a clean proof; otherwise the SAT solvers decide
                    if ('"status": "ERROR"' in out or '"status": "UNKNOWN"' in out) and out.count('"status": "FAILURE"') <= out.count("XC_CANARY"):
                        continue    # a solver that gave up (memory limit) on some obligations has not answered: the others go on
                    fe.seek(0)
                    winner = (cmd, _P(rc, out, fe.read()))
                    break
            if winner or alive == 0:
                break
            time.sleep(0.2)
    finally:
        for cmd, pr, fo, fe in procs:
            if pr.poll() is None:
                _killpg(pr)
            else:
                _killpg(pr)     # the SMT child of a finished / crashed cbmc
    if winner is None:
        # all finished without a result, or timeout
        if time.time() - t0 >= timeout:
            res.cmds.append({"cmd": " || ".join(" ".join(c) for c in cmds), "timeout_s": timeout})
            raise Undecided("timeout after %ds (portfolio): %s" % (timeout, " ".join(cmds[0][:3])))
        cmd, pr, fo, fe = procs[0]
        fo.seek(0); fe.seek(0)
        winner = (cmd, _P(pr.returncode, fo.read(), fe.read()))
    res.cmds.append({"cmd": " ".join(winner[0]), "rc": winner[1].returncode, "s": round(time.time() - t0, 2), "raced_against": len(cmds) - 1})
    res.backend = "portfolio, answered by " + ("cadical (SAT)" if "cadical" in winner[0] else "cvc5 (SMT)" if "--cvc5" in winner[0] else "minisat2 (SAT)")
    return winner[1]


class Result:
    def __init__(self):
        self.props = []        # [{name, description, status, file, line, function}]
        self.solver_s = 0.0
        self.wall_s = 0.0
        self.cmds = []
        self.backend = ""
        self.warnings = []
        self.canary_ok = None
        self.raw_tail = ""
        self.partial = ""

    @property
    def failed(self):
        return [p for p in self.props if p["status"] == "FAILURE" and not p["name"].startswith("XC_CANARY") and "XC_CANARY" not in p["description"]]

    @property
    def unknown(self):
        return [p for p in self.props if p["status"] not in ("SUCCESS", "FAILURE")]

    @property
    def n_obligations(self):
        return len([p for p in self.props if "XC_CANARY" not in p["description"]])

    @property
    def n_discharged(self):
        return len([p for p in self.props if p["status"] == "SUCCESS" and "XC_CANARY" not in p["description"]])


def prove(workdir, name, c_text, entry, enforce=None, replace=(), loop_contracts=True, solver="sat",
          unwind=None, unwindset=(), timeout=900, mem_gb=24, trace=False, object_bits=None, extra_defs=(),
          no_checks=False, nondet_static=False, extra_checks=(), unwinding_assertions=True):
    """Run the pipeline on c_text. Returns Result. Raises Undecided on tool trouble."""
    os.makedirs(workdir, exist_ok=True)
    src = os.path.join(workdir, name + ".c")
    with open(src, "w") as f:
        f.write(c_text)
    res = Result()
    t0 = time.time()
    a, b, c = (os.path.join(workdir, name + s) for s in (".a.gb", ".b.gb", ".c.gb"))
    p = _run(["goto-cc", "--function", entry, "-I", PRELUDE] + ["-D" + d for d in extra_defs] + [src, "-o", a],
             120, mem_gb, res.cmds)
    if p.returncode != 0:
        raise Undecided("goto-cc failed on %s:\n%s" % (src, (p.stdout + p.stderr)[-3000:]))
    a2 = a + ".lib.gb"
    p = _run(["goto-instrument", "--add-library", a, a2], 300, mem_gb, res.cmds)
    if p.returncode != 0:
        raise Undecided("goto-instrument(add-library) failed:\n%s" % (p.stdout + p.stderr)[-3000:])
    a = a2
    if no_checks:
        b = a
    else:
        p = _run(["goto-instrument"] + CHECK_FLAGS + list(extra_checks) + [a, b], 300, mem_gb, res.cmds)
        if p.returncode != 0:
            raise Undecided("goto-instrument(checks) failed:\n%s" % (p.stdout + p.stderr)[-3000:])
    use_dfcc = bool(enforce or replace or loop_contracts)
    cmd = ["goto-instrument", "--dfcc", entry]
    if enforce:
        cmd += ["--enforce-contract", enforce]
    for r in replace:
        cmd += ["--replace-call-with-contract", r]
    if loop_contracts:
        cmd += ["--apply-loop-contracts"]
    if nondet_static:
        cmd += ["--nondet-static"]
    cmd += [b, c]
    if use_dfcc:
        p = _run(cmd, 600, mem_gb, res.cmds)
        if p.returncode != 0:
            raise Undecided("goto-instrument(dfcc) failed:\n%s" % (p.stdout + p.stderr)[-3000:])
    else:
        c = b    # plain harness: no contract instrumentation needed
    cb = ["cbmc", "--no-standard-checks", "--json-ui"]
    if solver == "cvc5":
        cb.append("--cvc5")
    elif solver == "z3":
        cb.append("--z3")
    elif solver == "cadical":
        cb += ["--sat-solver", "cadical"]
    res.backend = {"portfolio_smt": "portfolio (minisat2 and cvc5 raced)", "portfolio3": "portfolio (minisat2, cadical, cvc5 raced)", "portfolio": "SAT portfolio (minisat2 and cadical raced, first answer taken)", "sat": "SAT (minisat2, CBMC built-in)", "cvc5": "SMT2 (cvc5)", "z3": "SMT2 (z3)", "cadical": "SAT (cadical)"}[solver]
    if unwind is not None:
        cb += ["--unwind", str(unwind)] + (["--unwinding-assertions"] if unwinding_assertions else [])
    for u in unwindset:
        cb += ["--unwindset", u]
    if unwindset and unwind is None:
        cb += ["--unwinding-assertions"]
    if trace:
        cb.append("--trace")
    # the default 8 object bits are much faster than 12 (SplitString: 36 s vs > 300 s); widen only on demand
    for ob in ([object_bits] if object_bits else [None, 10, 12, 16]):
        cmdl = cb + (["--object-bits", str(ob)] if ob else []) + [c]
        try:
            p = _solve(cmdl, solver, timeout, mem_gb, res)
        except Undecided as e:
            # the full obligation set timed out: a second, short pass over the safety obligations only (overflow, pointer,
            # bounds, shift, division) so that a definite failure among them is still reported
            fb = _safety_only(cb + (["--object-bits", str(ob)] if ob else []), c, mem_gb, res)
            if fb is None:
                raise
            res.partial = "full run timed out (%s); only the %d safety obligations were decided in a second pass" % (e, len(fb))
            res.props = fb
            res.canary_ok = True     # vacuity is not the question here: a safety obligation definitely fails
            res.wall_s = time.time() - t0
            return res
        if "too many addressed objects" in p.stdout and not object_bits:
            continue
        break
    res.wall_s = time.time() - t0
    out = p.stdout
    res.raw_tail = out[-2000:]
    return _parse(res, p, out, trace)


def _solve(cmdl, solver, timeout, mem_gb, res):
    if True:
        if solver in ("portfolio", "portfolio3", "portfolio_smt"):
            cands = [cmdl] + ([cmdl[:1] + ["--sat-solver", "cadical"] + cmdl[1:]] if solver != "portfolio_smt" else [])
            if solver in ("portfolio3", "portfolio_smt"):
                cands.append(cmdl[:1] + ["--cvc5"] + cmdl[1:])
            return _race(cands, timeout, mem_gb, res)
        return _run(cmdl, timeout, mem_gb, res.cmds)


SAFETY_CLASSES = ("overflow", "pointer_dereference", "pointer_arithmetic", "array_bounds", "undefined-shift", "division-by-zero", "pointer_primitives")


def _safety_only(cb, gb, mem_gb, res, budget=360):
    try:
        lp = subprocess.run(["cbmc", "--no-standard-checks", "--show-properties", "--json-ui", gb], stdout=subprocess.PIPE,
                            stderr=subprocess.PIPE, text=True, timeout=120)
        data = json.loads(lp.stdout)
    except Exception:
        return None
    names = []
    for it in data:
        if isinstance(it, dict) and "properties" in it:
            for pr in it["properties"]:
                n = pr.get("name", "")
                if any(("." + c + ".") in n for c in SAFETY_CLASSES) and not n.startswith("__CPROVER") and "library" not in pr.get("sourceLocation", {}).get("file", ""):
                    names.append(n)
    if not names:
        return None
    base = [x for x in cb if x != "--trace"]
    if "--object-bits" in base:
        k = base.index("--object-bits")
        base = base[:k] + base[k + 2:]
    # one batch per obligation class (slicing keeps the number of addressed objects and the formula small)
    t_start = time.time()
    all_data = []
    for cls in SAFETY_CLASSES:
        batch = [n for n in names if ("." + cls + ".") in n]
        if not batch:
            continue
        for ob in (None, 10, 12):
            left = budget - (time.time() - t_start)
            if left < 10:
                break
            cmd = list(base) + (["--object-bits", str(ob)] if ob else [])
            for n in batch:
                cmd += ["--property", n]
            cmd.append(gb)
            try:
                p = _run(cmd, int(left), mem_gb, res.cmds)
            except Exception:
                break
            if "too many addressed objects" in p.stdout:
                continue
            try:
                all_data += json.loads(p.stdout)
            except Exception:
                pass
            break
    data = all_data
    props = []
    for item in data:
        if isinstance(item, dict) and "result" in item:
            for r in item["result"]:
                sl = r.get("sourceLocation", {})
                props.append({"name": r.get("property", ""), "description": r.get("description", ""), "status": r.get("status", ""),
                              "file": sl.get("file", ""), "line": sl.get("line", ""), "function": sl.get("function", "")})
    if not any(p_["status"] == "FAILURE" for p_ in props):
        return None      # nothing definite: stay undecided
    props.append({"name": "XC_CANARY.fallback", "description": "XC_CANARY not run in the safety-only pass", "status": "FAILURE", "file": "", "line": "", "function": ""})
    return props


def _parse(res, p, out, trace):
    try:
        data = json.loads(out)
    except Exception:
        raise Undecided("cbmc produced no parsable output (rc=%s): %s" % (p.returncode, (out + p.stderr)[-1500:]))
    got_result = False
    for item in data:
        if not isinstance(item, dict):
            continue
        if "messageText" in item:
            mt = item["messageText"]
            if "ignoring" in mt or "warning" in item.get("messageType", "").lower():
                res.warnings.append(mt)
            m = re.search(r"Runtime (?:decision procedure|Solver): ([0-9.]+)s", mt)
            if m:
                res.solver_s += float(m.group(1))
        if "result" in item:
            got_result = True
            for r in item["result"]:
                sl = r.get("sourceLocation", {})
                ent = {"name": r.get("property", ""), "description": r.get("description", ""),
                       "status": r.get("status", ""), "file": sl.get("file", ""), "line": sl.get("line", ""),
                       "function": sl.get("function", "")}
                if trace and r.get("status") == "FAILURE" and "trace" in r:
                    ent["trace"] = r["trace"]
                res.props.append(ent)
    if not got_result:
        raise Undecided("cbmc gave no result (rc=%s): %s" % (p.returncode, (out + p.stderr)[-1500:]))
    for w in res.warnings:
        if "ignoring" in w and ("forall" in w or "exists" in w):
            raise Undecided("quantifier ignored by the SAT back end: " + w)
    can = [p for p in res.props if "XC_CANARY" in p["description"]]
    if can:
        res.canary_ok = all(p["status"] == "FAILURE" for p in can)
    return res


def trace_values(trace, names):
    """last assigned value of each variable name in a cbmc JSON trace"""
    out = {}
    for step in trace:
        if step.get("stepType") == "assignment":
            lhs = step.get("lhs", "")
            if lhs in names or any(lhs.startswith(n + "[") or lhs.startswith(n + ".") for n in names):
                v = step.get("value", {})
                out[lhs] = v.get("data", v.get("name"))
    return out
