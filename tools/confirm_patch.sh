#!/bin/bash
# usage: confirm_patch.sh <patch.diff> [wt]   -- applies, rebuilds, runs the full test suite, reverts. Prints pass/fail counts.
WT=${2:-/tmp/confirm}
git -C "$WT" checkout -q -- . && git -C "$WT" apply "$1" || { echo "APPLY-FAILED"; exit 3; }
cmake --build "$WT/_build" -j${JOBS:-8} > "$WT/_build.log" 2>&1 || { echo "BUILD-FAILED"; tail -20 "$WT/_build.log"; git -C "$WT" checkout -q -- .; exit 4; }
(cd "$WT/_build" && ctest -j8 --timeout 900 > "$WT/_ctest.log" 2>&1); rc=$?
tail -5 "$WT/_ctest.log"
git -C "$WT" checkout -q -- .
exit $rc
