#!/bin/bash
# usage: run_on_seed.sh <seed id> <property> [check args...]  -- applies seeded/<id>/patch.diff to the scratch worktree /tmp/mut (at /repo's HEAD),
# runs ./check <property> against it (evidence of /repo is not touched), reverts
ID=$1; P=$2; shift 2
[ -d /tmp/mut ] || git -C /repo worktree add --detach /tmp/mut HEAD >/dev/null 2>&1
git -C /tmp/mut checkout -q -- . && git -C /tmp/mut checkout -q --detach $(git -C /repo rev-parse HEAD) && git -C /tmp/mut apply /verif/seeded/$ID/patch.diff || { echo APPLY-FAILED; exit 3; }
cd /verif; VERIF_REPO=/tmp/mut VERIF_WORK=/tmp/work_mut timeout ${T:-1500} ./check $P "$@" 2>&1 | grep -v "^WARN"
echo "exit=${PIPESTATUS[0]}"
git -C /tmp/mut checkout -q -- .
