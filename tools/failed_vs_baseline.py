#!/usr/bin/env python3
"""usage: failed_vs_baseline.py <LastTestsFailed.log>  -> prints failed tests that are in BASELINE stable_pass (must be none)"""
import json, re, sys
base = set(json.load(open('/root/.vp/BASELINE.json'))['stable_pass'])
bad = []
try:
    lines = open(sys.argv[1]).read().split('\n')
except FileNotFoundError:
    lines = []
for l in lines:
    m = re.match(r'^\d+:(.*)$', l.strip())
    if not m: continue
    parts = m.group(1).split('.')
    name = parts[-2] + '::' + parts[-1] if len(parts) >= 2 else m.group(1)
    if name in base: bad.append(name)
    else: print('not-in-stable-baseline (ignored):', name)
print('FAILED-STABLE:', bad)
sys.exit(1 if bad else 0)
