#!/bin/bash
# usage: confirm_seed.sh <agent worktree> <seed id> <property> [demo compile flags...]
# Confirms: patch applies to a clean checkout, project builds, full test suite passes, demo passes without / fails with the change.
SRC=$1; ID=$2; PROP=$3; shift 3
WT=/tmp/confirm
OUT=/verif/seeded/$ID
mkdir -p $OUT
cp $SRC/patch.diff $OUT/patch.diff; cp $SRC/demo.cc $OUT/demo.cc 2>/dev/null; cp $SRC/NOTES.txt $OUT/NOTES.txt 2>/dev/null
LOG=$OUT/confirm.log; : > $LOG
git -C $WT checkout -q -- . 
INC="-I$WT/api/include -I$WT/sdk/include -I$WT/sdk"
g++ -std=c++17 -DOPENTELEMETRY_ABI_VERSION_NO=1 $INC "$@" $OUT/demo.cc -o /tmp/demo_$ID $DEMO_LIBS >> $LOG 2>&1 && /tmp/demo_$ID >> $LOG 2>&1; echo "demo without change: exit $?" | tee -a $LOG
git -C $WT apply $OUT/patch.diff || { echo APPLY-FAILED | tee -a $LOG; exit 3; }
g++ -std=c++17 -DOPENTELEMETRY_ABI_VERSION_NO=1 $INC "$@" $OUT/demo.cc -o /tmp/demo_$ID $DEMO_LIBS >> $LOG 2>&1 && /tmp/demo_$ID >> $LOG 2>&1; echo "demo with change: exit $?" | tee -a $LOG
cmake --build $WT/_build -j${JOBS:-8} > $WT/_build.log 2>&1 || { echo BUILD-FAILED | tee -a $LOG; tail -5 $WT/_build.log >> $LOG; git -C $WT checkout -q -- .; exit 4; }
rm -f $WT/_build/Testing/Temporary/LastTestsFailed.log
(cd $WT/_build && ctest -j8 --timeout 900 > $WT/_ctest.log 2>&1); echo "ctest with change: exit $? : $(grep 'tests passed' $WT/_ctest.log)" | tee -a $LOG
/verif/tools/failed_vs_baseline.py $WT/_build/Testing/Temporary/LastTestsFailed.log | tee -a $LOG
git -C $WT checkout -q -- .
rm -f /tmp/demo_$ID
