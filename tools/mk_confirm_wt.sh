#!/bin/bash
# Build a reusable scratch worktree of /repo (outside /repo and /verif) with the baseline cmake options.
# usage: mk_confirm_wt.sh <dir>
set -e
WT=${1:-/tmp/confirm}
if [ ! -d "$WT" ]; then git -C /repo worktree add --detach "$WT" HEAD >/dev/null; fi
cmake -G Ninja -S "$WT" -B "$WT/_build" -DCMAKE_BUILD_TYPE=RelWithDebInfo -DBUILD_TESTING=ON -DWITH_BENCHMARK=ON \
  -DWITH_EXAMPLES=ON -DWITH_FUNC_TESTS=ON -DBUILD_W3CTRACECONTEXT_TEST=ON -DCMAKE_C_FLAGS=-Wno-error -DWITH_STL=OFF -DWITH_ABI_VERSION_1=ON -DOPENTELEMETRY_INSTALL=ON \
  -DCMAKE_CXX_FLAGS="-Wno-error" > "$WT/_cmake.log" 2>&1
cmake --build "$WT/_build" -j${JOBS:-8} > "$WT/_build.log" 2>&1
echo built
