#!/usr/bin/env python3
"""debug helper: emit the C text of one proof without running the verifier:  tools/emit_c.py C10 Context_SetValue"""
import sys, os, importlib
sys.path.insert(0, os.path.dirname(os.path.dirname(os.path.abspath(__file__))))
from engine import core
mod = importlib.import_module("engine.units." + sys.argv[1].lower())
p = [q for q in mod.proofs if q.name == sys.argv[2]][0]
ix = core.get_index(*(p.tu if getattr(p, "tu", None) else (mod.tu_name, mod.tu_text)))
if p.enforce and p.enforce not in mod.contracts and not (p.contracts and p.enforce in p.contracts):
    mod.contracts[p.enforce] = {"pre": "__CPROVER_assigns()\n"}
text, entry, em = core.build_c(mod, p, ix)
print(text)
