#!/bin/bash
# usage: confirm_seed2.sh <seed id, e.g. C08-a>   (seeded/<id>/{patch.diff,demo.cc} must exist; scratch worktree /tmp/confirm built by mk_confirm_wt.sh)
# Confirms in the scratch worktree: unchanged tree builds and the demo (linked against the freshly built static libraries) exits 0; the patch
# applies, the project builds, the demo exits non-zero, and the full test suite still passes (apart from tests failing on the unchanged tree).
ID=$1
WT=/tmp/confirm
OUT=/verif/seeded/$ID
LOG=$OUT/confirm.log; : > $LOG
cd $WT
git -C $WT checkout -q -- .
git -C $WT checkout -q --detach $(git -C /repo rev-parse HEAD) 2>>$LOG
echo "base commit: $(git -C $WT rev-parse --short HEAD)" | tee -a $LOG
INC="-I$WT/api/include -I$WT/sdk/include -I$WT/sdk"
libs() { echo "-Wl,--start-group $(find $WT/_build -name 'libopentelemetry*.a' | grep -v -e otlp -e zipkin -e prometheus -e elasticsearch -e http_client | tr '\n' ' ') -Wl,--end-group -lpthread"; }
cmake --build $WT/_build -j${JOBS:-8} > $WT/_build.log 2>&1 || { echo BASE-BUILD-FAILED | tee -a $LOG; exit 4; }
g++ -std=c++17 -O1 -DOPENTELEMETRY_ABI_VERSION_NO=1 $INC $OUT/demo.cc -o /tmp/demo_$ID $(libs) >> $LOG 2>&1 && /tmp/demo_$ID >> $LOG 2>&1; echo "demo without change: exit $?" | tee -a $LOG
git -C $WT apply $OUT/patch.diff || { echo APPLY-FAILED | tee -a $LOG; exit 3; }
cmake --build $WT/_build -j${JOBS:-8} > $WT/_build.log 2>&1 || { echo BUILD-FAILED | tee -a $LOG; tail -5 $WT/_build.log >> $LOG; git -C $WT checkout -q -- .; exit 4; }
g++ -std=c++17 -O1 -DOPENTELEMETRY_ABI_VERSION_NO=1 $INC $OUT/demo.cc -o /tmp/demo_$ID $(libs) >> $LOG 2>&1 && /tmp/demo_$ID >> $LOG 2>&1; echo "demo with change: exit $?" | tee -a $LOG
rm -f $WT/_build/Testing/Temporary/LastTestsFailed.log
(cd $WT/_build && ctest -j${JOBS:-8} --timeout 900 > $WT/_ctest.log 2>&1); echo "ctest with change: exit $? : $(grep 'tests passed' $WT/_ctest.log)" | tee -a $LOG
/verif/tools/failed_vs_baseline.py $WT/_build/Testing/Temporary/LastTestsFailed.log | tee -a $LOG
git -C $WT checkout -q -- .
rm -f /tmp/demo_$ID
