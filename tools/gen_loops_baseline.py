#!/usr/bin/env python3
"""Writes engine/loops_baseline.json: for every proof the number of loops of every extracted function on the unchanged tree ("the loops the
contracts know": either under a loop contract or constant-bound helper loops that cbmc unwinds completely). core.run_one caps the unwinding only
of functions that have MORE loops than recorded here (the code gained a loop).   usage: tools/gen_loops_baseline.py [Cxx ...]"""
import sys, os, json, importlib
sys.path.insert(0, os.path.dirname(os.path.dirname(os.path.abspath(__file__))))
from engine import core
path = os.path.join(core.HERE, "loops_baseline.json")
try:
    base = json.load(open(path))
except Exception:
    base = {}
props = sys.argv[1:] or ["C%02d" % i for i in range(3, 21) if os.path.exists(os.path.join(core.HERE, "units", "c%02d.py" % i))]
for pid in props:
    mod = importlib.import_module("engine.units." + pid.lower())
    ent = {}
    for p in mod.proofs:
        if not (p.loop_contracts and (p.enforce or p.replace)):
            continue
        try:
            ix = core.get_index(*(p.tu if getattr(p, "tu", None) else (mod.tu_name, mod.tu_text)))
            text, entry, em = core.build_c(mod, p, ix)
            ent[p.name] = {fo.cname: fo.nloops for fo in em.funcs.values() if fo.nloops}
        except Exception as e:
            print("skip %s %s: %s" % (pid, p.name, str(e)[:100]))
    base[pid] = ent
    print(pid, sum(len(v) for v in ent.values()), "functions with loops in", len(ent), "proofs")
json.dump(base, open(path, "w"), indent=0, sort_keys=True)
